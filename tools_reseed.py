#!/usr/bin/env python3
"""regression over the stored seeded changes: apply each /verif/seeded/<prop>-<k>/patch.diff to a scratch worktree of /repo's HEAD,
run the quick check against that tree (ATHLIB_TREE, outputs to a scratch directory) and report whether it is still caught.
usage: tools_reseed.py [<prop> ...]      (no argument: every property; parallel over seeds)"""
import json, os, shutil, subprocess, sys
from concurrent.futures import ThreadPoolExecutor

sh = lambda cmd, **kw: subprocess.run(cmd, shell=True, capture_output=True, text=True, **kw)
props = sys.argv[1:]
seeds = sorted(d for d in os.listdir('/verif/seeded') if os.path.exists('/verif/seeded/%s/patch.diff' % d) and (not props or d.split('-')[0] in props))
PAR = int(os.environ.get('RESEED_PAR', '3'))


def one(name):
    prop = name.split('-')[0]
    wt = '/tmp/reseed_wt_%s' % name
    out = '/tmp/reseed_out_%s' % name
    sh('git -C /repo worktree remove --force %s' % wt)
    shutil.rmtree(out, ignore_errors=True)
    r = sh('git -C /repo worktree add --detach %s HEAD -q' % wt)
    try:
        ap = sh('git -C %s apply /verif/seeded/%s/patch.diff' % (wt, name))
        if ap.returncode != 0:
            return name, 'n/a (patch no longer applies)', ''
        os.makedirs(out)
        r = sh('cd /verif && ATHLIB_TREE=%s VERIF_OUT=%s ./check %s --quick' % (wt, out, prop))
        lines = [l for l in (r.stdout + r.stderr).splitlines() if l.startswith('VIOLATION') or 'quick:' in l]
        caught = r.returncode == 1 and any(l.startswith('VIOLATION') for l in lines)
        return name, 'caught' if caught else 'MISSED (exit %d)' % r.returncode, (lines[-1] if lines else '')[:150]
    finally:
        sh('git -C /repo worktree remove --force %s' % wt)
        shutil.rmtree(out, ignore_errors=True)


with ThreadPoolExecutor(PAR) as ex:
    res = list(ex.map(one, seeds))
sh('git -C /repo worktree prune')
bad = 0
for name, verdict, line in res:
    print('%-8s %-34s %s' % (name, verdict, line))
    bad += verdict.startswith('MISSED')
print('%d seeded changes, %d missed' % (len(res), bad))
sys.exit(1 if bad else 0)
