#!/bin/bash
# run every claimed quick check on the current tree (evidence regenerated), validate manifest + evidence
cd /verif
python3 tools_gen_manifest.py >/dev/null || exit 1
if ! git -C /repo diff --quiet; then echo "WARNING: /repo has uncommitted changes"; fi
rc=0
for id in $(python3 -c "import json;print(' '.join(c['property_id'] for c in json.load(open('MANIFEST.json'))['checks']))"); do
  if [ -n "$1" ] && [[ " $* " != *" $id "* ]]; then continue; fi
  s=$(date +%s)
  out=$(./check $id --quick 2>&1); r=$?
  echo "$out" | grep -E "VIOLATION|KNOWN-FINDING|UNDECIDED|CHECKER|quick:" | head -12
  echo "   -> $id exit=$r $(( $(date +%s) - s ))s"
  [ $r -ne 0 ] && rc=1
done
.venv/bin/python tools_validate.py | tail -1
exit $rc
