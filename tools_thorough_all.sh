#!/bin/bash
# run every thorough check in sequence (used with `vp run`), print one summary line per property
cd "$(dirname "$0")"
for id in C13 C17 C19 C04 C06 C09 C10 C07 C16 C18 C01 C11 C05 C14 C15 C02 C03 C08 C12; do
  s=$(date +%s)
  out=$(./check $id --thorough 2>&1); r=$?
  echo "$out" | grep -E "VIOLATION|UNDECIDED|CHECKER|thorough:" | head -8
  echo "   -> $id thorough exit=$r $(( $(date +%s) - s ))s"
done
