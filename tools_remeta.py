#!/usr/bin/env python3
"""re-run the quick check against a stored seeded change (scratch worktree of /repo's HEAD + its patch) and record the outcome in
its meta.json (field `check`; the first outcome is kept under `check_before_strengthening` when it was a miss).
usage: tools_remeta.py <prop>-<k> ..."""
import json, os, shutil, subprocess, sys
sh = lambda cmd, **kw: subprocess.run(cmd, shell=True, capture_output=True, text=True, **kw)
for name in sys.argv[1:]:
    prop = name.split('-')[0]
    wt, out = '/tmp/remeta_wt_%s' % name, '/tmp/remeta_out_%s' % name
    sh('git -C /repo worktree remove --force %s' % wt)
    shutil.rmtree(out, ignore_errors=True)
    sh('git -C /repo worktree add --detach %s HEAD -q' % wt)
    try:
        ap = sh('git -C %s apply /verif/seeded/%s/patch.diff' % (wt, name))
        if ap.returncode:
            print(name, 'patch no longer applies')
            continue
        os.makedirs(out)
        r = sh('cd /verif && ATHLIB_TREE=%s VERIF_OUT=%s ./check %s --quick' % (wt, out, prop))
        lines = [l for l in (r.stdout + r.stderr).splitlines() if any(w in l for w in ('VIOLATION', 'UNDECIDED', 'CHECKER', 'quick:'))]
        caught = r.returncode == 1 and any(l.startswith('VIOLATION') for l in lines)
        mf = '/verif/seeded/%s/meta.json' % name
        meta = json.load(open(mf))
        if not meta['check'].get('caught') and 'check_before_strengthening' not in meta:
            meta['check_before_strengthening'] = meta['check']
        meta['check'] = dict(cmd='ATHLIB_TREE=<tree with the patch> ./check %s --quick' % prop, exit=r.returncode, caught=caught, lines=[l[:300] for l in lines[:6]])
        json.dump(meta, open(mf, 'w'), indent=1)
        print(name, 'exit', r.returncode, 'caught', caught)
    finally:
        sh('git -C /repo worktree remove --force %s' % wt)
        shutil.rmtree(out, ignore_errors=True)
