#!/usr/bin/env python3
"""regenerate MANIFEST.json from manifest_src.py (keeps the file valid and in one place)"""
import json, os, sys
HERE = os.path.dirname(os.path.abspath(__file__))
sys.path.insert(0, HERE)
import manifest_src as M
props = [json.loads(l)['id'] for l in open(os.path.join(HERE, 'properties.jsonl'))]
checks = []
for pid in props:
    c = M.CHECKS.get(pid)
    if not c:
        continue
    d = dict(property_id=pid,
             quick_cmd='./check %s --quick' % pid,
             thorough_cmd='./check %s --thorough' % pid,
             evidence_file='evidence/%s.json' % pid,
             replay_cmd_template='./check --replay {path}',
             engine='pyvc',
             level_claimed=dict(category=c['category'], text=c['text'], design_ref=c.get('design_ref', 'DESIGN.md §5 ' + pid)),
             level_note=c['note'], technique=c['technique'])
    checks.append(d)
na = [dict(property_id=p, reason=M.NOT_APPLICABLE[p]) for p in props if p not in M.CHECKS]
missing = [p for p in props if p not in M.CHECKS and p not in M.NOT_APPLICABLE]
assert not missing, missing
man = dict(version=1, setup_cmd='./check setup',
           hooks=dict(guard='ATHLIB_VERIF', enable='no hook in /repo is needed: contracts are sidecar files and the real functions are re-compiled from source; checks export ATHLIB_VERIF=1 anyway',
                      baseline_off_cmd='cd /repo && /venv/bin/python -m pytest -ra -q -p no:cacheprovider --timeout=900 --continue-on-collection-errors',
                      source_commits=M.HOOK_COMMITS, add_only=True),
           engines=[dict(name='pyvc', path='pyvc/', serves_properties=[c['property_id'] for c in checks],
                         kind_free_text='contract-based deductive verification: VC generation by symbolic execution of the real Python functions re-compiled from /repo source (mechanical AST rewrites), sidecar contracts/specs, z3 (+cvc5) discharge; bounded stand-ins labelled')],
           checks=checks, notes=M.NOTES, not_applicable=na)
json.dump(man, open(os.path.join(HERE, 'MANIFEST.json'), 'w'), indent=1)
print('checks:', [c['property_id'] for c in checks], 'n/a:', [x['property_id'] for x in na])
