"""Re-compile a real function of /repo from its source with the mechanical rewrites of
DESIGN §2.2, so that CPython executes *the real text* on symbolic proxies.

Nothing is hand-copied: the source is taken from the function object imported from
/repo on every run, its sha256 is recorded, and every rewrite applied is logged.
"""
import ast
import hashlib
import inspect
import textwrap

from . import builtins_sym as B


class LoopBreak(Exception):
    """`break` of a cut loop (caught by the cut itself)"""


class LoopContinue(Exception):
    """`continue` of a cut loop (caught by the cut itself)"""


class Rewriter(ast.NodeTransformer):
    def __init__(self, log, loop_cuts=None, drop_calls=('print',), fname=''):
        self.log = log
        self.loop_cuts = loop_cuts or {}
        self.drop_calls = set(drop_calls)
        self.loop_no = 0
        self.fname = fname
        self.depth = 0

    def _note(self, what, node):
        self.log.append('%s@%s' % (what, getattr(node, 'lineno', '?')))

    def visit_FunctionDef(self, node):
        self.depth += 1
        if self.depth == 1:
            if node.decorator_list:
                self._note('decorators-stripped', node)
            node.decorator_list = []
            node.returns = None
            for a in node.args.args + node.args.kwonlyargs + node.args.posonlyargs:
                a.annotation = None
            if node.args.vararg:
                node.args.vararg.annotation = None
            if node.args.kwarg:
                node.args.kwarg.annotation = None
            # docstring
            if (node.body and isinstance(node.body[0], ast.Expr) and isinstance(node.body[0].value, ast.Constant)
                    and isinstance(node.body[0].value.value, str)):
                node.body = node.body[1:] or [ast.Pass()]
        self.generic_visit(node)
        self.depth -= 1
        return node

    def visit_AnnAssign(self, node):
        self.generic_visit(node)
        if node.value is None:
            return None
        return ast.copy_location(ast.Assign(targets=[node.target], value=node.value), node)

    def visit_Expr(self, node):
        v = node.value
        if isinstance(v, ast.Call) and isinstance(v.func, ast.Name) and v.func.id in self.drop_calls:
            self._note('dropped-%s' % v.func.id, node)
            return ast.copy_location(ast.Pass(), node)
        self.generic_visit(node)
        return node

    def visit_If(self, node):
        # `if verbose: print(...)` bodies become pass after visit_Expr; keep structure
        self.generic_visit(node)
        return node

    def visit_BinOp(self, node):
        self.generic_visit(node)
        if isinstance(node.op, ast.Mod):
            self._note('mod', node)
            return ast.copy_location(ast.Call(func=ast.Name(id='__sym_mod', ctx=ast.Load()),
                                              args=[node.left, node.right], keywords=[]), node)
        if isinstance(node.op, ast.Pow):
            self._note('pow', node)
            return ast.copy_location(ast.Call(func=ast.Name(id='__sym_pow', ctx=ast.Load()),
                                              args=[node.left, node.right], keywords=[]), node)
        return node

    def visit_Call(self, node):
        self.generic_visit(node)
        f = node.func
        if isinstance(f, ast.Name) and f.id == 'sum' and len(node.args) == 1 and isinstance(node.args[0], ast.GeneratorExp) \
                and len(node.args[0].generators) == 1 and not node.args[0].generators[0].ifs \
                and isinstance(node.args[0].generators[0].target, ast.Name):
            g = node.args[0]
            self._note('sum-gen', node)
            lam = ast.Lambda(args=ast.arguments(posonlyargs=[], args=[ast.arg(arg=g.generators[0].target.id)], kwonlyargs=[], kw_defaults=[], defaults=[]),
                             body=g.elt)
            return ast.copy_location(ast.Call(func=ast.Name(id='__sym_sum_gen', ctx=ast.Load()), args=[lam, g.generators[0].iter], keywords=[]), node)
        if isinstance(f, ast.Attribute) and f.attr == 'join' and len(node.args) == 1 and not node.keywords:
            self._note('join', node)
            return ast.copy_location(ast.Call(func=ast.Name(id='__sym_join', ctx=ast.Load()),
                                              args=[f.value, node.args[0]], keywords=[]), node)
        return node

    def visit_Subscript(self, node):
        self.generic_visit(node)
        if isinstance(node.ctx, ast.Load) and not isinstance(node.slice, ast.Slice):
            return ast.copy_location(ast.Call(func=ast.Name(id='__sym_getitem', ctx=ast.Load()),
                                              args=[node.value, node.slice], keywords=[]), node)
        return node

    def visit_Compare(self, node):
        self.generic_visit(node)
        if len(node.ops) == 1:
            op = node.ops[0]
            if isinstance(op, (ast.In, ast.NotIn)):
                self._note('in', node)
                call = ast.Call(func=ast.Name(id='__sym_in', ctx=ast.Load()),
                                args=[node.left, node.comparators[0]], keywords=[])
                if isinstance(op, ast.NotIn):
                    call = ast.Call(func=ast.Name(id='__sym_not', ctx=ast.Load()), args=[call], keywords=[])
                return ast.copy_location(call, node)
            if isinstance(op, (ast.Is, ast.IsNot)) and isinstance(node.comparators[0], ast.Constant) \
                    and node.comparators[0].value is None:
                self._note('is-none', node)
                call = ast.Call(func=ast.Name(id='__sym_is_none', ctx=ast.Load()), args=[node.left], keywords=[])
                if isinstance(op, ast.IsNot):
                    call = ast.Call(func=ast.Name(id='__sym_not', ctx=ast.Load()), args=[call], keywords=[])
                return ast.copy_location(call, node)
        return node

    def visit_JoinedStr(self, node):
        self.generic_visit(node)
        self._note('fstring', node)
        parts = []
        for v in node.values:
            if isinstance(v, ast.Constant):
                parts.append(v)
            else:
                spec = v.format_spec
                if spec is not None and not (len(spec.values) == 1 and isinstance(spec.values[0], ast.Constant)):
                    raise NotImplementedError('dynamic format spec')
                st = spec.values[0].value if spec is not None else ''
                parts.append(ast.Tuple(elts=[v.value, ast.Constant(value=v.conversion), ast.Constant(value=st)],
                                       ctx=ast.Load()))
        return ast.copy_location(ast.Call(func=ast.Name(id='__sym_fstr', ctx=ast.Load()),
                                          args=[ast.List(elts=parts, ctx=ast.Load())], keywords=[]), node)

    def visit_ExceptHandler(self, node):
        self.generic_visit(node)
        if node.type is None:
            self._note('bare-except', node)
            node.type = ast.Name(id='Exception', ctx=ast.Load())
        return node

    def _cut(self, node):
        """loop cut: the n-th loop (source order, 1-based) of the function with a sidecar invariant.

        while C: B      ==>
            __loop_inv(n, 'entry', locals())          # assert invariant on entry
            __loop_havoc(n, locals()) -> dict         # havoc assigned names, assume invariant
            <names> = ...
            if C:
                B
                __loop_inv(n, 'preserve', locals())   # assert invariant after one iteration
                raise __PathEnd()
            # exit continuation runs with invariant and not C
        """
        n = self.loop_no
        spec = self.loop_cuts[n]
        names = spec['havoc']
        self._note('loop-cut-%d' % n, node)
        L = lambda: ast.Call(func=ast.Name(id='locals', ctx=ast.Load()), args=[], keywords=[])
        pre = ast.Expr(ast.Call(func=ast.Name(id='__loop_inv', ctx=ast.Load()),
                                args=[ast.Constant(n), ast.Constant('entry'), L()], keywords=[]))
        hav = ast.Assign(
            targets=[ast.Tuple(elts=[ast.Name(id=x, ctx=ast.Store()) for x in names], ctx=ast.Store())],
            value=ast.Call(func=ast.Name(id='__loop_havoc', ctx=ast.Load()), args=[ast.Constant(n), L()], keywords=[]))
        post = ast.Expr(ast.Call(func=ast.Name(id='__loop_inv', ctx=ast.Load()),
                                 args=[ast.Constant(n), ast.Constant('preserve'), L()], keywords=[]))
        end = ast.Raise(exc=ast.Call(func=ast.Name(id='__PathEnd', ctx=ast.Load()), args=[], keywords=[]), cause=None)
        # `break` / `continue` of THIS loop (not of loops nested in its body): break leaves for the code after the loop from the
        # state reached in an arbitrary iteration; continue ends the iteration (the invariant must hold there)
        has_jump = [False]

        class _Jumps(ast.NodeTransformer):
            def visit_For(self, nd): return nd
            def visit_While(self, nd): return nd
            def visit_FunctionDef(self, nd): return nd
            def visit_Lambda(self, nd): return nd

            def visit_Break(self, nd):
                has_jump[0] = True
                return ast.copy_location(ast.Raise(exc=ast.Call(func=ast.Name(id='__LoopBreak', ctx=ast.Load()), args=[], keywords=[]), cause=None), nd)

            def visit_Continue(self, nd):
                has_jump[0] = True
                return ast.copy_location(ast.Raise(exc=ast.Call(func=ast.Name(id='__LoopContinue', ctx=ast.Load()), args=[], keywords=[]), cause=None), nd)
        jbody = [_Jumps().visit(st) for st in node.body]
        brk = '__brk_%d' % n

        def guarded(stmts):
            if not has_jump[0]:
                return stmts + [post, end]
            self._note('loop-break-continue-%d' % n, node)
            t = ast.Try(body=stmts,
                        handlers=[ast.ExceptHandler(type=ast.Name(id='__LoopContinue', ctx=ast.Load()), name=None, body=[ast.Pass()]),
                                  ast.ExceptHandler(type=ast.Name(id='__LoopBreak', ctx=ast.Load()), name=None,
                                                    body=[ast.Assign(targets=[ast.Name(id=brk, ctx=ast.Store())], value=ast.Constant(True)),
                                                          # the sidecar is told: the loop is left from the middle of an iteration
                                                          ast.Expr(ast.Call(func=ast.Name(id='__loop_inv', ctx=ast.Load()),
                                                                            args=[ast.Constant(n), ast.Constant('break'), L()], keywords=[]))])],
                        orelse=[], finalbody=[])
            return [t, ast.If(test=ast.UnaryOp(op=ast.Not(), operand=ast.Name(id=brk, ctx=ast.Load())), body=[post, end], orelse=[])]
        init = ast.Assign(targets=[ast.Name(id=brk, ctx=ast.Store())], value=ast.Constant(False))
        if isinstance(node, ast.While):
            body = ast.If(test=node.test, body=guarded(jbody), orelse=[])
            out = [pre, hav, init, body]
        else:
            more = ast.Call(func=ast.Name(id='__loop_more', ctx=ast.Load()), args=[ast.Constant(n)], keywords=[])
            item = ast.Assign(targets=[node.target],
                              value=ast.Call(func=ast.Name(id='__loop_item', ctx=ast.Load()), args=[ast.Constant(n), node.iter], keywords=[]))
            if node.orelse:
                raise NotImplementedError('for-else cut')
            body = ast.If(test=more, body=[item] + guarded(jbody), orelse=[])
            out = [pre, hav, init, body]
        return [ast.fix_missing_locations(ast.copy_location(x, node)) for x in out]

    def visit_While(self, node):
        if self.depth == 1:
            self.loop_no += 1
            n = self.loop_no
        else:
            n = None
        self.generic_visit(node)
        if n is not None and n in self.loop_cuts:
            save = self.loop_no
            self.loop_no = n
            r = self._cut(node)
            self.loop_no = save
            return r
        return node

    def visit_For(self, node):
        if self.depth == 1:
            self.loop_no += 1
            n = self.loop_no
        else:
            n = None
        self.generic_visit(node)
        if n is not None and n in self.loop_cuts:
            save = self.loop_no
            self.loop_no = n
            r = self._cut(node)
            self.loop_no = save
            return r
        return node


class Instrumented(object):
    def __init__(self, fn, func, sha, log, src, qualname, file, lineno):
        self.fn, self.func, self.sha256, self.rewrites, self.src = fn, func, sha, log, src
        self.qualname, self.file, self.lineno = qualname, file, lineno

    def __call__(self, *a, **k):
        from .core import Ctx
        if Ctx.current is not None:
            Ctx.current.called = True
        return self.fn(*a, **k)

    def describe(self):
        kinds = {}
        for r in self.rewrites:
            k = r.split('@')[0]
            kinds[k] = kinds.get(k, 0) + 1
        return dict(function=self.qualname, file=self.file, line=self.lineno, sha256=self.sha256[:16],
                    rewrites=kinds)


def instrument_class(cls, names, shadows=None, extra=None):
    """subclass of the real class whose listed methods are the re-compiled real ones; returns (subclass, [Instrumented])"""
    recs = []
    d = {}
    for n in names:
        raw = cls.__dict__[n]
        inst = instrument(raw, shadows=shadows, **(extra or {}).get(n, {}))
        recs.append(inst)
        fn = inst.fn
        if isinstance(raw, property):
            d[n] = property(fn)
        elif isinstance(raw, staticmethod):
            d[n] = staticmethod(fn)
        elif isinstance(raw, classmethod):
            d[n] = classmethod(fn)
        else:
            d[n] = fn
    # aliases such as  throw_points = stav_points  must follow the re-compiled function
    for k, v in cls.__dict__.items():
        if k not in d:
            for n in names:
                if v is cls.__dict__[n]:
                    d[k] = d[n]
    sub = type(cls.__name__, (cls,), d)
    return sub, recs


def raw_function(f):
    if isinstance(f, (staticmethod, classmethod)):
        f = f.__func__
    if isinstance(f, property):
        f = f.fget
    return inspect.unwrap(f)


def instrument(func, shadows=None, loop_cuts=None, extra_globals=None, drop_calls=('print',), share_globals=None):
    """func: a function object from the imported real module (plain, static, class or property)."""
    func = raw_function(func)
    src = textwrap.dedent(inspect.getsource(func))
    sha = hashlib.sha256(src.encode()).hexdigest()
    tree = ast.parse(src)
    log = []
    rw = Rewriter(log, loop_cuts=loop_cuts, drop_calls=drop_calls, fname=func.__qualname__)
    tree = rw.visit(tree)
    ast.fix_missing_locations(tree)
    file = inspect.getsourcefile(func)
    _, lineno = inspect.getsourcelines(func)
    ast.increment_lineno(tree, lineno - 1)
    code = compile(tree, file, 'exec')
    if share_globals is not None:
        g = share_globals.fn.__globals__        # same module-global namespace as another re-compiled function
    else:
        g = dict(func.__globals__)
        g.update(B.SHADOWS)
        g['__LoopBreak'] = LoopBreak
        g['__LoopContinue'] = LoopContinue
        # a module that imported decimal.Decimal by name gets the proxy-aware constructor (concrete arguments: the real class)
        import decimal as _decimal
        for _n, _v in list(g.items()):
            if _v is _decimal.Decimal:
                from .floats import s_Decimal
                g[_n] = s_Decimal
    if shadows:
        g.update(shadows)
    if extra_globals:
        g.update(extra_globals)
    ns = {}
    exec(code, g, ns)
    fn = ns[func.__name__]
    # closures: functions using free variables cannot be re-compiled this way
    if func.__closure__:
        from .core import OutOfSubset
        raise OutOfSubset('%s uses free variables (a closure / zero-argument super()): outside the re-compilation' % func.__qualname__)
    fn.__globals__  # same dict g
    # names defined at def-time in ns must be visible as globals for recursion
    g[func.__name__] = fn if func.__name__ not in (shadows or {}) else g[func.__name__]
    return Instrumented(fn, func, sha, log, src, func.__module__ + '.' + func.__qualname__, file, lineno)
