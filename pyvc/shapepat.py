"""Regular-expression matching on shape-typed strings (sstr.SStr) with group extraction.

A compiled pattern tests characters only through its atoms (literals, sets, categories, '.').  If every atom of the
pattern either accepts ALL characters of a symbolic cell's class or NONE of them, the whole match -- success and every
group span -- is the same for every content of that cell, so it can be computed by the real `re` engine on one
representative string.  `ShapePat.match` checks that uniformity condition from the parse tree of the real pattern
(sound: matching has no other access to the characters; back-references are refused) and otherwise raises OutOfSubset.
Groups are returned as slices of the symbolic string."""
import re

try:
    import re._parser as sre_parse
    import re._constants as sre_c
except ImportError:      # pragma: no cover
    import sre_parse
    import sre_constants as sre_c

from .core import OutOfSubset
from . import regex2smt as R
from . import sstr as S


def _atoms(seq, flags, out):
    for op, av in seq:
        if op is sre_c.LITERAL:
            out.append(([(av, av)], False))
        elif op is sre_c.NOT_LITERAL:
            out.append(([(av, av)], True))
        elif op is sre_c.ANY:
            out.append(([(10, 10)], not (flags & re.DOTALL)) if not (flags & re.DOTALL) else ([], True))
        elif op is sre_c.IN:
            out.append(R.set_ranges(av, flags))
        elif op is sre_c.BRANCH:
            for alt in av[1]:
                _atoms(alt, flags, out)
        elif op is sre_c.SUBPATTERN:
            group, add, dele, p = av
            if add or dele:
                raise OutOfSubset('inline regex flags')
            _atoms(p, flags, out)
        elif op in (sre_c.MAX_REPEAT, sre_c.MIN_REPEAT):
            _atoms(av[2], flags, out)
        elif op is sre_c.AT:
            if av not in (sre_c.AT_BEGINNING, sre_c.AT_END, sre_c.AT_BEGINNING_STRING, sre_c.AT_END_STRING):
                raise OutOfSubset('regex anchor %s' % av)      # \b looks at character classes of neighbours
        elif op in (sre_c.ASSERT, sre_c.ASSERT_NOT):
            _atoms(av[1], flags, out)
        else:
            raise OutOfSubset('regex node %s on a shape-typed string' % op)


_atom_cache = {}


def atoms_of(real):
    k = (real.pattern, real.flags)
    if k not in _atom_cache:
        flags = real.flags & ~re.UNICODE
        if flags & (re.MULTILINE | re.VERBOSE | re.LOCALE):
            raise OutOfSubset('regex flags %r' % real.flags)
        out = []
        _atoms(sre_parse.parse(real.pattern, flags), flags, out)
        _atom_cache[k] = (out, bool(flags & re.IGNORECASE))
    return _atom_cache[k]


def _accepts(atom, cp, icase):
    rs, neg = atom
    cps = {cp}
    if icase:
        ch = chr(cp)
        cps |= {ord(x) for x in (ch.lower(), ch.upper()) if len(x) == 1}
    hit = any(a <= c <= b for c in cps for a, b in rs)
    return hit != neg


def uniform(real, cc):
    """does every atom of the pattern accept all or none of the characters of class cc?"""
    atoms, icase = atoms_of(real)
    if cc.size() > 4096:
        return False
    cps = [c for a, b in cc.r for c in range(a, b + 1)]
    for atom in atoms:
        first = _accepts(atom, cps[0], icase)
        for c in cps[1:]:
            if _accepts(atom, c, icase) != first:
                return False
    return True


class ShapeMatch(object):
    def __init__(self, m, s, pat):
        self._m, self._s, self.re = m, s, pat
        self.string = s
        self.lastindex = m.lastindex

    def _slice(self, g):
        a, b = self._m.span(g)
        if a < 0:
            return None
        return self._s[a:b]

    def group(self, *gs):
        if not gs:
            return self._slice(0)
        if len(gs) == 1:
            return self._slice(gs[0])
        return tuple(self._slice(g) for g in gs)

    def __getitem__(self, g):
        return self._slice(g)

    def groups(self, default=None):
        out = []
        for i in range(1, self._m.re.groups + 1):
            x = self._slice(i)
            out.append(default if x is None else x)
        return tuple(out)

    def groupdict(self, default=None):
        out = {}
        for name, i in self._m.re.groupindex.items():
            x = self._slice(i)
            out[name] = default if x is None else x
        return out

    def start(self, g=0): return self._m.start(g)
    def end(self, g=0): return self._m.end(g)
    def span(self, g=0): return self._m.span(g)
    def __bool__(self): return True


class ShapePat(object):
    """wrapper of a real compiled pattern usable on str, SFmt and SStr"""
    def __init__(self, real):
        self.real = real
        self.pattern = real.pattern
        self.flags = real.flags
        self.groups = real.groups
        self.groupindex = real.groupindex

    def _rep(self, s):
        from .builtins_sym import SFmt
        if isinstance(s, SFmt):
            s = s.force()
        if isinstance(s, str):
            return s, None
        if not isinstance(s, S.SStr):
            raise OutOfSubset('pattern match on %s' % type(s).__name__)
        rep = []
        for c in s.cells:
            if isinstance(c, str):
                rep.append(c)
            else:
                if not uniform(self.real, c.cc):
                    raise OutOfSubset('pattern %r distinguishes characters of a symbolic cell %r' % (self.pattern[:30], c.cc))
                rep.append(chr(c.cc.r[0][0]))
        return ''.join(rep), s

    def _run(self, meth, s, *a):
        rep, sym = self._rep(s)
        m = getattr(self.real, meth)(rep, *a)
        if sym is None or m is None:
            return m
        return ShapeMatch(m, sym, self)

    def match(self, s, *a): return self._run('match', s, *a)
    def fullmatch(self, s, *a): return self._run('fullmatch', s, *a)
    def search(self, s, *a): return self._run('search', s, *a)

    def __getattr__(self, n):
        return getattr(self.real, n)
