"""Heap proxies for the high-jump classes: the REAL Jumper / HighJumpCompetition objects are used (created with
__new__), their fields hold these proxies.

SEntry   one card cell 'x'*nx + {'' | 'o' | '-' | 'r'}      (nx: Int, term: Int 0..3)
SCard    attempts_by_height: <array of cells, symbolic length>; only the operations the real code applies
SHeights heights: <symbolic length, symbolic last bar>
SLog     actions: opaque old content + the entries appended by this call
"""
from fractions import Fraction

import z3

from .core import ctx, OutOfSubset
from .values import Sym, SBool, SInt, SReal, mkbool, mkint, zint, zbool, zreal

TERM = {'': 0, 'o': 1, '-': 2, 'r': 3}
TERMCH = {v: k for k, v in TERM.items()}


class SEntry(Sym):
    __slots__ = ('nx', 'term')
    _pytype = str

    def __init__(self, nx, term):
        self.nx, self.term = zint(nx), zint(term)

    @classmethod
    def of(cls, s):
        if isinstance(s, SEntry):
            return s
        if not isinstance(s, str):
            raise TypeError('card cell must be a string')
        body = s.rstrip('o-r')
        tail = s[len(body):]
        if body.strip('x') or len(tail) > 1:
            raise OutOfSubset('card cell %r outside x*[o-r]?' % s)
        return cls(len(body), TERM[tail])

    def valid(self):
        return z3.And(self.nx >= 0, self.term >= 0, self.term <= 3)

    def __add__(self, o):
        """cell + one mark; appending after a terminal mark leaves the representable set"""
        if not isinstance(o, str) or len(o) != 1 or o not in 'xo-r':
            raise OutOfSubset('appending %r to a card cell' % (o,))
        c = ctx()
        if c.decide(self.term != 0):
            raise OutOfSubset('a mark appended after a terminal mark of the same cell (cell would not be x*[o-r]?)')
        if o == 'x':
            return SEntry(self.nx + 1, 0)
        return SEntry(self.nx, TERM[o])

    def _sym_len(self):
        return mkint(self.nx + z3.If(self.term != 0, 1, 0))

    def __len__(self):
        raise OutOfSubset('native len() of a symbolic cell')

    def endswith(self, ch):
        if ch == 'x':
            return mkbool(z3.And(self.term == 0, self.nx > 0))
        if ch in TERM:
            return mkbool(self.term == TERM[ch])
        return False

    def count(self, ch):
        if ch == 'x':
            return mkint(self.nx)
        if ch in TERM and ch:
            return mkint(z3.If(self.term == TERM[ch], 1, 0))
        return 0

    def _sym_contains(self, ch):
        if ch == 'x':
            return mkbool(self.nx > 0)
        if ch in TERM and ch:
            return mkbool(self.term == TERM[ch])
        return False

    def _eqt(self, o):
        o = SEntry.of(o)
        return z3.And(self.nx == o.nx, self.term == o.term)

    def __eq__(self, o):
        if not isinstance(o, (str, SEntry)):
            return False
        try:
            return mkbool(self._eqt(o))
        except OutOfSubset:
            return False

    def __ne__(self, o):
        r = self.__eq__(o)
        return (not r) if isinstance(r, bool) else mkbool(z3.Not(r.t))

    def __bool__(self):
        return ctx().decide(z3.Or(self.nx > 0, self.term != 0))

    def truth(self):
        return z3.Or(self.nx > 0, self.term != 0)

    def __repr__(self):
        return 'SEntry(x*%s,%s)' % (self.nx, self.term)


class SCard(Sym):
    """list of cells with a symbolic length"""
    _pytype = list

    def __init__(self, name):
        self.name = name
        self.nxA = z3.Array(name + '_nx', z3.IntSort(), z3.IntSort())
        self.tmA = z3.Array(name + '_tm', z3.IntSort(), z3.IntSort())
        self.n = z3.Int(name + '_len')
        # prefix sums of failures over the immutable region [0, i): an uninterpreted function of this card
        self.psum = z3.Function(name + '_xsum', z3.IntSort(), z3.IntSort())

    def snapshot(self):
        return (self.nxA, self.tmA, self.n)

    def same_as(self, snap):
        """extensional equality with an earlier snapshot (on the live indices)"""
        nx0, tm0, n0 = snap
        i = z3.Int(self.name + '_i')
        return z3.And(self.n == n0, z3.ForAll([i], z3.Implies(z3.And(i >= 0, i < n0),
                                                              z3.And(z3.Select(self.nxA, i) == z3.Select(nx0, i),
                                                                     z3.Select(self.tmA, i) == z3.Select(tm0, i)))))

    def _sym_len(self):
        return mkint(self.n)

    def __bool__(self):
        return ctx().decide(self.n > 0)

    def truth(self):
        return self.n > 0

    def append(self, v):
        e = SEntry.of(v)
        self.nxA = z3.Store(self.nxA, self.n, e.nx)
        self.tmA = z3.Store(self.tmA, self.n, e.term)
        self.n = self.n + 1

    def _idx(self, i):
        c = ctx()
        it = zint(i)
        if isinstance(i, int) and i < 0:
            it = self.n + i
        elif isinstance(i, SInt):
            if c.decide(i.t < 0):
                it = self.n + i.t
        if not c.decide(z3.And(it >= 0, it < self.n)):
            raise IndexError('list index out of range')
        return it

    def _sym_getitem(self, i):
        if isinstance(i, slice):
            if i.start is not None or i.step is not None:
                raise OutOfSubset('card slice other than [:x]')
            return SCardPrefix(self, zint(i.stop))
        it = self._idx(i)
        return SEntry(z3.Select(self.nxA, it), z3.Select(self.tmA, it))

    def __getitem__(self, i):
        return self._sym_getitem(i)

    def __setitem__(self, i, v):
        it = self._idx(i)
        e = SEntry.of(v)
        self.nxA = z3.Store(self.nxA, it, e.nx)
        self.tmA = z3.Store(self.tmA, it, e.term)

    def last(self):
        return SEntry(z3.Select(self.nxA, self.n - 1), z3.Select(self.tmA, self.n - 1))

    def _sym_contains(self, v):
        """v in card: some live cell equals v (quantified)"""
        try:
            e = SEntry.of(v)
        except (OutOfSubset, TypeError):
            return False
        i = z3.Int(self.name + '_k')
        return mkbool(z3.Exists([i], z3.And(i >= 0, i < self.n, z3.Select(self.nxA, i) == e.nx, z3.Select(self.tmA, i) == e.term)))

    def __iter__(self):
        raise OutOfSubset('iteration over a card of symbolic length')


class SCardPrefix(object):
    def __init__(self, card, stop):
        self.card, self.stop = card, stop

    def sum_of(self, fn):
        """sum(fn(cell) for cell in card[:stop]) - only fn = number of failures of the cell is supported"""
        probe = SEntry(z3.Int('probe_nx'), z3.Int('probe_tm'))
        r = fn(probe)
        if not (isinstance(r, SInt) and z3.eq(z3.simplify(r.t), probe.nx)):
            raise OutOfSubset('sum over a card prefix of something else than count("x")')
        c = ctx()
        c.assumptions.add('sum of failures over card[:x] = uninterpreted function of the card prefix (cells below the last are never modified)')
        return mkint(self.card.psum(self.stop))

    def __iter__(self):
        raise OutOfSubset('iteration over a card prefix of symbolic length')


def sym_sum_gen(fn, it):
    if isinstance(it, SCardPrefix):
        return it.sum_of(fn)
    r = 0
    for x in it:
        r = r + fn(x)
    return r


class SHeights(Sym):
    _pytype = list

    def __init__(self, name='heights'):
        self.n = z3.Int(name + '_len')
        self.lastv = z3.Real(name + '_last')
        self.appended = []

    def snapshot(self):
        return (self.n, self.lastv, len(self.appended))

    def _sym_len(self):
        return mkint(self.n)

    def __bool__(self):
        return ctx().decide(self.n > 0)

    def truth(self):
        return self.n > 0

    def _sym_getitem(self, i):
        if i != -1:
            raise OutOfSubset('heights[%r]' % (i,))
        if not ctx().decide(self.n > 0):
            raise IndexError('list index out of range')
        return SReal(self.lastv)

    def __getitem__(self, i):
        return self._sym_getitem(i)

    def append(self, h):
        self.appended.append(h)
        self.n = self.n + 1
        self.lastv = zreal(h)

    def __iter__(self):
        raise OutOfSubset('iteration over heights of symbolic length')


class SLog(object):
    """the action log: old content opaque, appended entries recorded"""
    def __init__(self):
        self.appended = []

    def append(self, x):
        self.appended.append(x)

    def __iter__(self):
        raise OutOfSubset('iteration over the log')

    def __len__(self):
        raise OutOfSubset('len() of the log')
