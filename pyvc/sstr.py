"""Shape-typed symbolic strings: concrete length, each position a literal character or a symbolic code point
constrained to a character class.  Digit runs map to integers by linear arithmetic.

The semantics modelled here (and cross-checked against CPython on concrete instances by selftests) is that of
str methods on such strings; operations whose outcome depends on a symbolic character fork through the
decision trail, so every path is explored."""
import z3

from .core import ctx, OutOfSubset
from .values import Sym, SBool, SInt, mkbool, mkint, zint, And, Or, Not

WS = (9, 10, 11, 12, 13, 28, 29, 30, 31, 32, 133, 160, 5760, 8192, 8193, 8194, 8195, 8196, 8197, 8198, 8199, 8200, 8201,
      8202, 8232, 8233, 8239, 8287, 12288)          # str.isspace() code points (checked against CPython in selftest)


class CC(object):
    """character class: sorted tuple of inclusive code-point ranges"""
    __slots__ = ('r',)

    def __init__(self, ranges):
        rs = sorted((int(a), int(b)) for a, b in ranges)
        out = []
        for a, b in rs:
            if out and a <= out[-1][1] + 1:
                out[-1] = (out[-1][0], max(out[-1][1], b))
            else:
                out.append((a, b))
        self.r = tuple(out)

    @classmethod
    def of(cls, chars):
        return cls([(ord(c), ord(c)) for c in chars])

    def has(self, cp):
        return any(a <= cp <= b for a, b in self.r)

    def size(self):
        return sum(b - a + 1 for a, b in self.r)

    def only(self):
        return self.r[0][0] if self.size() == 1 else None

    def subset(self, o):
        return all(any(c <= a and b <= d for c, d in o.r) for a, b in self.r)

    def inter(self, o):
        out = []
        for a, b in self.r:
            for c, d in o.r:
                lo, hi = max(a, c), min(b, d)
                if lo <= hi:
                    out.append((lo, hi))
        return CC(out)

    def minus(self, o):
        out = []
        for a, b in self.r:
            cur = a
            for c, d in o.r:
                if d < cur or c > b:
                    continue
                if c > cur:
                    out.append((cur, c - 1))
                cur = max(cur, d + 1)
            if cur <= b:
                out.append((cur, b))
        return CC(out)

    def empty(self):
        return not self.r

    def z3in(self, v):
        return z3.Or(*[(v == a) if a == b else z3.And(v >= a, v <= b) for a, b in self.r]) if self.r else z3.BoolVal(False)

    def sample(self):
        return [a for a, b in self.r] + [b for a, b in self.r]

    def __repr__(self):
        return 'CC(%s)' % ','.join(('%c' % a if 32 < a < 127 else 'U+%04X' % a) if a == b else
                                   ('%c-%c' % (a, b) if 32 < a and b < 127 else 'U+%04X-U+%04X' % (a, b)) for a, b in self.r)


DIGITS = CC([(48, 57)])
ASCII = CC([(0, 127)])
ANYCHAR = CC([(0, 0x2FFFF)])
WSCC = CC([(w, w) for w in WS])
UPPER = CC([(65, 90)])
LOWER = CC([(97, 122)])


class Var(object):
    """one symbolic character"""
    __slots__ = ('cp', 'cc')

    def __init__(self, cp, cc):
        self.cp, self.cc = cp, cc

    def __repr__(self):
        return '<%s:%r>' % (self.cp, self.cc)


def narrow_map():
    """per-path map  id(code-point term) -> class established by decisions taken on this path (written by symre.test)"""
    from .core import Ctx
    c = Ctx.current
    if c is None:
        return None
    m = c.__dict__.get('cc_narrow')
    if m is None:
        m = c.__dict__['cc_narrow'] = {}
    return m


def eff_class(cell):
    """class of a symbolic cell as narrowed by the decisions taken on this path"""
    m = narrow_map()
    if m:
        n = m.get(cell.cp.get_id())
        if n is not None:
            return cell.cc.inter(n)
    return cell.cc


def cell_is(cell, ch):
    """SBool/bool: the cell equals character ch"""
    if isinstance(cell, str):
        return cell == ch
    o = ord(ch)
    cc = eff_class(cell)
    if not cc.has(o):
        return False
    if cc.size() == 1:
        return True
    return mkbool(cell.cp == o)


def cell_in(cell, cc):
    """bool/SBool: the cell's character lies in class cc"""
    if isinstance(cell, str):
        return cc.has(ord(cell))
    eff = eff_class(cell)
    if eff.subset(cc):
        return True
    if eff.inter(cc).empty():
        return False
    return mkbool(cc.z3in(cell.cp))


def narrow(cell, cc):
    """the same cell, its class narrowed (after a decision established membership)"""
    if isinstance(cell, str):
        return cell
    n = cell.cc.inter(cc)
    o = n.only()
    # keep the variable (the path condition already pins it) but remember the narrower class
    return Var(cell.cp, n)


def cell_cp(cell):
    return z3.IntVal(ord(cell)) if isinstance(cell, str) else cell.cp


def mk(cells):
    cells = tuple(cells)
    out = []
    for c in cells:
        if isinstance(c, Var) and c.cc.size() == 1:
            c = chr(c.cc.only())
        out.append(c)
    if all(isinstance(c, str) for c in out):
        return ''.join(out)
    return SStr(tuple(out))


def cells_of(x):
    if isinstance(x, SStr):
        return x.cells
    if isinstance(x, str):
        return tuple(x)
    raise TypeError('expected a string, got %s' % type(x).__name__)


class SStr(Sym):
    __slots__ = ('cells',)
    _pytype = str

    def __init__(self, cells):
        self.cells = tuple(cells)

    # -- construction -------------------------------------------------------------
    @classmethod
    def fresh(cls, name, classes):
        """classes: list of CC or literal 1-char strings; declares the inputs"""
        c = ctx()
        cells = []
        for i, k in enumerate(classes):
            if isinstance(k, str):
                cells.append(k)
            else:
                v = z3.Int('%s_%d' % (name, i))
                c.declare_input('%s_%d' % (name, i), v)
                c.assume(k.z3in(v))
                c.var_ranges[str(v)] = (k.r[0][0], k.r[-1][1], v)
                cells.append(Var(v, k))
        return mk(cells)

    def __repr__(self):
        return 'SStr(%s)' % ''.join(c if isinstance(c, str) else '<%r>' % c.cc for c in self.cells)

    def concretise(self, model):
        out = []
        for c in self.cells:
            if isinstance(c, str):
                out.append(c)
            else:
                out.append(chr(model.eval(c.cp, model_completion=True).as_long()))
        return ''.join(out)

    # -- basics ---------------------------------------------------------------------
    def __len__(self):
        return len(self.cells)

    def _sym_len(self):
        return len(self.cells)

    def __bool__(self):
        return len(self.cells) > 0

    def truth(self):
        return z3.BoolVal(len(self.cells) > 0)

    def __getitem__(self, i):
        if isinstance(i, Sym) or (isinstance(i, slice) and any(isinstance(x, Sym) for x in (i.start, i.stop, i.step))):
            raise OutOfSubset('symbolic index into a shape-typed string')
        if isinstance(i, slice):
            return mk(self.cells[i])
        return mk((self.cells[i],))

    def __iter__(self):
        for c in self.cells:
            yield mk((c,))

    def __add__(self, o):
        if isinstance(o, (str, SStr)):
            return mk(self.cells + cells_of(o))
        return NotImplemented

    def __radd__(self, o):
        if isinstance(o, (str, SStr)):
            return mk(cells_of(o) + self.cells)
        return NotImplemented

    def __mul__(self, n):
        if isinstance(n, Sym):
            raise OutOfSubset('string repeated a symbolic number of times')
        return mk(self.cells * n)
    __rmul__ = __mul__

    def _sym_str(self):
        return self

    def _sym_repr(self):
        # repr of a str: quotes + escapes; only used in messages
        from .builtins_sym import SFmt
        return SFmt('%r', (self,))

    # -- comparison -----------------------------------------------------------------
    def _eq(self, o):
        if not isinstance(o, (str, SStr)):
            return False
        oc = cells_of(o)
        if len(oc) != len(self.cells):
            return False
        conds = []
        for a, b in zip(self.cells, oc):
            if isinstance(a, str) and isinstance(b, str):
                if a != b:
                    return False
                continue
            if isinstance(b, str):
                r = cell_is(a, b)
            elif isinstance(a, str):
                r = cell_is(b, a)
            else:
                if a.cc.inter(b.cc).empty():
                    return False
                r = mkbool(a.cp == b.cp)
            if r is False:
                return False
            if r is not True:
                conds.append(r)
        return And(*conds)

    def __eq__(self, o):
        return self._eq(o)

    def __ne__(self, o):
        return Not(self._eq(o))

    def _lex_lt(self, o, or_equal):
        """code-point lexicographic order (Python str comparison)"""
        a, b = self.cells, cells_of(o)
        n = min(len(a), len(b))
        # result = exists i<n: prefix equal and a[i]<b[i]   or   all n equal and (len(a)<len(b) or (or_equal and len equal))
        res = z3.BoolVal((len(a) < len(b)) or (or_equal and len(a) == len(b)))
        for i in range(n - 1, -1, -1):
            x, y = cell_cp(a[i]), cell_cp(b[i])
            res = z3.If(x == y, res, x < y)
        return mkbool(res)

    def __lt__(self, o):
        return self._lex_lt(o, False)

    def __le__(self, o):
        return self._lex_lt(o, True)

    def __gt__(self, o):
        return Not(self._lex_lt(o, True))

    def __ge__(self, o):
        return Not(self._lex_lt(o, False))

    # -- searching -------------------------------------------------------------------
    def _match_at(self, i, sub):
        """SBool/bool: sub (str or cells) occurs at position i"""
        sc = cells_of(sub)
        if i < 0 or i + len(sc) > len(self.cells):
            return False
        return SStr(self.cells[i:i + len(sc)])._eq(mk(sc)) if len(sc) else True

    def startswith(self, p, *a):
        if a:
            raise OutOfSubset('startswith with offsets')
        if isinstance(p, tuple):
            return Or(*[self._match_at(0, x) for x in p])
        return self._match_at(0, p)

    def endswith(self, p, *a):
        if a:
            raise OutOfSubset('endswith with offsets')
        if isinstance(p, tuple):
            return Or(*[self._match_at(len(self.cells) - len(cells_of(x)), x) for x in p])
        return self._match_at(len(self.cells) - len(cells_of(p)), p)

    def _sym_contains(self, sub):
        n = len(cells_of(sub))
        if n == 0:
            return True
        return Or(*[self._match_at(i, sub) for i in range(len(self.cells) - n + 1)])

    def _sym_in(self, container):
        """self in container (tuple/list/set of strings, a dict, or a string)"""
        if isinstance(container, (str, SStr)):
            return mk(cells_of(container))._sym_contains(self) if not isinstance(container, str) else _str_has_sub(container, self)
        if isinstance(container, dict):
            container = list(container.keys())
        return Or(*[self._eq(e) for e in container if isinstance(e, (str, SStr))])

    def find(self, sub, *a):
        if a:
            raise OutOfSubset('find with offsets')
        n = len(cells_of(sub))
        for i in range(len(self.cells) - n + 1):
            if self._match_at(i, sub):          # forks when symbolic
                return i
        return -1

    def rfind(self, sub, *a):
        if a:
            raise OutOfSubset('rfind with offsets')
        n = len(cells_of(sub))
        for i in range(len(self.cells) - n, -1, -1):
            if self._match_at(i, sub):
                return i
        return -1

    def index(self, sub, *a):
        r = self.find(sub, *a)
        if r < 0:
            raise ValueError('substring not found')
        return r

    def count(self, sub, *a):
        if a:
            raise OutOfSubset('count with offsets')
        sc = cells_of(sub)
        if len(sc) != 1:
            # non-overlapping occurrences, left to right
            n, i = 0, 0
            while i + len(sc) <= len(self.cells):
                if self._match_at(i, sub):
                    n += 1
                    i += len(sc)
                else:
                    i += 1
            return n
        terms = []
        base = 0
        for c in self.cells:
            r = cell_is(c, sc[0]) if isinstance(sc[0], str) else SStr((c,))._eq(mk(sc))
            if r is True:
                base += 1
            elif r is not False:
                terms.append(z3.If(r.t, 1, 0))
        if not terms:
            return base
        return mkint(z3.Sum(terms) + base)

    # -- transformation --------------------------------------------------------------
    def _map(self, f):
        return mk(f(c) for c in self.cells)

    def upper(self):
        def up(c):
            if isinstance(c, str):
                u = c.upper()
                if len(u) != 1:
                    raise OutOfSubset('upper() changing length')
                return u
            if eff_class(c) is not c.cc:
                c = Var(c.cp, eff_class(c))
                if c.cc.size() == 1:
                    return up(chr(c.cc.only()))
            if c.cc.inter(LOWER).empty():
                if not c.cc.subset(_CASELESS_OR_UPPER()):
                    raise OutOfSubset('upper() of a character class with non-ASCII letters %r' % c.cc)
                return c
            if not c.cc.subset(ASCII):
                raise OutOfSubset('upper() of a mixed non-ASCII class')
            v = ctx().fresh('up')
            ctx().assume(v == z3.If(z3.And(c.cp >= 97, c.cp <= 122), c.cp - 32, c.cp))
            ncc = CC([(a - 32 if 97 <= a <= 122 else a, b - 32 if 97 <= b <= 122 else b) for a, b in _split_ranges(c.cc, 97, 122)])
            return Var(v, ncc)
        return self._map(up)

    def lower(self):
        def lo(c):
            if isinstance(c, str):
                u = c.lower()
                if len(u) != 1:
                    raise OutOfSubset('lower() changing length')
                return u
            if eff_class(c) is not c.cc:
                c = Var(c.cp, eff_class(c))
                if c.cc.size() == 1:
                    return lo(chr(c.cc.only()))
            if c.cc.inter(UPPER).empty():
                if not c.cc.subset(_CASELESS_OR_LOWER()):
                    raise OutOfSubset('lower() of a character class with non-ASCII letters %r' % c.cc)
                return c
            if not c.cc.subset(ASCII):
                raise OutOfSubset('lower() of a mixed non-ASCII class')
            v = ctx().fresh('lo')
            ctx().assume(v == z3.If(z3.And(c.cp >= 65, c.cp <= 90), c.cp + 32, c.cp))
            ncc = CC([(a + 32 if 65 <= a <= 90 else a, b + 32 if 65 <= b <= 90 else b) for a, b in _split_ranges(c.cc, 65, 90)])
            return Var(v, ncc)
        return self._map(lo)

    def _strip_set(self, chars):
        if chars is None:
            return WSCC
        if isinstance(chars, SStr):
            raise OutOfSubset('strip with symbolic character set')
        return CC.of(chars)

    def lstrip(self, chars=None):
        cc = self._strip_set(chars)
        i = 0
        while i < len(self.cells) and cell_in(self.cells[i], cc):      # forks
            i += 1
        rest = list(self.cells[i:])
        if rest and isinstance(rest[0], Var):
            rest[0] = narrow(rest[0], rest[0].cc.minus(cc))
        return mk(rest)

    def rstrip(self, chars=None):
        cc = self._strip_set(chars)
        j = len(self.cells)
        while j > 0 and cell_in(self.cells[j - 1], cc):
            j -= 1
        rest = list(self.cells[:j])
        if rest and isinstance(rest[-1], Var):
            rest[-1] = narrow(rest[-1], rest[-1].cc.minus(cc))
        return mk(rest)

    def strip(self, chars=None):
        r = self.lstrip(chars)
        return r.rstrip(chars) if isinstance(r, SStr) else r.rstrip(chars)

    def split(self, sep=None, maxsplit=-1):
        if maxsplit != -1:
            raise OutOfSubset('split with maxsplit')
        if sep is None:
            parts, cur = [], []
            for c in self.cells:
                if cell_in(c, WSCC):                 # forks
                    if cur:
                        parts.append(mk(cur))
                        cur = []
                else:
                    cur.append(narrow(c, c.cc.minus(WSCC)) if isinstance(c, Var) else c)
            if cur:
                parts.append(mk(cur))
            return parts
        if isinstance(sep, SStr) or len(sep) != 1:
            raise OutOfSubset('split on a multi-character or symbolic separator')
        parts, cur = [], []
        for c in self.cells:
            if cell_is(c, sep):                      # forks
                parts.append(mk(cur))
                cur = []
            else:
                cur.append(narrow(c, c.cc.minus(CC.of(sep))) if isinstance(c, Var) else c)
        parts.append(mk(cur))
        return parts

    def partition(self, sep):
        i = self.find(sep)
        if i < 0:
            return (self, '', '')
        n = len(cells_of(sep))
        return (mk(self.cells[:i]), sep, mk(self.cells[i + n:]))

    def rpartition(self, sep):
        i = self.rfind(sep)
        if i < 0:
            return ('', '', self)
        n = len(cells_of(sep))
        return (mk(self.cells[:i]), sep, mk(self.cells[i + n:]))

    def __getattr__(self, name):
        # a str method the proxy does not model: outside the encoding (undecided), never an AttributeError of the program
        if not name.startswith('_') and hasattr(str, name):
            raise OutOfSubset('str.%s on a shape-typed string' % name)
        raise AttributeError(name)

    def replace(self, old, new, count=-1):
        if isinstance(old, SStr) or isinstance(new, SStr):
            raise OutOfSubset('replace with symbolic arguments')
        if len(old) != 1:
            if not any(self._maybe_at(i, old) for i in range(len(self.cells) - len(old) + 1)):
                return self
            raise OutOfSubset('replace of a multi-character substring')
        out = []
        n = 0
        for c in self.cells:
            if (count < 0 or n < count) and cell_is(c, old):        # forks
                out.extend(new)
                n += 1
            else:
                out.append(narrow(c, c.cc.minus(CC.of(old))) if isinstance(c, Var) and (count < 0 or n < count) else c)
        return mk(out)

    def _maybe_at(self, i, lit):
        for c, ch in zip(self.cells[i:i + len(lit)], lit):
            if isinstance(c, str):
                if c != ch:
                    return False
            elif not c.cc.has(ord(ch)):
                return False
        return True

    def isdigit(self):
        if not self.cells:
            return False
        for c in self.cells:
            if isinstance(c, str):
                if not c.isdigit():
                    return False
            elif not c.cc.subset(DIGITS):
                if c.cc.inter(_ISDIGIT()).empty():
                    return False
                if not cell_in(c, _ISDIGIT()):
                    return False
        return True

    def join(self, parts):
        out = []
        for i, p in enumerate(parts):
            if i:
                out.extend(self.cells)
            out.extend(cells_of(p))
        return mk(out)

    def encode(self, *a):
        raise OutOfSubset('encode of a symbolic string')

    # -- numbers ----------------------------------------------------------------------
    def _digits_value(self, cells):
        """integer value of a run of ASCII-digit cells (linear in the code points)"""
        terms = []
        k = len(cells)
        for i, c in enumerate(cells):
            w = 10 ** (k - 1 - i)
            if isinstance(c, str):
                terms.append(z3.IntVal((ord(c) - 48) * w))
            else:
                terms.append((c.cp - 48) * w)
        return z3.Sum(terms) if terms else z3.IntVal(0)

    def _require_ascii_digit(self, c, what):
        """fork: digit -> narrowed cell; otherwise ValueError.  Non-ASCII decimal digits are outside the encoding."""
        if isinstance(c, str):
            if c in '0123456789':
                return c
            if c.isdigit() or c.isdecimal():
                raise OutOfSubset('non-ASCII digit in %s()' % what)
            raise ValueError('invalid literal for %s()' % what)
        r = cell_in(c, DIGITS)
        if r is True or (r is not False and bool(r)):
            return narrow(c, DIGITS)
        rest = c.cc.minus(DIGITS)
        if not rest.inter(_ISDECIMAL()).empty():
            if cell_in(narrow(c, rest), _ISDECIMAL()):
                raise OutOfSubset('non-ASCII digit in %s()' % what)
        raise ValueError('invalid literal for %s()' % what)

    def _sym_int(self, *a):
        if a:
            raise OutOfSubset('int() with a base')
        s = self.strip()
        cells = list(cells_of(s))
        sign = 1
        if cells and cell_is(cells[0], '-'):
            sign, cells = -1, cells[1:]
        elif cells and cell_is(cells[0], '+'):
            cells = cells[1:]
        if not cells:
            raise ValueError('invalid literal for int()')
        # underscores: allowed singly between digits
        out = []
        prev_us = True           # "previous is not a digit"
        for i, c in enumerate(cells):
            if cell_is(c, '_'):
                if prev_us or i == len(cells) - 1:
                    raise ValueError('invalid literal for int()')
                prev_us = True
                continue
            out.append(self._require_ascii_digit(c, 'int'))
            prev_us = False
        return mkint(sign * self._digits_value(out))

    def _sym_float(self):
        from .floats import float_of_decimal_text
        return float_of_decimal_text(self)

    def _sym_format(self, args):
        raise OutOfSubset('symbolic format string')


def _str_has_sub(text, sub):
    """concrete text contains symbolic sub"""
    n = len(sub.cells)
    return Or(*[sub._eq(text[i:i + n]) for i in range(len(text) - n + 1)])


def _split_ranges(cc, lo, hi):
    out = []
    for a, b in cc.r:
        if b < lo or a > hi:
            out.append((a, b))
            continue
        if a < lo:
            out.append((a, lo - 1))
        out.append((max(a, lo), min(b, hi)))
        if b > hi:
            out.append((hi + 1, b))
    return out


_cache = {}


def _scan(pred, key):
    if key not in _cache:
        out, start = [], None
        for c in range(0, 0x30000):
            ok = pred(chr(c))
            if ok and start is None:
                start = c
            elif not ok and start is not None:
                out.append((start, c - 1))
                start = None
        if start is not None:
            out.append((start, 0x2FFFF))
        _cache[key] = CC(out)
    return _cache[key]


def _ISDIGIT():
    return _scan(str.isdigit, 'isdigit')


def _ISDECIMAL():
    return _scan(str.isdecimal, 'isdecimal')


def _CASELESS_OR_UPPER():
    return _scan(lambda ch: ch.upper() == ch, 'noupper')


def _CASELESS_OR_LOWER():
    return _scan(lambda ch: ch.lower() == ch, 'nolower')


# ---- integers to text ------------------------------------------------------------------
def str_of_int(n, max_digits=12):
    """str(n) for a symbolic int: fork on sign and number of digits; fresh digit cells tied to the value by one
    linear equation"""
    if not isinstance(n, SInt):
        return str(n)
    c = ctx()
    neg = c.decide(n.t < 0)
    a = -n.t if neg else n.t
    for d in range(1, max_digits + 1):
        if c.decide(a < 10 ** d):
            cells = []
            for i in range(d):
                v = c.fresh('dg')
                c.assume(z3.And(v >= (49 if (i == 0 and d > 1) else 48), v <= 57))
                c.var_ranges[str(v)] = (48, 57, v)
                cells.append(Var(v, CC([(49 if (i == 0 and d > 1) else 48, 57)])))
            c.assume(z3.Sum([(x.cp - 48) * 10 ** (d - 1 - i) for i, x in enumerate(cells)]) == a)
            return mk((['-'] if neg else []) + cells)
    raise OutOfSubset('str() of an integer with more than %d digits' % max_digits)


SInt._sym_str = lambda self: str_of_int(self)
SInt._sym_repr = lambda self: str_of_int(self)


def format_int(n, width=0, zero=False):
    s = str_of_int(n) if isinstance(n, SInt) else str(n)
    k = len(s)
    if k >= width:
        return s
    pad = '0' if zero else ' '
    if zero and k and (s[0] == '-' if isinstance(s, str) else cell_is(s.cells[0], '-') is True):
        return '-' + pad * (width - k) + s[1:]
    return pad * (width - k) + s


def _int_printf(self, flags, width, prec, ty):
    """'%.pf' % n for a symbolic int: the int converts to a double exactly (|n| < 2**53 is asserted on the path), so the text
    is str(n) + '.' + p zeros"""
    if ty != 'f' or set(flags) - {'0'} or (width and int(width) > 0):
        raise OutOfSubset('int format %%%s%s%s' % (flags, width or '', ty))
    c = ctx()
    if not c.decide(z3.And(self.t > -2 ** 53, self.t < 2 ** 53)):
        raise OutOfSubset('%f of an integer beyond 2**53')
    p = int(prec) if prec is not None else 6
    s = str_of_int(self, max_digits=17)
    return s + ('.' + '0' * p if p else '')


SInt._sym_printf = _int_printf
