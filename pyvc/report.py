"""Run bookkeeping: obligations, verdicts, evidence file, replay files, known findings, exit code."""
import json
import os
import sys
import time
import fnmatch
import traceback

HERE = os.path.dirname(os.path.dirname(os.path.abspath(__file__)))
# outputs go to /verif unless VERIF_OUT names a scratch directory (trying a change on a scratch tree must not rewrite the evidence)
OUT = os.environ.get('VERIF_OUT') or HERE
EVID = os.path.join(OUT, 'evidence')
REPLAYS = os.path.join(OUT, 'replays')
KF_FILE = os.path.join(HERE, 'known_findings.json')


def load_known_findings(prop):
    if not os.path.exists(KF_FILE):
        return []
    with open(KF_FILE) as f:
        data = json.load(f)
    return [e for e in data.get('findings', []) if e.get('property') == prop and e.get('status') == 'known']


class Run(object):
    def __init__(self, prop, tier, seed):
        self.prop, self.tier, self.seed = prop, tier, seed
        self.t0 = time.time()
        self.functions = []          # describe() dicts of functions under contract
        self.inlined = set()
        self.obl = []                # dicts: name, kind, verdict, backend, time, unit
        self.undecided = []
        self.violations = []         # dict(obligation, replay, reproduced, what)
        self.known = load_known_findings(prop)
        self.known_hit = {}          # id -> count
        self.bounded = []            # dicts describing stand-ins run
        self.assumptions = set()
        self.samples = []
        self.notes = []
        self.paths = 0
        self.solver_time = 0.0
        self.solver_max = 0.0
        self.level_proof = True      # drops to False when a stand-in decided anything
        self.checker_errors = []
        self.explanation = ''
        self.extra = {}
        self.expected_min_obligations = 1
        self.level_claim = 'proof'     # the level MANIFEST claims; evidence reports it only when its conditions are met
        self.covered_by_standin = []   # fnmatch patterns of undecided obligations a passed stand-in covers
        self.spurious = []
        os.makedirs(REPLAYS, exist_ok=True)
        os.makedirs(EVID, exist_ok=True)
        for fn in os.listdir(REPLAYS):
            if fn.startswith(prop + '_'):
                os.unlink(os.path.join(REPLAYS, fn))

    # -- recording -------------------------------------------------------------
    def add_function(self, inst):
        d = inst.describe() if hasattr(inst, 'describe') else dict(inst)
        if d not in self.functions:
            self.functions.append(d)

    def assume(self, *texts):
        for t in texts:
            self.assumptions.add(t)

    def record(self, name, kind, verdict, backend='z3', t=0.0, unit=None, detail=None):
        """verdict in proved / refuted / unknown"""
        self.obl.append(dict(name=name, kind=kind, verdict=verdict, backend=backend, time=round(t, 4), unit=unit))
        self.solver_time += t
        self.solver_max = max(self.solver_max, t)
        if verdict == 'unknown':
            self.undecided.append(dict(name=name, unit=unit, detail=detail))

    def sample(self, s):
        if len(self.samples) < 8:
            self.samples.append(s)

    def checker_error(self, what):
        self.checker_errors.append(what)

    # -- known findings --------------------------------------------------------
    def match_known(self, obligation, witness):
        """return the known-finding entry whose obligation pattern and witness predicate cover this refutation"""
        for e in self.known:
            if not fnmatch.fnmatch(obligation, e.get('obligation', '*')):
                continue
            pred = e.get('predicate')
            if pred is None:
                return e
            try:
                g = {'__builtins__': {'len': len, 'str': str, 'int': int, 'float': float, 'abs': abs, 'any': any, 'all': all,
                                      'isinstance': isinstance, 'min': min, 'max': max, 'set': set, 'tuple': tuple, 'sorted': sorted}}
                g.update(witness)        # as globals: names used inside generator expressions must resolve
                if eval(pred, g):
                    return e
            except Exception:
                continue
        return None

    def known_finding(self, entry, n=1):
        self.known_hit[entry['id']] = self.known_hit.get(entry['id'], 0) + n

    # -- violations ------------------------------------------------------------
    def violation(self, obligation, replay, reproduced, what=''):
        """replay: dict written to a replay file.  reproduced: did the input fail on the real code"""
        fn = os.path.join(REPLAYS, '%s_%s_%d.json' % (self.prop, _safe(obligation), len(self.violations)))
        replay = dict(replay)
        replay.setdefault('property', self.prop)
        replay.setdefault('obligation', obligation)
        replay['reproduced_on_real_code'] = bool(reproduced)
        with open(fn, 'w') as f:
            json.dump(replay, f, indent=1, default=str)
        self.violations.append(dict(obligation=obligation, replay=os.path.relpath(fn, HERE), reproduced=bool(reproduced), what=what))

    def spurious_model(self, obligation, replay):
        """a counter-model that was concretised completely and on which the real code behaves as required:
        the refutation is an artefact of the encoding -> undecided, never a violation"""
        self.spurious.append(dict(obligation=obligation, replay=replay))
        self.undecided.append(dict(name=obligation, unit=replay.get('unit'), detail='counter-model does not reproduce on the real code: %r' % (replay.get('call'),)))

    def standin_covers(self, pattern):
        self.covered_by_standin.append(pattern)    # level drops to 'other' only if something undecided is actually covered

    # -- finish ----------------------------------------------------------------
    def finish(self):
        wall = time.time() - self.t0
        n = len(self.obl)
        proved = sum(1 for o in self.obl if o['verdict'] == 'proved')
        by_backend = {}
        by_kind = {}
        for o in self.obl:
            if o['verdict'] == 'proved':
                by_backend[o['backend']] = by_backend.get(o['backend'], 0) + 1
            by_kind[o['kind']] = by_kind.get(o['kind'], 0) + 1
        refuted_known = sum(self.known_hit.values())
        status = 0
        if self.checker_errors:
            status = 3
        elif self.violations:
            status = 1
        elif [u for u in self.undecided if not any(fnmatch.fnmatch(u['name'], p) for p in self.covered_by_standin)]:
            status = 2
        elif n < self.expected_min_obligations:
            self.checker_errors.append('vacuity guard: %d obligations generated, at least %d expected'
                                       % (n, self.expected_min_obligations))
            status = 3
        level = 'proof' if (self.level_claim == 'proof' and self.level_proof and proved == n and n > 0 and not self.undecided) else 'other'
        for e in self.known:
            if e['id'] in self.known_hit:
                print('KNOWN-FINDING: property=%s %s [%s; %d obligation(s)]' % (self.prop, e['what'], e['id'], self.known_hit[e['id']]))
        seen = {}
        for v in sorted(self.violations, key=lambda v: not v['reproduced']):
            seen[v['obligation']] = seen.get(v['obligation'], 0) + 1
            if seen[v['obligation']] > 1 or len(seen) > 12:
                continue
            line = 'VIOLATION property=%s replay=%s' % (self.prop, v['replay'])
            if not v['reproduced']:
                line += ' obligation=%s no-failing-input-found' % v['obligation']
            print(line)
        cov = dict(
            obligations=n, discharged=proved,
            discharged_by_backend=by_backend, obligations_by_kind=by_kind,
            refuted=sum(1 for o in self.obl if o['verdict'] == 'refuted'),
            refuted_matching_known_findings=refuted_known,
            undecided=len(self.undecided), undecided_list=self.undecided[:40],
            paths=self.paths,
            solver_time_s=round(self.solver_time, 2), solver_max_s=round(self.solver_max, 3),
            functions_under_contract=self.functions,
            inlined_not_under_contract=sorted(self.inlined),
            bounded_standins=self.bounded,
            known_findings_matched=sorted(self.known_hit),
            checker_cmd='./check %s --%s' % (self.prop, self.tier),
            trusted_base=sorted(self.assumptions),
            samples=self.samples or ['(none)'],
            explanation=self.explanation or 'see DESIGN.md',
            checker_errors=self.checker_errors,
            notes=self.notes,
        )
        cov.update(self.extra)
        # exploration-style counts as well, measured
        ev = n + sum(b.get('evaluations', 0) for b in self.bounded)
        cov['evaluations'] = max(ev, 0)
        cov['distinct_nontrivial'] = len(set((o['name'], o.get('unit')) for o in self.obl)) + \
            sum(b.get('distinct_nontrivial', 0) for b in self.bounded)
        cov['rule'] = ('one case = one named obligation (function, path, clause) generated from /repo\'s source, '
                       'or one evaluation of a bounded stand-in; distinct by (name, unit)')
        out = dict(property_id=self.prop, tier=self.tier, seed=int(self.seed), level=level, coverage=cov,
                   assumptions=sorted(self.assumptions), wall_s=round(wall, 2), violations=len(self.violations))
        with open(os.path.join(EVID, '%s.json' % self.prop), 'w') as f:
            json.dump(out, f, indent=1, default=str)
        print('%s %s: %d obligations, %d discharged, %d refuted (%d known), %d undecided, %d violations, level=%s, %.1fs'
              % (self.prop, self.tier, n, proved, cov['refuted'], refuted_known, len(self.undecided),
                 len(self.violations), level, wall))
        for e in self.checker_errors:
            print('CHECKER-ERROR: %s' % e, file=sys.stderr)
        if status == 2:
            unc = [u for u in self.undecided if not any(fnmatch.fnmatch(u['name'], p) for p in self.covered_by_standin)]
            for u in unc[:20]:
                print('UNDECIDED: %s (%s)' % (u['name'], u.get('detail')), file=sys.stderr)
        return status


def _safe(s):
    return ''.join(ch if ch.isalnum() or ch in '-_.' else '_' for ch in s)[:80]


def _guard(fx):
    fn, x = fx
    try:
        return fn(x)
    except BaseException as e:   # a crash in a worker is a checker error, never a verdict
        from .core import OutOfSubset
        if isinstance(e, OutOfSubset):
            # the unit as a whole is outside the encoding on this tree (e.g. the representation a data-structure contract
            # is stated over has changed): undecided, left to the bounded stand-in
            return dict(unit=repr(x)[:200], paths=0, stats={}, outcomes={}, assumptions=[], sample=None, wall=0.0, fns=[], job=x,
                        results=[dict(name='%s/in-subset' % repr(x)[:80], kind='subset', verdict='unknown', backend='-', time=0.0,
                                      detail=str(e), model=None)])
        return dict(_crash=traceback.format_exc(), unit=repr(x)[:200])


def pool_map(fn, items, procs=None, chunksize=1):
    """fork-based process pool (z3 terms never cross the boundary; workers return plain data).
    fn must be a module-level function."""
    import multiprocessing as mp
    procs = procs or min(16, os.cpu_count() or 1)
    items = [(fn, x) for x in items]
    if len(items) <= 1 or procs == 1 or os.environ.get('PYVC_SERIAL'):
        return [_guard(x) for x in items]
    ctxm = mp.get_context('fork')
    with ctxm.Pool(procs) as p:
        return p.map(_guard, items, chunksize)
