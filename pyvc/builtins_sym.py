"""Proxy-aware versions of the built-ins the instrumented code may apply to a symbolic value.

Each shadow dispatches on a `_sym_*` method of the proxy and otherwise calls the real
built-in, so concrete Python keeps its native semantics.
"""
import builtins as _b
import math as _math
from decimal import Decimal
from fractions import Fraction

import z3

from .core import ctx, OutOfSubset, PathEnd
from .values import (Sym, SBool, SInt, SReal, mkbool, mkint, zbool, Not, Or, And, ite, is_sym)

SInt._pytype = int
SBool._pytype = bool
SReal._pytype = Decimal


def _anysym(x):
    if isinstance(x, Sym):
        return True
    if isinstance(x, (tuple, list)):
        return any(_anysym(e) for e in x)
    if isinstance(x, dict):
        return any(_anysym(e) for e in x.values())
    return False


class SFmt(Sym):
    """a lazily formatted string: format text + (possibly symbolic) arguments.

    Used for messages and for results such as 'V%02d' % n, which contracts compare
    structurally (%d of an integer is injective)."""
    __slots__ = ('fmt', 'args', '_forced')
    _pytype = str

    def __init__(self, fmt, args):
        self.fmt, self.args = fmt, args
        self._forced = None

    def __repr__(self):
        return 'SFmt(%r,%r)' % (self.fmt, self.args)

    def _eq(self, o):
        if isinstance(o, SFmt):
            if o.fmt != self.fmt or len(o.args) != len(self.args):
                return sym_eq(self.force(), o.force())
            return And(*[sym_eq(a, b) for a, b in zip(self.args, o.args)])
        if isinstance(o, str):
            return self._eq_text(o)
        if isinstance(o, Sym) and getattr(o, '_pytype', None) is str:
            return sym_eq(self.force(), o)
        return False

    def _eq_text(self, s):
        import re
        # only: literal prefix + one %d / %0Nd + literal suffix, integer argument
        m = re.match(r'^([^%]*)%(0?)(\d*)d([^%]*)$', self.fmt)
        if not m or len(self.args) != 1 or not _b.isinstance(self.args[0], SInt):
            return sym_eq(self.force(), s)
        pre, zero, width, suf = m.group(1), m.group(2), m.group(3), m.group(4)
        if not (s.startswith(pre) and s.endswith(suf) and len(s) >= len(pre) + len(suf)):
            return False
        body = s[len(pre):len(s) - len(suf)] if suf else s[len(pre):]
        try:
            v = _b.int(body)
        except ValueError:
            return False
        if (self.fmt % v) != s:
            return False
        return sym_eq(self.args[0], v)

    def __eq__(self, o):
        return self._eq(o)

    def __ne__(self, o):
        return Not(self._eq(o))

    def _sym_str(self):
        return self

    # -- forcing: build the shape-typed string (forks on the number of digits of symbolic integers) ----------
    def force(self):
        # one string object has one value: forcing it again must not re-choose at a rounding tie
        if self._forced is None:
            self._forced = (self._force1(),)
        return self._forced[0]

    def _force1(self):
        import re
        from . import sstr
        if self.fmt == '<fstring>':
            out = ''
            for p in self.args:
                if isinstance(p, str):
                    out = out + p
                else:
                    v, conv, spec = p
                    if conv == 114 or spec not in ('', 'd'):
                        raise OutOfSubset('f-string conversion on a symbolic value')
                    out = out + s_str(v)
            return out
        pieces = re.split(r'(%[-0 +#]*\d*(?:\.\d+)?[sdrfi%])', self.fmt)
        out = ''
        ai = 0
        for pc in pieces:
            if not pc.startswith('%') or len(pc) < 2:
                out = out + pc
                continue
            if pc == '%%':
                out = out + '%'
                continue
            m = re.match(r'%([-0 +#]*)(\d*)(?:\.(\d+))?([sdrfi])', pc)
            flags, width, prec, ty = m.group(1), m.group(2), m.group(3), m.group(4)
            a = self.args[ai]
            ai += 1
            if not _anysym(a):
                out = out + (pc % (a,))
                continue
            if ty in 'di' and isinstance(a, SInt) and set(flags) <= {'0'} and prec is None:
                out = out + sstr.format_int(a, _b.int(width or 0), '0' in flags)
            elif ty == 's' and not flags and not width and prec is None:
                out = out + s_str(a)
            elif hasattr(a, '_sym_printf'):
                out = out + a._sym_printf(flags, width, prec, ty)
            else:
                raise OutOfSubset('format %r of %s' % (pc, type(a).__name__))
        return out

    def __getattr__(self, name):
        if name.startswith('__') or name in ('fmt', 'args'):
            raise AttributeError(name)
        return getattr(self.force(), name)

    def __getitem__(self, i):
        return self.force()[i]

    def __len__(self):
        return _b.len(self.force())

    def _sym_len(self):
        return _b.len(self.force())

    def __add__(self, o):
        return self.force() + (o.force() if isinstance(o, SFmt) else o)

    def __radd__(self, o):
        return o + self.force()

    def _sym_contains(self, x):
        return sym_in(x, self.force())

    def _sym_in(self, y):
        return sym_in(self.force(), y)

    def _sym_int(self, *a):
        return s_int(self.force(), *a)

    def _sym_float(self):
        return s_float(self.force())

    def __lt__(self, o): return self.force() < o
    def __le__(self, o): return self.force() <= o
    def __gt__(self, o): return self.force() > o
    def __ge__(self, o): return self.force() >= o


def sym_eq(a, b):
    if isinstance(a, Sym) or isinstance(b, Sym):
        r = (a == b)
        return r
    return a == b


def sym_format(fmt, args):
    if not isinstance(args, tuple):
        args = (args,)
    if not _anysym(args):
        return fmt % args
    return SFmt(fmt, args)


def sym_mod(a, b):
    if isinstance(a, str):
        return sym_format(a, b)
    if hasattr(a, '_sym_format'):
        return a._sym_format(b)
    return a % b


def sym_pow(a, b):
    if hasattr(a, '_sym_pow'):
        return a._sym_pow(b)
    if hasattr(b, '_sym_rpow'):
        return b._sym_rpow(a)
    if isinstance(a, Sym) or isinstance(b, Sym):
        raise OutOfSubset('** on %s' % type(a).__name__)
    return a ** b


def sym_in(x, y):
    if hasattr(y, '_sym_contains'):
        return y._sym_contains(x)
    if hasattr(x, '_sym_in'):
        return x._sym_in(y)
    if isinstance(x, Sym):
        if isinstance(y, (tuple, list, set, frozenset)):
            return Or(*[sym_eq(x, e) for e in y])
        if isinstance(y, dict):
            return Or(*[sym_eq(x, e) for e in y.keys()])
        raise OutOfSubset('`in` with symbolic left operand on %s' % type(y).__name__)
    if isinstance(y, (tuple, list)) and _anysym(y):
        return Or(*[sym_eq(x, e) for e in y])
    return x in y


def sym_join(sep, it):
    parts = _b.list(it)
    if not _anysym(parts) and not isinstance(sep, Sym):
        return sep.join(parts)
    out = ''
    for i, p in enumerate(parts):
        if not (_b.isinstance(p, _b.str) or getattr(p, '_pytype', None) is _b.str):
            raise TypeError('sequence item %d: expected str instance' % i)
        if i:
            out = out + sep
        out = out + p
    return out


_TABLES = {}


def table_fn(d, label=None):
    """the z3 function standing for a concrete int->int table (dict or list); one symbol per table object"""
    k = id(d)
    if k not in _TABLES:
        _TABLES[k] = (z3.Function('tbl_%s' % (label or len(_TABLES)), z3.IntSort(), z3.IntSort()), d)
    return _TABLES[k][0]


def sym_getitem(a, b):
    if not _b.isinstance(b, Sym) or _b.isinstance(a, Sym) or hasattr(a, '_sym_getitem'):
        if hasattr(a, '_sym_getitem'):
            return a._sym_getitem(b)
        return a[b]
    if _b.isinstance(b, SInt) and _b.isinstance(a, dict):
        keys = _b.sorted(k for k in a if _b.isinstance(k, _b.int) and not _b.isinstance(k, _b.bool))
        if not keys or not _b.all(_b.isinstance(a[k], _b.int) for k in keys):
            raise OutOfSubset('symbolic key into a dict without an integer table')
        c = ctx()
        if keys == _b.list(_b.range(keys[0], keys[-1] + 1)):
            present = z3.And(b.t >= keys[0], b.t <= keys[-1])
        elif _b.len(keys) <= 64:
            present = z3.Or(*[b.t == k for k in keys])
        else:
            raise OutOfSubset('symbolic key into a sparse dict')
        if not c.decide(present):
            raise KeyError(b)
        c.assumptions.add('table lookups T[k] with symbolic k are an uninterpreted function per table object; facts about the table are ground obligations')
        return SInt(table_fn(a)(b.t))
    if _b.isinstance(b, SInt) and _b.isinstance(a, (_b.list, _b.tuple)):
        c = ctx()
        n = _b.len(a)
        if not c.decide(z3.And(b.t >= -n, b.t < n)):
            raise IndexError('index out of range')
        if n <= 40:
            i = 0
            for i in _b.range(-n, n):
                if c.decide(b.t == i):
                    return a[i]
        raise OutOfSubset('symbolic index into a long sequence')
    raise OutOfSubset('symbolic subscript %s[%s]' % (type(a).__name__, type(b).__name__))


def sym_not(x):
    if isinstance(x, Sym):
        return Not(x)
    return not x


def sym_is_none(x):
    if hasattr(x, '_sym_is_none'):
        return x._sym_is_none()
    return x is None


def sym_fstr(parts):
    out = []
    sym = False
    for p in parts:
        if isinstance(p, str):
            out.append(p)
        else:
            v, conv, spec = p
            if _anysym(v):
                sym = True
                out.append(p)
            else:
                if conv == 114:
                    v = _b.repr(v)
                elif conv == 115:
                    v = _b.str(v)
                out.append(_b.format(v, spec))
    if not sym:
        return ''.join(out)
    return SFmt('<fstring>', tuple(out))


# ---- type-like built-ins -----------------------------------------------------------
class _MetaInt(type):
    def __instancecheck__(cls, o):
        return _b.isinstance(o, _b.int) or (_b.isinstance(o, Sym) and _b.issubclass(getattr(o, '_pytype', object), _b.int))


def s_int(x=0, *a):
    if hasattr(x, '_sym_int'):
        return x._sym_int(*a)
    if isinstance(x, SInt):
        return x
    if isinstance(x, SBool):
        return mkint(z3.If(x.t, 1, 0))
    if isinstance(x, Sym):
        raise OutOfSubset('int() of %s' % type(x).__name__)
    return _b.int(x, *a)


def s_float(x=0.0):
    if hasattr(x, '_sym_float'):
        return x._sym_float()
    if isinstance(x, Sym):
        raise OutOfSubset('float() of %s' % type(x).__name__)
    return _b.float(x)


def s_str(x=''):
    if hasattr(x, '_sym_str'):
        return x._sym_str()
    if isinstance(x, Sym):
        raise OutOfSubset('str() of %s' % type(x).__name__)
    return _b.str(x)


def s_repr(x):
    if hasattr(x, '_sym_repr'):
        return x._sym_repr()
    if _anysym(x):
        return SFmt('%r', (x,))
    return _b.repr(x)


def s_len(x):
    if hasattr(x, '_sym_len'):
        return x._sym_len()
    return _b.len(x)


def s_bool(x=False):
    if isinstance(x, Sym):
        return x.__bool__()
    return _b.bool(x)


def s_abs(x):
    return _b.abs(x)


def _ttuple(t):
    return t if _b.isinstance(t, tuple) else (t,)


_TYPE_ALIAS = {}


def s_isinstance(o, t):
    if _b.isinstance(o, Sym):
        pt = getattr(o, '_pytype', None)
        if pt is None:
            raise OutOfSubset('isinstance on %s' % type(o).__name__)
        ts = tuple(_TYPE_ALIAS.get(x, x) for x in _ttuple(t))
        return _b.issubclass(pt, ts)
    ts = tuple(_TYPE_ALIAS.get(x, x) for x in _ttuple(t))
    return _b.isinstance(o, ts)


def _intlike(v):
    return _b.isinstance(v, (_b.int, SInt)) and not _b.isinstance(v, _b.bool)


def s_max(*a, **k):
    if len(a) == 1 and not k:
        a = tuple(a[0])
        if not a:
            raise ValueError('max() arg is an empty sequence')
    if k or not _anysym(a):
        return _b.max(*a, **k)
    r = a[0]
    for x in a[1:]:
        if hasattr(x, '_sym_max'):
            r = x._sym_max(r)
        elif hasattr(r, '_sym_max'):
            r = r._sym_max(x)
        elif _intlike(x) and _intlike(r):
            r = ite(x > r, x, r)
        else:
            r = x if _b.bool(x > r) else r       # mixed int/float: the result keeps the winner's type, so fork
    return r


def s_min(*a, **k):
    if len(a) == 1 and not k:
        a = tuple(a[0])
        if not a:
            raise ValueError('min() arg is an empty sequence')
    if k or not _anysym(a):
        return _b.min(*a, **k)
    r = a[0]
    for x in a[1:]:
        if hasattr(x, '_sym_min'):
            r = x._sym_min(r)
        elif hasattr(r, '_sym_min'):
            r = r._sym_min(x)
        elif _intlike(x) and _intlike(r):
            r = ite(x < r, x, r)
        else:
            r = x if _b.bool(x < r) else r
    return r


def s_divmod(a, b):
    if isinstance(a, Sym) or isinstance(b, Sym):
        return a // b, sym_mod(a, b)
    return _b.divmod(a, b)


def s_round(x, n=None):
    if hasattr(x, '_sym_round'):
        return x._sym_round(n)
    if isinstance(x, Sym):
        raise OutOfSubset('round() of %s' % type(x).__name__)
    return _b.round(x, n) if n is not None else _b.round(x)


def s_range(*a):
    if _anysym(a):
        raise OutOfSubset('range() over a symbolic bound')
    return _b.range(*a)


def s_sum(it, start=0):
    r = start
    for x in it:
        r = r + x
    return r


def s_any(it):
    for x in it:
        if x:
            return True
    return False


def s_all(it):
    for x in it:
        if not x:
            return False
    return True


class _SymMath(object):
    """shadow of the math module: floor/ceil/pow dispatch on proxies"""
    def __getattr__(self, n):
        return getattr(_math, n)

    @staticmethod
    def floor(x):
        if hasattr(x, '_sym_floor'):
            return x._sym_floor()
        if isinstance(x, SInt):
            return x
        if isinstance(x, SReal):
            return mkint(z3.ToInt(x.t))
        return _math.floor(x)

    @staticmethod
    def ceil(x):
        if hasattr(x, '_sym_ceil'):
            return x._sym_ceil()
        if isinstance(x, SInt):
            return x
        if isinstance(x, SReal):
            return mkint(-z3.ToInt(-x.t))
        return _math.ceil(x)

    @staticmethod
    def pow(a, b):
        return sym_pow(a, b)


SHADOWS = {
    '__sym_mod': sym_mod, '__sym_pow': sym_pow, '__sym_in': sym_in, '__sym_not': sym_not,
    '__sym_is_none': sym_is_none, '__sym_join': sym_join, '__sym_getitem': sym_getitem, '__sym_fstr': sym_fstr, '__PathEnd': PathEnd,
    'int': s_int, 'float': s_float, 'str': s_str, 'repr': s_repr, 'len': s_len, 'bool': s_bool,
    'isinstance': s_isinstance, 'max': s_max, 'min': s_min, 'divmod': s_divmod, 'round': s_round,
    'abs': s_abs, 'sum': s_sum, 'any': s_any, 'all': s_all,
}
# isinstance(x, int) inside instrumented code names the *shadow* `int`; map it back
_TYPE_ALIAS.update({s_int: _b.int, s_float: _b.float, s_str: _b.str, s_bool: _b.bool})
SYM_MATH = _SymMath()


def _sum_gen(fn, it):
    from .hj import sym_sum_gen
    return sym_sum_gen(fn, it)


SHADOWS['__sym_sum_gen'] = _sum_gen
