"""One verification unit = one real function explored on one family of symbolic inputs.

verify() enumerates the paths, discharges every obligation and returns plain data
(picklable) so that units can run in a process pool."""
import time
import z3

from .core import explore, discharge, smt2_of, cvc5_check, Ctx


def exc_name(e):
    return type(e).__name__


def verify(unit, run, post=None, timeout_ms=10000, feas_timeout_ms=3000, want_sample=True,
           use_cvc5=True, strings=False, max_paths=200000, exclusions=None, cross=None):
    """exclusions: optional callable(path) -> list of (id, z3 predicate) describing known-finding
    witness classes over the path's inputs; a refuted obligation is re-asked outside them."""
    t0 = time.time()
    paths, stats = explore(run, post, max_paths=max_paths, feas_timeout_ms=feas_timeout_ms)
    if cross is not None:
        # obligations that relate DIFFERENT paths of the unit (e.g. monotonicity across a branch of the code): cross(paths)
        # returns (Obligation, inputs) pairs built from the paths' conditions with their internal variables renamed apart
        class _X(object):
            pass
        for ob, inputs in cross([p for p in paths if p.outcome == 'ret']):
            x = _X()
            x.outcome, x.value, x.obligations, x.inputs, x.assumptions = 'ret', None, [ob], inputs, set()
            paths.append(x)
    results = []
    assumptions = set()
    sample = None
    outcomes = {}
    covers = 0
    for p in paths:
        assumptions |= p.assumptions
        key = p.outcome if p.outcome != 'exc' else 'exc:' + exc_name(p.value)
        outcomes[key] = outcomes.get(key, 0) + 1
        if p.outcome == 'oos':
            results.append(dict(name='%s/in-subset' % unit, kind='subset', verdict='unknown', backend='-', time=0.0,
                                detail=str(p.value), model=None))
            continue
        for ob in p.obligations:
            r = discharge(ob, p.inputs, timeout_ms)
            if r['verdict'] == 'unknown' and 'timeout' in str(r.get('reason', '')) or (r['verdict'] == 'unknown' and 'canceled' in str(r.get('reason', ''))):
                # a budget sized for an idle machine must not flip the verdict when all cores are busy: once more, four times the budget
                t_first = r['time']
                r = discharge(ob, p.inputs, timeout_ms * 4)
                r['time'] += t_first
            if r['verdict'] == 'unknown' and use_cvc5:
                t1 = time.time()
                try:
                    cv = cvc5_check(smt2_of(ob), timeout_s=max(2, timeout_ms // 1000), strings=strings)
                except Exception:
                    cv = 'unknown'
                if cv == 'unsat':
                    r['verdict'], r['backend'] = 'proved', 'cvc5'
                r['time'] += time.time() - t1
            if r['verdict'] == 'refuted' and exclusions is not None:
                ex = exclusions(p)
                r['known'] = None
                if ex:
                    m = r['_z3model']
                    hit = [i for i, k in ex if z3.is_true(m.eval(k, model_completion=True))]
                    if hit:
                        allk = z3.Or(*[k for _, k in ex])
                        r2 = discharge(ob, p.inputs, timeout_ms, extra=z3.Not(allk))
                        if r2['verdict'] == 'proved':
                            r['known'] = hit[0]
                        elif r2['verdict'] == 'refuted':
                            r['model'] = r2['model']      # a different violation: report that one
                        else:
                            r['known'] = hit[0]
                            r['known_residual_unknown'] = True
            r.pop('_z3model', None)
            r.pop('_solver', None)
            if ob.meta:
                r['meta'] = ob.meta
            if ob.loc:
                r['loc'] = ob.loc
            if want_sample and sample is None and r['verdict'] == 'proved' and ob.kind not in ('cover',):
                s = smt2_of(ob)
                if len(s) < 6000:
                    sample = dict(unit=unit, obligation=ob.name, verdict='unsat', smt2=s)
            results.append(r)
        covers += 1
    return dict(unit=unit, paths=len(paths), stats=stats, outcomes=outcomes, results=results,
                assumptions=sorted(assumptions), sample=sample, wall=time.time() - t0)


def absorb(run, res, on_refuted=None):
    """merge a unit result (from verify) into the Run; on_refuted(result_dict, unit_result) handles refutations"""
    if '_crash' in res:
        run.checker_error('worker crashed on %s:\n%s' % (res.get('unit'), res['_crash']))
        return
    run.paths += res['paths']
    for a in res['assumptions']:
        run.assume(a)
    if res.get('sample'):
        run.sample(res['sample'])
    if res['stats'].get('truncated'):
        run.record('%s/path-enumeration-complete' % res['unit'], 'subset', 'unknown', '-', 0.0, res['unit'],
                   'path budget exhausted')
    for r in res['results']:
        name = r['name']
        v = r['verdict']
        if v == 'refuted':
            if r.get('known'):
                e = [k for k in run.known if k['id'] == r['known']]
                if e:
                    run.known_finding(e[0])
                    run.record(name, r['kind'], 'refuted', r['backend'], r['time'], res['unit'])
                    continue
            run.record(name, r['kind'], 'refuted', r['backend'], r['time'], res['unit'])
            if on_refuted:
                on_refuted(r, res)
            else:
                run.violation(name, dict(model=r.get('model'), unit=res['unit']), False, 'refuted')
        else:
            run.record(name, r['kind'], v, r['backend'], r['time'], res['unit'], r.get('detail') or r.get('reason'))
