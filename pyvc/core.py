"""pyvc kernel: decision trail, path enumeration by re-execution, obligations.

The real function (re-compiled from /repo's source by instrument.py) is run by
CPython on symbolic proxy values.  bool() of a symbolic condition asks the solver
which sides are feasible under the current path condition; the decisions are kept
on a trail and the function is re-executed until every open side was taken.
"""
import time
import z3

UNSAT, SAT, UNKNOWN = 'unsat', 'sat', 'unknown'


class Abort(BaseException):
    """the path condition became infeasible"""


class PathEnd(BaseException):
    """end of a loop-cut iteration (the path is complete, no result)"""


class OutOfSubset(BaseException):
    """a proxy reached an operation the encoding does not model"""
    def __init__(self, what):
        BaseException.__init__(self, what)
        self.what = what


class Obligation(object):
    __slots__ = ('name', 'kind', 'pc', 'goal', 'loc', 'meta')

    def __init__(self, name, kind, pc, goal, loc=None, meta=None):
        self.name, self.kind, self.pc, self.goal, self.loc, self.meta = name, kind, pc, goal, loc, meta


class Ctx(object):
    current = None

    def __init__(self, trail=None, feas_timeout_ms=3000, max_decisions=4000):
        self.trail = trail if trail is not None else []
        self.pos = 0
        self.pc = []
        self.obligations = []
        self.solver = z3.Solver()
        self.solver.set('timeout', feas_timeout_ms)
        self.assumptions = set()       # names of assumed contracts / axioms used on this path
        self.notes = []
        self.counter = 0
        self.max_decisions = max_decisions
        self.feas_unknown = 0
        self.inputs = {}               # name -> z3 term, the symbolic inputs (for models)
        self.called = False            # set when an instrumented function is entered
        self.extra = None
        self.var_ranges = {}           # name -> (lo, hi, z3 term): variables usable in affine forms
        self.floor_of = {}             # str(int term) -> str(real term) it is the floor of

    # -- fresh symbols ---------------------------------------------------------
    def fresh(self, prefix, sort='int'):
        self.counter += 1
        n = '%s!%d' % (prefix, self.counter)
        if sort == 'int':
            return z3.Int(n)
        if sort == 'bool':
            return z3.Bool(n)
        if sort == 'real':
            return z3.Real(n)
        if sort == 'str':
            return z3.String(n)
        return z3.Const(n, sort)

    def declare_input(self, name, term):
        self.inputs[name] = term
        return term

    # -- solver ----------------------------------------------------------------
    def feasible(self, cond):
        r = self.solver.check(cond)
        if r == z3.unknown:
            self.feas_unknown += 1
        return r != z3.unsat

    def decide(self, cond):
        """fork on a symbolic condition; returns a Python bool"""
        if isinstance(cond, bool):
            return cond
        cond = z3.simplify(cond)
        if z3.is_true(cond):
            return True
        if z3.is_false(cond):
            return False
        if self.pos < len(self.trail):
            v = self.trail[self.pos][0]
        else:
            if len(self.trail) >= self.max_decisions:
                raise OutOfSubset('more than %d decisions on one path' % self.max_decisions)
            t = self.feasible(cond)
            f = self.feasible(z3.Not(cond))
            if not (t or f):
                raise Abort()
            self.trail.append([t, t and f])
            v = t
        self.pos += 1
        c = cond if v else z3.Not(cond)
        self.pc.append(c)
        self.solver.add(c)
        return v

    def choose(self, n, label='choice'):
        """non-deterministic choice among range(n), explored exhaustively"""
        for i in range(n - 1):
            b = self.fresh(label, 'bool')
            if self.decide(b):
                return i
        return n - 1

    def assume(self, cond, why=None):
        if why:
            self.assumptions.add(why)
        if isinstance(cond, bool):
            if not cond:
                raise Abort()
            return
        cond = z3.simplify(cond)
        if z3.is_true(cond):
            return
        if z3.is_false(cond):
            raise Abort()
        self.pc.append(cond)
        self.solver.add(cond)

    def check_alive(self):
        if self.solver.check() == z3.unsat:
            raise Abort()

    def oblige(self, name, goal, kind='post', loc=None, meta=None):
        if isinstance(goal, bool):
            goal = z3.BoolVal(goal)
        self.obligations.append(Obligation(name, kind, list(self.pc), goal, loc, meta))


class concrete_ctx(object):
    """context for running instrumented code on concrete values (encoder cross-checks)"""
    def __enter__(self):
        self.prev = Ctx.current
        Ctx.current = Ctx()
        return Ctx.current

    def __exit__(self, *a):
        Ctx.current = self.prev
        return False


def ctx():
    c = Ctx.current
    if c is None:
        raise RuntimeError('no symbolic context')
    return c


_PROXY_NAMES = ('SFloat', 'SInt', 'SStr', 'SFmt', 'SBool', 'SReal', 'SOpaque', 'SOpaqueStr', 'SInexactRepr', 'SymRe', 'ShapeMatch', 'SList', 'SDate')


def proxy_leak(e):
    """an AttributeError / TypeError whose message names a proxy class: raised because un-instrumented code or a C-level
    built-in was handed a proxy, not because of anything the program under verification does"""
    if not isinstance(e, (AttributeError, TypeError)):
        return False
    msg = str(e)
    import re as _re
    m = _re.match(r"unsupported operand type\(s\) for (\S+): '(\w+)' and '(\w+)'", msg)
    if m:
        # a binary operation that the REAL types would refuse as well (float * None ...) is the program's own error
        import decimal, operator
        real = {'SFloat': 1.5, 'SInt': 3, 'SBool': True, 'SStr': 'a', 'SFmt': 'a', 'SOpaqueStr': 'a', 'SReal': decimal.Decimal('1.5'),
                'NoneType': None, 'int': 3, 'float': 1.5, 'str': 'a', 'list': [1], 'tuple': (1,), 'dict': {}, 'Decimal': decimal.Decimal('1.5')}
        ops = {'+': operator.add, '-': operator.sub, '*': operator.mul, '/': operator.truediv, '//': operator.floordiv, '%': operator.mod,
               '**': operator.pow, '+=': operator.add, '-=': operator.sub, '*=': operator.mul, '/=': operator.truediv}
        a, b = m.group(2), m.group(3)
        if m.group(1).rstrip(':') in ops and a in real and b in real and (a in _PROXY_NAMES or b in _PROXY_NAMES):
            try:
                ops[m.group(1).rstrip(':')](real[a], real[b])
            except TypeError:
                return False
            except Exception:
                pass
    return any(("'%s'" % n) in msg or ('%s object' % n) in msg or ('not %s' % n) in msg for n in _PROXY_NAMES)


class Path(object):
    __slots__ = ('pc', 'outcome', 'value', 'obligations', 'assumptions', 'inputs', 'notes', 'extra')

    def __init__(self, pc, outcome, value, obligations, assumptions, inputs, notes):
        self.pc, self.outcome, self.value = pc, outcome, value
        self.obligations, self.assumptions, self.inputs, self.notes = obligations, assumptions, inputs, notes
        self.extra = None


def explore(run, post=None, max_paths=200000, feas_timeout_ms=3000, on_path=None):
    """run() builds symbolic inputs and calls the instrumented function.

    post(path, ctx) is called at the end of every completed path *inside* the
    context (it may add obligations that mention the result).  Returns the list
    of paths and a stats dict.  A path whose run raised OutOfSubset is recorded
    with outcome 'oos'.
    """
    trail, paths = [], []
    stats = dict(paths=0, aborted=0, oos=0, feas_unknown=0)
    while True:
        c = Ctx(trail, feas_timeout_ms=feas_timeout_ms)
        Ctx.current = c
        p = None
        try:
            try:
                v = run()
                p = Path(c.pc, 'ret', v, c.obligations, c.assumptions, c.inputs, c.notes)
            except Abort:
                stats['aborted'] += 1
            except PathEnd:
                p = Path(c.pc, 'cut', None, c.obligations, c.assumptions, c.inputs, c.notes)
            except OutOfSubset as e:
                stats['oos'] += 1
                p = Path(c.pc, 'oos', e, c.obligations, c.assumptions, c.inputs, c.notes)
            except RecursionError as e:
                stats['oos'] += 1
                p = Path(c.pc, 'oos', OutOfSubset('recursion limit'), c.obligations, c.assumptions, c.inputs, c.notes)
            except Exception as e:            # a real Python exception is a path outcome
                if not c.called:
                    raise                     # raised by the harness before the function under test was entered
                if proxy_leak(e):
                    # code that was not re-compiled (or a C-level built-in) met a proxy: outside the encoding, not a behaviour
                    stats['oos'] += 1
                    p = Path(c.pc, 'oos', OutOfSubset('a proxy reached code outside the encoding: %s' % str(e)[:120]), c.obligations, c.assumptions, c.inputs, c.notes)
                else:
                    p = Path(c.pc, 'exc', e, c.obligations, c.assumptions, c.inputs, c.notes)
            if p is not None and post is not None and p.outcome != 'oos':
                try:
                    post(p, c)
                    p.obligations = c.obligations
                    p.pc = c.pc
                except Abort:
                    p = None
                    stats['aborted'] += 1
                except OutOfSubset as e:
                    stats['oos'] += 1
                    p.outcome, p.value = 'oos', e
            if p is not None:
                paths.append(p)
                stats['paths'] += 1
                if on_path:
                    on_path(p)
        finally:
            Ctx.current = None
        stats['feas_unknown'] += c.feas_unknown
        trail = c.trail
        while trail and not trail[-1][1]:
            trail.pop()
        if not trail:
            break
        trail[-1] = [not trail[-1][0], False]
        if stats['paths'] + stats['aborted'] > max_paths:
            stats['truncated'] = True
            break
    return paths, stats


# ------------------------------------------------------------------------------
# discharging

def model_dict(model, inputs):
    out = {}
    for k, t in inputs.items():
        try:
            v = model.eval(t, model_completion=True)
            out[k] = _pyval(v)
        except Exception as e:   # pragma: no cover
            out[k] = '?%s' % e
    return out


def _pyval(v):
    if z3.is_int_value(v):
        return v.as_long()
    if z3.is_rational_value(v):
        n, d = v.numerator_as_long(), v.denominator_as_long()
        return n if d == 1 else '%d/%d' % (n, d)
    if z3.is_true(v):
        return True
    if z3.is_false(v):
        return False
    if z3.is_string_value(v):
        return v.as_string()
    return str(v)


ALT_MODELS = 4


def discharge(ob, inputs=None, timeout_ms=10000, extra=None):
    """decide  /\\ pc  =>  goal.   Returns dict(verdict, model, time, backend)."""
    t0 = time.time()
    if z3.is_true(ob.goal):
        return dict(name=ob.name, kind=ob.kind, backend='trivial', time=0.0, model=None, verdict='proved')
    s = z3.Solver()
    s.set('timeout', timeout_ms)
    for c in ob.pc:
        s.add(c)
    if extra is not None:
        s.add(extra)
    s.add(z3.Not(ob.goal))
    r = s.check()
    out = dict(name=ob.name, kind=ob.kind, backend='z3', time=0.0, model=None)
    if r == z3.unsat:
        out['verdict'] = 'proved'
    elif r == z3.sat:
        out['verdict'] = 'refuted'
        m = s.model()
        out['model'] = model_dict(m, inputs or {})
        out['_z3model'] = m
        # further counter-models over the declared inputs (a first model may sit on a tie that the over-approximated
        # float semantics allows and CPython resolves the other way; a neighbour then reproduces)
        alts = []
        if inputs:
            s.set('timeout', min(timeout_ms, 2000))
            mm = m
            for _ in range(ALT_MODELS):
                try:
                    block = [t != mm.eval(t, model_completion=True) for t in inputs.values() if not z3.is_array(t)]
                    if not block:
                        break
                    s.add(z3.Or(*block))
                    if s.check() != z3.sat:
                        break
                    mm = s.model()
                    alts.append(model_dict(mm, inputs))
                except z3.Z3Exception:
                    break
        out['alt_models'] = alts
    else:
        out['verdict'] = 'unknown'
        out['reason'] = s.reason_unknown()
        out['_solver'] = s
    out['time'] = time.time() - t0
    return out


def free_consts(exprs):
    """the uninterpreted constants occurring in the expressions: {name: const}"""
    seen, out, todo = set(), {}, list(exprs)
    while todo:
        e = todo.pop()
        if e.get_id() in seen:
            continue
        seen.add(e.get_id())
        if z3.is_const(e) and e.decl().kind() == z3.Z3_OP_UNINTERPRETED:
            out[e.decl().name()] = e
        elif z3.is_app(e):
            todo.extend(e.children())
        elif z3.is_quantifier(e):
            todo.append(e.body())
    return out


def rename_apart(exprs, keep, suffix):
    """the expressions with every uninterpreted constant not named in `keep` renamed by the suffix (a second copy of a path)"""
    fc = free_consts(exprs)
    sub = [(v, z3.Const(n + suffix, v.sort())) for n, v in fc.items() if n not in keep]
    return [z3.substitute(e, *sub) if sub else e for e in exprs]


def smt2_of(ob, extra=None):
    s = z3.Solver()
    for c in ob.pc:
        s.add(c)
    if extra is not None:
        s.add(extra)
    s.add(z3.Not(ob.goal))
    return s.to_smt2()


def cvc5_check(smt2_text, timeout_s=10, strings=False):
    """second opinion from the cvc5 binary on z3's unknowns"""
    import subprocess, tempfile, os
    fd, fn = tempfile.mkstemp(suffix='.smt2')
    try:
        with os.fdopen(fd, 'w') as f:
            f.write('(set-logic ALL)\n' + smt2_text)
        cmd = ['/usr/bin/cvc5', '--lang=smt2', '--tlimit=%d' % int(timeout_s * 1000)]
        if strings:
            cmd.append('--strings-exp')
        cmd.append(fn)
        try:
            r = subprocess.run(cmd, capture_output=True, text=True, timeout=timeout_s + 5)
        except subprocess.TimeoutExpired:
            return UNKNOWN
        out = r.stdout.strip().splitlines()
        if out and out[0] in (UNSAT, SAT):
            return out[0]
        return UNKNOWN
    finally:
        os.unlink(fn)
