"""Symbolic proxies for bool / int / real(Decimal) and the spec-language helpers.

Proxies deliberately define no __index__, __hash__, __str__, __iter__: a proxy
that leaks into C code fails loudly (TypeError) instead of being mis-modelled.
"""
from decimal import Decimal
from fractions import Fraction
import z3
from .core import ctx, OutOfSubset, Ctx


def is_sym(x):
    return isinstance(x, Sym)


class Sym(object):
    __slots__ = ()
    __hash__ = None


# ---------------------------------------------------------------------------- bool
class SBool(Sym):
    __slots__ = ('t',)

    def __init__(self, t):
        self.t = t

    def __bool__(self):
        return ctx().decide(self.t)

    def __and__(self, o):
        return SBool(z3.And(self.t, zbool(o)))
    __rand__ = __and__

    def __or__(self, o):
        return SBool(z3.Or(self.t, zbool(o)))
    __ror__ = __or__

    def __invert__(self):
        return SBool(z3.Not(self.t))

    def __eq__(self, o):
        return SBool(self.t == zbool(o))

    def __ne__(self, o):
        return SBool(self.t != zbool(o))

    def __repr__(self):
        return 'SBool(%s)' % self.t


def zbool(x):
    if isinstance(x, SBool):
        return x.t
    if isinstance(x, bool):
        return z3.BoolVal(x)
    if z3.is_expr(x) and z3.is_bool(x):
        return x
    if isinstance(x, Sym):
        return x.truth()
    return z3.BoolVal(bool(x))


def mkbool(t):
    """SBool unless the term is already a constant"""
    t = z3.simplify(t)
    if z3.is_true(t):
        return True
    if z3.is_false(t):
        return False
    return SBool(t)


def And(*xs):
    return mkbool(z3.And(*[zbool(x) for x in xs])) if xs else True


def Or(*xs):
    return mkbool(z3.Or(*[zbool(x) for x in xs])) if xs else False


def Not(x):
    return mkbool(z3.Not(zbool(x)))


def Implies(a, b):
    return mkbool(z3.Implies(zbool(a), zbool(b)))


def Iff(a, b):
    return mkbool(zbool(a) == zbool(b))


# ---------------------------------------------------------------------------- numbers
def _num_term(x):
    """z3 arithmetic term for a concrete or symbolic number; None if not a number"""
    if isinstance(x, SInt) or isinstance(x, SReal):
        return x.t
    if isinstance(x, bool):
        return z3.IntVal(int(x))
    if isinstance(x, int):
        return z3.IntVal(x)
    if isinstance(x, Fraction):
        return z3.RealVal(str(x)) if x.denominator != 1 else z3.RealVal(x.numerator)
    if isinstance(x, Decimal):
        f = Fraction(x)
        return z3.RealVal(str(f))
    return None


class SInt(Sym):
    __slots__ = ('t',)

    def __init__(self, t):
        self.t = t

    def truth(self):
        return self.t != 0

    def __bool__(self):
        return ctx().decide(self.t != 0)

    # arithmetic ---------------------------------------------------------------
    def _bin(self, o, f, rev=False):
        if isinstance(o, float):
            raise OutOfSubset('SInt mixed with a concrete float')
        ot = _num_term(o)
        if ot is None:
            return NotImplemented
        a, b = (ot, self.t) if rev else (self.t, ot)
        r = f(a, b)
        if z3.is_int(r):
            return mkint(r)
        return SReal(r)

    def __add__(self, o): return self._bin(o, lambda a, b: a + b)
    def __radd__(self, o): return self._bin(o, lambda a, b: a + b, True)
    def __sub__(self, o): return self._bin(o, lambda a, b: a - b)
    def __rsub__(self, o): return self._bin(o, lambda a, b: a - b, True)
    def __mul__(self, o): return self._bin(o, lambda a, b: a * b)
    def __rmul__(self, o): return self._bin(o, lambda a, b: a * b, True)
    def __neg__(self): return mkint(-self.t)
    def __pos__(self): return self

    def __abs__(self):
        return mkint(z3.If(self.t >= 0, self.t, -self.t))

    def __floordiv__(self, o): return int_floordiv(self, o)
    def __rfloordiv__(self, o): return int_floordiv(o, self)
    def __mod__(self, o): return int_mod(self, o)
    def __rmod__(self, o): return int_mod(o, self)

    def __divmod__(self, o):
        return int_floordiv(self, o), int_mod(self, o)

    def __truediv__(self, o):
        raise OutOfSubset('true division of a symbolic int (float result)')

    # comparisons --------------------------------------------------------------
    def _cmp(self, o, f):
        if isinstance(o, float):
            fo = Fraction(o)
            ot = z3.RealVal(str(fo))
        else:
            ot = _num_term(o)
        if ot is None:
            return NotImplemented
        return mkbool(f(self.t, ot))

    def __lt__(self, o): return self._cmp(o, lambda a, b: a < b)
    def __le__(self, o): return self._cmp(o, lambda a, b: a <= b)
    def __gt__(self, o): return self._cmp(o, lambda a, b: a > b)
    def __ge__(self, o): return self._cmp(o, lambda a, b: a >= b)

    def __eq__(self, o):
        r = self._cmp(o, lambda a, b: a == b)
        return False if r is NotImplemented else r

    def __ne__(self, o):
        r = self._cmp(o, lambda a, b: a != b)
        return True if r is NotImplemented else r

    def __repr__(self):
        return 'SInt(%s)' % self.t


def mkint(t):
    t = z3.simplify(t)
    if z3.is_int_value(t):
        return t.as_long()
    return SInt(t)


def zint(x):
    if isinstance(x, SInt):
        return x.t
    if isinstance(x, bool):
        return z3.IntVal(int(x))
    if isinstance(x, int):
        return z3.IntVal(x)
    if z3.is_expr(x):
        return x
    raise TypeError('not an int: %r' % (x,))


def int_floordiv(a, b):
    """Python floor division on ints (symbolic or not)"""
    if isinstance(a, (SReal, float, Fraction)) or isinstance(b, (SReal, float, Fraction)):
        raise OutOfSubset('floor division on non-integers')
    if not isinstance(b, Sym):
        if b == 0:
            raise ZeroDivisionError('integer division or modulo by zero')
        if b > 0:
            return mkint(zint(a) / z3.IntVal(b))          # z3 div: floor for positive divisor
        return mkint((-zint(a)) / z3.IntVal(-b))
    c = ctx()
    if c.decide(b.t == 0):
        raise ZeroDivisionError('integer division or modulo by zero')
    if c.decide(b.t > 0):
        return mkint(zint(a) / b.t)
    return mkint((-zint(a)) / (-b.t))


def int_mod(a, b):
    q = int_floordiv(a, b)
    return a - b * q


class SReal(Sym):
    """exact real (used for Decimal values and exact spec arithmetic)"""
    __slots__ = ('t',)

    def __init__(self, t):
        self.t = z3.ToReal(t) if z3.is_int(t) else t

    def truth(self):
        return self.t != 0

    def __bool__(self):
        return ctx().decide(self.t != 0)

    def _bin(self, o, f, rev=False):
        if isinstance(o, float):
            raise OutOfSubset('SReal mixed with a concrete float')
        ot = _num_term(o)
        if ot is None:
            return NotImplemented
        if z3.is_int(ot):
            ot = z3.ToReal(ot)
        a, b = (ot, self.t) if rev else (self.t, ot)
        return mkreal(f(a, b))

    def __add__(self, o): return self._bin(o, lambda a, b: a + b)
    def __radd__(self, o): return self._bin(o, lambda a, b: a + b, True)
    def __sub__(self, o): return self._bin(o, lambda a, b: a - b)
    def __rsub__(self, o): return self._bin(o, lambda a, b: a - b, True)
    def __mul__(self, o): return self._bin(o, lambda a, b: a * b)
    def __rmul__(self, o): return self._bin(o, lambda a, b: a * b, True)
    def __neg__(self): return mkreal(-self.t)
    def __pos__(self): return self

    def __truediv__(self, o):
        ot = _num_term(o)
        if ot is None:
            return NotImplemented
        if isinstance(o, Sym):
            if ctx().decide(o.t == 0):
                raise ZeroDivisionError('division by zero')
        elif o == 0:
            raise ZeroDivisionError('division by zero')
        if z3.is_int(ot):
            ot = z3.ToReal(ot)
        return mkreal(self.t / ot)

    def _cmp(self, o, f):
        if isinstance(o, float):
            ot = z3.RealVal(str(Fraction(o)))
        else:
            ot = _num_term(o)
        if ot is None:
            return NotImplemented
        if z3.is_int(ot):
            ot = z3.ToReal(ot)
        return mkbool(f(self.t, ot))

    def __lt__(self, o): return self._cmp(o, lambda a, b: a < b)
    def __le__(self, o): return self._cmp(o, lambda a, b: a <= b)
    def __gt__(self, o): return self._cmp(o, lambda a, b: a > b)
    def __ge__(self, o): return self._cmp(o, lambda a, b: a >= b)

    def __eq__(self, o):
        r = self._cmp(o, lambda a, b: a == b)
        return False if r is NotImplemented else r

    def __ne__(self, o):
        r = self._cmp(o, lambda a, b: a != b)
        return True if r is NotImplemented else r

    def __repr__(self):
        return 'SReal(%s)' % self.t


def mkreal(t):
    t = z3.simplify(t)
    if z3.is_rational_value(t):
        return Fraction(t.numerator_as_long(), t.denominator_as_long())
    return SReal(t)


def zreal(x):
    if isinstance(x, (SReal, SInt)):
        t = x.t
    elif z3.is_expr(x):
        t = x
    else:
        t = _num_term(x)
        if t is None:
            if isinstance(x, float):
                t = z3.RealVal(str(Fraction(x)))
            else:
                raise TypeError('not a number: %r' % (x,))
    return z3.ToReal(t) if z3.is_int(t) else t


def ite(c, a, b):
    """pure conditional value without forking"""
    if isinstance(c, bool):
        return a if c else b
    ct = zbool(c)
    if isinstance(a, (SBool, bool)) and isinstance(b, (SBool, bool)):
        return mkbool(z3.If(ct, zbool(a), zbool(b)))
    ta, tb = _num_term(a), _num_term(b)
    if ta is None or tb is None:
        raise OutOfSubset('ite on non-numeric values')
    if z3.is_int(ta) and z3.is_int(tb):
        return mkint(z3.If(ct, ta, tb))
    return mkreal(z3.If(ct, zreal(a), zreal(b)))


def sym_int(name, lo=None, hi=None):
    c = ctx()
    v = z3.Int(name)
    c.declare_input(name, v)
    if lo is not None:
        c.assume(v >= lo)
    if hi is not None:
        c.assume(v <= hi)
    return SInt(v)


def sym_bool(name):
    c = ctx()
    v = z3.Bool(name)
    c.declare_input(name, v)
    return SBool(v)


def sym_real(name):
    c = ctx()
    v = z3.Real(name)
    c.declare_input(name, v)
    return SReal(v)
