"""Symbolic strings.

SOpaqueStr  - an arbitrary text (SMT String): equality, membership in a finite set, regex membership.
(The shape-typed and skeleton strings live in shapes.py / skeleton.py.)"""
import z3
from .core import ctx, OutOfSubset
from .values import Sym, SBool, mkbool, Not


class SOpaqueStr(Sym):
    __slots__ = ('t',)
    _pytype = str

    def __init__(self, t):
        self.t = t

    @classmethod
    def fresh(cls, name):
        c = ctx()
        v = z3.String(name)
        c.declare_input(name, v)
        return cls(v)

    def _co(self, o):
        if isinstance(o, SOpaqueStr):
            return o.t
        if isinstance(o, str):
            return z3.StringVal(o)
        return None

    def __eq__(self, o):
        t = self._co(o)
        if t is None:
            return False
        return mkbool(self.t == t)

    def __ne__(self, o):
        t = self._co(o)
        if t is None:
            return True
        return mkbool(self.t != t)

    def truth(self):
        return z3.Length(self.t) > 0

    def __bool__(self):
        return ctx().decide(z3.Length(self.t) > 0)

    def _sym_len(self):
        from .values import mkint
        return mkint(z3.Length(self.t))

    def _sym_str(self):
        return self

    # -- slices with constant bounds, concatenation, ordering, digit tests: SMT string theory --------------------------
    def __getitem__(self, i):
        n = z3.Length(self.t)
        if isinstance(i, slice):
            if i.step not in (None, 1):
                raise OutOfSubset('string slice with a step')
            a, b = i.start, i.stop
            if not all(x is None or (isinstance(x, int) and not isinstance(x, bool)) for x in (a, b)):
                raise OutOfSubset('string slice with symbolic bounds')

            def pos(x, default):
                if x is None:
                    return default
                if x >= 0:
                    return z3.If(n < x, n, z3.IntVal(x))
                return z3.If(n + x < 0, z3.IntVal(0), n + x)
            lo, hi = pos(a, z3.IntVal(0)), pos(b, n)
            return SOpaqueStr(z3.SubString(self.t, lo, z3.If(hi - lo < 0, z3.IntVal(0), hi - lo)))
        if isinstance(i, int) and not isinstance(i, bool):
            c = ctx()
            ok = c.decide((n > i) if i >= 0 else (n >= -i))
            if not ok:
                raise IndexError('string index out of range')
            return SOpaqueStr(z3.SubString(self.t, z3.IntVal(i) if i >= 0 else n + i, z3.IntVal(1)))
        raise OutOfSubset('string index of type %s' % type(i).__name__)

    def __add__(self, o):
        t = self._co(o)
        if t is None:
            return NotImplemented
        return SOpaqueStr(z3.Concat(self.t, t))

    def __radd__(self, o):
        t = self._co(o)
        if t is None:
            return NotImplemented
        return SOpaqueStr(z3.Concat(t, self.t))

    def _cmp(self, o, op):
        t = self._co(o)
        if t is None:
            return NotImplemented
        # Python compares code points lexicographically; so does the SMT-LIB str.< / str.<=
        return mkbool({'<': self.t < t, '<=': self.t <= t, '>': t < self.t, '>=': t <= self.t}[op])

    def __lt__(self, o): return self._cmp(o, '<')
    def __le__(self, o): return self._cmp(o, '<=')
    def __gt__(self, o): return self._cmp(o, '>')
    def __ge__(self, o): return self._cmp(o, '>=')

    def _digits_re(self):
        from . import regex2smt as R
        return z3.Plus(R._union(R._range(a, b) for a, b in R.category_ranges('digit')))

    def isdigit(self):
        ctx().assumptions.add('str.isdigit() = non-empty and every character in the Unicode decimal-digit category of `re` (\\d); '
                              'characters that are digits but not decimals (superscripts) are outside the encoding')
        return mkbool(z3.InRe(self.t, self._digits_re()))

    def startswith(self, p, *a):
        if a:
            raise OutOfSubset('startswith with offsets')
        t = self._co(p)
        if t is None:
            raise OutOfSubset('startswith of %s' % type(p).__name__)
        return mkbool(z3.PrefixOf(t, self.t))

    def endswith(self, p, *a):
        if a:
            raise OutOfSubset('endswith with offsets')
        t = self._co(p)
        if t is None:
            raise OutOfSubset('endswith of %s' % type(p).__name__)
        return mkbool(z3.SuffixOf(t, self.t))

    def _sym_contains(self, sub):
        t = self._co(sub)
        if t is None:
            raise OutOfSubset('`in` of %s on a symbolic string' % type(sub).__name__)
        return mkbool(z3.Contains(self.t, t))

    def _sym_int(self, *a):
        # int(s): only for texts the path condition makes ASCII digit strings
        from .values import mkint
        c = ctx()
        if a:
            raise OutOfSubset('int(str, base)')
        ascii_digits = z3.Plus(z3.Range(z3.StringVal('0'), z3.StringVal('9')))
        if not c.decide(z3.InRe(self.t, ascii_digits)):
            raise OutOfSubset('int() of a symbolic text that is not an ASCII digit string')
        return mkint(z3.StrToInt(self.t))

    def __getattr__(self, name):
        if not name.startswith('_') and hasattr(str, name):
            raise OutOfSubset('str.%s on an arbitrary symbolic text' % name)
        raise AttributeError(name)

    def __hash__(self):
        raise OutOfSubset('hash of a symbolic text (dict/set key)')

    def __repr__(self):
        return 'SOpaqueStr(%s)' % self.t


class SymMatch(object):
    """truthy result of a symbolic match on an opaque string (groups are not modelled here)"""
    def __init__(self, pat, s):
        self.pat, self.s = pat, s

    def group(self, *a):
        raise OutOfSubset('group() of a match on an opaque string')
    groupdict = span = group


class SymPattern(object):
    """wrapper of a real compiled pattern; match()/search() on an opaque string forks on regex membership"""
    def __init__(self, real, name=None):
        self.real, self.name = real, name or real.pattern[:30]
        self.pattern = real.pattern

    def _lang(self):
        from . import regex2smt as R
        return R.lang(self.real)

    def match(self, s, *a):
        if isinstance(s, SOpaqueStr):
            c = ctx()
            c.assumptions.add('re: P.match(s) succeeds iff s is in the regular language of P\'s parse tree (backtracking is complete)')
            if c.decide(z3.InRe(s.t, self._lang())):
                c.notes.append(('match', self.name))
                return SymMatch(self, s)
            return None
        if isinstance(s, Sym):
            raise OutOfSubset('pattern match on %s' % type(s).__name__)
        return self.real.match(s, *a)

    def search(self, s, *a):
        if isinstance(s, Sym):
            if not self.real.pattern.startswith('^'):
                raise OutOfSubset('search() with an unanchored pattern')
            return self.match(s, *a)
        return self.real.search(s, *a)

    def __getattr__(self, n):
        return getattr(self.real, n)
