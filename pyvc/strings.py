"""Symbolic strings.

SOpaqueStr  - an arbitrary text (SMT String): equality, membership in a finite set, regex membership.
(The shape-typed and skeleton strings live in shapes.py / skeleton.py.)"""
import z3
from .core import ctx, OutOfSubset
from .values import Sym, SBool, mkbool, Not


class SOpaqueStr(Sym):
    __slots__ = ('t',)
    _pytype = str

    def __init__(self, t):
        self.t = t

    @classmethod
    def fresh(cls, name):
        c = ctx()
        v = z3.String(name)
        c.declare_input(name, v)
        return cls(v)

    def _co(self, o):
        if isinstance(o, SOpaqueStr):
            return o.t
        if isinstance(o, str):
            return z3.StringVal(o)
        return None

    def __eq__(self, o):
        t = self._co(o)
        if t is None:
            return False
        return mkbool(self.t == t)

    def __ne__(self, o):
        t = self._co(o)
        if t is None:
            return True
        return mkbool(self.t != t)

    def truth(self):
        return z3.Length(self.t) > 0

    def __bool__(self):
        return ctx().decide(z3.Length(self.t) > 0)

    def _sym_len(self):
        from .values import mkint
        return mkint(z3.Length(self.t))

    def _sym_str(self):
        return self

    def __repr__(self):
        return 'SOpaqueStr(%s)' % self.t


class SymMatch(object):
    """truthy result of a symbolic match on an opaque string (groups are not modelled here)"""
    def __init__(self, pat, s):
        self.pat, self.s = pat, s

    def group(self, *a):
        raise OutOfSubset('group() of a match on an opaque string')
    groupdict = span = group


class SymPattern(object):
    """wrapper of a real compiled pattern; match()/search() on an opaque string forks on regex membership"""
    def __init__(self, real, name=None):
        self.real, self.name = real, name or real.pattern[:30]
        self.pattern = real.pattern

    def _lang(self):
        from . import regex2smt as R
        return R.lang(self.real)

    def match(self, s, *a):
        if isinstance(s, SOpaqueStr):
            c = ctx()
            c.assumptions.add('re: P.match(s) succeeds iff s is in the regular language of P\'s parse tree (backtracking is complete)')
            if c.decide(z3.InRe(s.t, self._lang())):
                c.notes.append(('match', self.name))
                return SymMatch(self, s)
            return None
        if isinstance(s, Sym):
            raise OutOfSubset('pattern match on %s' % type(s).__name__)
        return self.real.match(s, *a)

    def search(self, s, *a):
        if isinstance(s, Sym):
            if not self.real.pattern.startswith('^'):
                raise OutOfSubset('search() with an unanchored pattern')
            return self.match(s, *a)
        return self.real.search(s, *a)

    def __getattr__(self, n):
        return getattr(self.real, n)
