"""Symbolic strings.

SOpaqueStr  - an arbitrary text (SMT String): equality, membership in a finite set, regex membership.
(The shape-typed and skeleton strings live in shapes.py / skeleton.py.)"""
import z3
from .core import ctx, OutOfSubset
from .values import Sym, SBool, mkbool, Not


class SOpaqueStr(Sym):
    __slots__ = ('t',)
    _pytype = str

    def __init__(self, t):
        self.t = t

    @classmethod
    def fresh(cls, name):
        c = ctx()
        v = z3.String(name)
        c.declare_input(name, v)
        return cls(v)

    def _co(self, o):
        if isinstance(o, SOpaqueStr):
            return o.t
        if isinstance(o, str):
            return z3.StringVal(o)
        return None

    def __eq__(self, o):
        t = self._co(o)
        if t is None:
            return False
        return mkbool(self.t == t)

    def __ne__(self, o):
        t = self._co(o)
        if t is None:
            return True
        return mkbool(self.t != t)

    def truth(self):
        return z3.Length(self.t) > 0

    def __bool__(self):
        return ctx().decide(z3.Length(self.t) > 0)

    def _sym_len(self):
        from .values import mkint
        return mkint(z3.Length(self.t))

    def _sym_str(self):
        return self

    def __repr__(self):
        return 'SOpaqueStr(%s)' % self.t
