"""Enumerate the language of a Python regular expression from its own syntax tree: every alternative, every optional
part, bounded repeats, and for each position of each skeleton every member (or a stated sample) of its character class.

skeletons(pattern, max_rep)  -> list of tuples of cells; a cell is a frozenset/tuple of candidate characters
strings(pattern, ...)        -> base string per skeleton + one-at-a-time variations of each cell over its class"""
import re
import itertools

try:
    import re._parser as sre_parse
    import re._constants as sre_c
except ImportError:          # pragma: no cover
    import sre_parse
    import sre_constants as sre_c

DIGIT_SAMPLE = '5019٣'                      # ASCII digits + one non-ASCII decimal digit
SPACE_ALL = ' \t\n\r\x0b\x0c\x1c\x1d\x1e\x1f\x85\xa0       　'


def class_members(items):
    out = []
    for op, av in items:
        if op is sre_c.LITERAL:
            out.append(chr(av))
        elif op is sre_c.RANGE:
            lo, hi = av
            if hi - lo > 40:
                out += [chr(lo), chr((lo + hi) // 2), chr(hi)]
            else:
                out += [chr(c) for c in range(lo, hi + 1)]
        elif op is sre_c.CATEGORY:
            if av is sre_c.CATEGORY_DIGIT:
                out += list(DIGIT_SAMPLE)
            elif av is sre_c.CATEGORY_SPACE:
                out += list(SPACE_ALL)
            else:
                raise NotImplementedError('category %s' % av)
        else:
            raise NotImplementedError('class item %s' % op)
    return tuple(dict.fromkeys(out))


class Cell(tuple):
    """candidate characters of one position + the identity of the class node it came from"""
    def __new__(cls, members, node):
        o = tuple.__new__(cls, members)
        o.node = node
        return o


def reps(lo, hi, max_rep):
    if hi is sre_c.MAXREPEAT or hi > lo + max_rep:
        hi = lo + max_rep
    return range(lo, hi + 1)


def expand(seq, max_rep):
    """list of skeletons (tuples of cells) of a parsed sequence"""
    outs = [()]
    for op, av in seq:
        if op is sre_c.LITERAL:
            alts = [(Cell((chr(av),), None),)]
        elif op is sre_c.IN:
            alts = [(Cell(class_members(av), id(av)),)]
        elif op is sre_c.BRANCH:
            alts = []
            for a in av[1]:
                alts += expand(a, max_rep)
        elif op is sre_c.SUBPATTERN:
            alts = expand(av[3], max_rep)
        elif op in (sre_c.MAX_REPEAT, sre_c.MIN_REPEAT):
            lo, hi, p = av
            body = expand(p, max_rep)
            alts = []
            for n in reps(lo, hi, max_rep):
                for combo in itertools.product(body, repeat=n):
                    alts.append(tuple(c for part in combo for c in part))
        elif op is sre_c.AT:
            alts = [()]
        else:
            raise NotImplementedError('regex node %s' % op)
        outs = [o + a for o in outs for a in alts]
        if len(outs) > 400000:
            raise OverflowError('too many skeletons')
    return outs


def skeletons(pattern, max_rep=2):
    tree = sre_parse.parse(pattern.pattern if hasattr(pattern, 'pattern') else pattern)
    sk = expand(tree, max_rep)
    seen, out = set(), []
    for s in sk:
        if s not in seen:
            seen.add(s)
            out.append(s)
    return out


SMALL_CLASS = 6


def strings(pattern, max_rep=1, swapcase=True, zero_digits=True):
    """base string of every skeleton (first member of each class); its other-letter-case twin; and for every character
    class node of the pattern and every member of the class one string with that member (first skeleton using the node)"""
    out = []
    seen = set()
    covered = set()

    def add(s):
        if s not in seen:
            seen.add(s)
            out.append(s)
    for sk in skeletons(pattern, max_rep):
        base = [c[0] for c in sk]
        b = ''.join(base)
        add(b)
        if swapcase:
            add(''.join(c[1] if (len(c) == 2 and c[0].swapcase() == c[1]) else c[0] for c in sk))
        if zero_digits:
            # the digit 0 is special wherever a number is read (0 legs, 0 metres, leading zeros): every digit cell once, and all
            zi = [i for i, c in enumerate(sk) if '0' in c and base[i] != '0' and base[i].isdigit()]
            for i in zi:
                t = list(base)
                t[i] = '0'
                add(''.join(t))
            if len(zi) > 1:
                t = list(base)
                for i in zi:
                    t[i] = '0'
                add(''.join(t))
        for i, c in enumerate(sk):
            if c.node is None:
                continue
            small = len(c) <= SMALL_CLASS and not all(x.isdigit() for x in c)
            for ch in c[1:]:
                # members of a SMALL non-digit class (unit letters, x/X, k/K ...) are tried in every skeleton that uses the class:
                # their meaning interacts with the structure around them ('4x1.5K' vs '4x100K'); members of large classes once
                if not small and (c.node, ch) in covered:
                    continue
                covered.add((c.node, ch))
                t = list(base)
                t[i] = ch
                add(''.join(t))
    return out
