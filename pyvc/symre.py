"""Symbolic execution of a compiled Python regular expression on a shape-typed string (sstr.SStr).

The matcher interprets the parse tree of the REAL compiled pattern (re._parser.parse of pattern.pattern with the pattern's
own flags) with the backtracking semantics of `re`: alternatives left to right, greedy / lazy repeats, groups holding the
span of their last successful iteration, `$` = end or before a final newline.  Every test of an atom (literal, set,
category, '.') against a symbolic cell whose class is neither inside nor outside the atom FORKS through the decision trail
(sstr.cell_in), so the outcome of the match and every group span are exact on each path; the class of the cell is narrowed
on the path (ctx.cc_narrow), which later tests of the same cell consult.

What is assumed: backtracking in `re` is complete and ordered as documented; this interpreter implements that order.  It is
validated on every run by `selfcheck` (differential run against `re` on concrete strings: success and all group spans).
Outside the subset (OutOfSubset, i.e. undecided): IGNORECASE/MULTILINE/VERBOSE/LOCALE flags, back-references, look-behind,
word boundaries, possessive/atomic constructs, conditional groups."""
import re

try:
    import re._parser as sre_parse
    import re._constants as sre_c
except ImportError:      # pragma: no cover
    import sre_parse
    import sre_constants as sre_c

from .core import Ctx, OutOfSubset
from . import regex2smt as R
from . import sstr as S

MAXREPEAT = sre_c.MAXREPEAT
_NL = S.CC([(10, 10)])


_narrow_map = S.narrow_map
eff_class = S.eff_class


def tri(cell, cc, neg=False):
    """True / False when the classes decide the test, None when it depends on the character"""
    if isinstance(cell, str):
        return cc.has(ord(cell)) != neg
    eff = eff_class(cell)
    if eff.subset(cc):
        return not neg
    if eff.inter(cc).empty():
        return neg
    return None


def test(cell, cc, neg=False):
    """does the character of `cell` lie in class cc (outside it when neg)?  Forks when undetermined."""
    r = tri(cell, cc, neg)
    if r is not None:
        return r
    eff = eff_class(cell)
    v = bool(S.mkbool(cc.z3in(cell.cp)))             # fork
    m = _narrow_map()
    if m is not None:
        m[cell.cp.get_id()] = eff.inter(cc) if v else eff.minus(cc)
    return v != neg


class _Prog(object):
    def __init__(self, real):
        flags = real.flags
        bad = flags & (re.IGNORECASE | re.MULTILINE | re.VERBOSE | re.LOCALE)
        self.bad = 'regex flags %r' % flags if bad else None
        self.flags = flags & ~re.UNICODE
        self.tree = list(sre_parse.parse(real.pattern, real.flags))
        self._sets = {}

    def cls(self, av):
        k = id(av)
        if k not in self._sets:
            rs, neg = R.set_ranges(av, self.flags)
            self._sets[k] = (S.CC(rs), neg)
        return self._sets[k]


_progs = {}


def prog_of(real):
    k = (real.pattern, real.flags)
    if k not in _progs:
        _progs[k] = _Prog(real)
    return _progs[k]


class _M(object):
    """one matching attempt"""
    def __init__(self, prog, cells):
        self.p, self.cells, self.n = prog, cells, len(cells)
        self.may = False          # may-mode: an undetermined test counts as passed, nothing forks (over-approximation)

    def atom(self, i, cc, neg, k, g):
        """test cell i against an atom and continue.  Before forking on an undetermined test, the rest of the match is run
        in may-mode: if it cannot succeed even when every undetermined test passes, the atom's outcome is irrelevant (the
        attempt fails on both sides) and no fork is made."""
        if i >= self.n:
            return None
        r = tri(self.cells[i], cc, neg)
        if r is None:
            if self.may:
                r = True
            else:
                self.may = True
                try:
                    possible = k(i + 1, g) is not None
                finally:
                    self.may = False
                if not possible:
                    return None
                r = test(self.cells[i], cc, neg)
        return k(i + 1, g) if r else None

    def seq(self, items, idx, i, g, k):
        if idx == len(items):
            return k(i, g)
        op, av = items[idx]
        return self.node(op, av, i, g, lambda i2, g2: self.seq(items, idx + 1, i2, g2, k))

    def node(self, op, av, i, g, k):
        cells, n = self.cells, self.n
        if op is sre_c.LITERAL:
            return self.atom(i, S.CC([(av, av)]), False, k, g)
        if op is sre_c.NOT_LITERAL:
            return self.atom(i, S.CC([(av, av)]), True, k, g)
        if op is sre_c.ANY:
            if self.p.flags & re.DOTALL:
                return k(i + 1, g) if i < n else None
            return self.atom(i, _NL, True, k, g)
        if op is sre_c.IN:
            cc, neg = self.p.cls(av)
            return self.atom(i, cc, neg, k, g)
        if op is sre_c.BRANCH:
            for alt in av[1]:
                r = self.seq(list(alt), 0, i, g, k)
                if r is not None:
                    return r
            return None
        if op is sre_c.SUBPATTERN:
            group, add, dele, p = av
            if add or dele:
                raise OutOfSubset('inline regex flags')
            if group is None:
                return self.seq(list(p), 0, i, g, k)

            def kg(i2, g2):
                g3 = dict(g2)
                g3[group] = (i, i2)
                g3['last'] = group
                return k(i2, g3)
            return self.seq(list(p), 0, i, g, kg)
        if op in (sre_c.MAX_REPEAT, sre_c.MIN_REPEAT):
            lo, hi, p = av
            body = list(p)
            greedy = op is sre_c.MAX_REPEAT

            def rep(count, i, g):
                def more():
                    if hi is not MAXREPEAT and count >= hi:
                        return None

                    def after(i2, g2):
                        if i2 == i and count >= lo:
                            return None                  # an empty iteration ends the loop (sre)
                        return rep(count + 1, i2, g2)
                    return self.seq(body, 0, i, g, after)
                if greedy:
                    r = more()
                    if r is not None:
                        return r
                    return k(i, g) if count >= lo else None
                if count >= lo:
                    r = k(i, g)
                    if r is not None:
                        return r
                return more()
            return rep(0, i, g)
        if op is sre_c.AT:
            if av in (sre_c.AT_BEGINNING, sre_c.AT_BEGINNING_STRING):
                return k(i, g) if i == 0 else None
            if av is sre_c.AT_END_STRING:
                return k(i, g) if i == n else None
            if av is sre_c.AT_END:
                if i == n:
                    return k(i, g)
                if i == n - 1:
                    r = tri(cells[i], _NL)
                    if r is None:
                        r = True if self.may else test(cells[i], _NL)
                    return k(i, g) if r else None
                return None
            raise OutOfSubset('regex anchor %s' % av)
        if op in (sre_c.ASSERT, sre_c.ASSERT_NOT):
            d, p = av
            if d < 0:
                raise OutOfSubset('look-behind')
            if op is sre_c.ASSERT_NOT and self.may:
                return k(i, g)                 # over-approximation: the assertion may hold
            r = self.seq(list(p), 0, i, g, lambda i2, g2: (i2, g2))
            if op is sre_c.ASSERT:
                return k(i, r[1]) if r is not None else None
            return k(i, g) if r is None else None
        raise OutOfSubset('regex node %s' % op)


class _Span(object):
    """the part of a match object ShapeMatch reads"""
    def __init__(self, real, start, end, g):
        self.re = real
        self._g = dict(g)
        self._g[0] = (start, end)
        self.lastindex = self._g.pop('last', None)      # the group that closed last

    def _ix(self, k):
        if isinstance(k, str):
            return self.re.groupindex[k]
        if not 0 <= k <= self.re.groups:
            raise IndexError('no such group')
        return k

    def span(self, k=0):
        return self._g.get(self._ix(k), (-1, -1))

    def start(self, k=0): return self.span(k)[0]
    def end(self, k=0): return self.span(k)[1]


def run(real, cells, mode='match', pos=0):
    """-> _Span or None.  cells: tuple of str | sstr.Var"""
    p = prog_of(real)
    if p.bad:
        raise OutOfSubset(p.bad)
    cells = tuple(cells)
    n = len(cells)
    starts = range(pos, n + 1) if mode == 'search' else (pos,)
    for st in starts:
        m = _M(p, cells)
        fin = (lambda i, g: (i, g) if i == n else None) if mode == 'fullmatch' else (lambda i, g: (i, g))
        r = m.seq(p.tree, 0, st, {}, fin)
        if r is not None:
            return _Span(real, st, r[0], r[1])
    return None


class SymRe(object):
    """wrapper of a real compiled pattern usable on str, SFmt and SStr (exact, forking)"""
    def __init__(self, real):
        self.real = real
        self.pattern = real.pattern
        self.flags = real.flags
        self.groups = real.groups
        self.groupindex = real.groupindex

    def _run(self, mode, s, *a):
        from .builtins_sym import SFmt
        from .shapepat import ShapeMatch
        if isinstance(s, SFmt):
            s = s.force()
        if isinstance(s, str):
            return getattr(self.real, mode)(s, *a)
        if not isinstance(s, S.SStr):
            if isinstance(s, S.Sym):
                raise OutOfSubset('pattern match on %s' % type(s).__name__)
            return getattr(self.real, mode)(s, *a)         # the real TypeError
        if len(a) > 1:
            raise OutOfSubset('pattern match with endpos')
        sp = run(self.real, s.cells, mode, *(a[:1]))
        if sp is None:
            return None
        # groups are slices of the string with the classes narrowed on this path
        cells = tuple(c if isinstance(c, str) else S.Var(c.cp, eff_class(c)) for c in s.cells)
        return ShapeMatch(sp, S.SStr(cells), self)

    def match(self, s, *a): return self._run('match', s, *a)
    def fullmatch(self, s, *a): return self._run('fullmatch', s, *a)
    def search(self, s, *a): return self._run('search', s, *a)

    def __getattr__(self, n):
        if n in ('sub', 'subn', 'split', 'findall', 'finditer'):
            real = getattr(self.real, n)

            def f(*a, **k):
                if any(isinstance(x, S.Sym) for x in a) or any(isinstance(x, S.Sym) for x in k.values()):
                    raise OutOfSubset('pattern.%s on a symbolic string' % n)
                return real(*a, **k)
            return f
        return getattr(self.real, n)


def shadows_for(module):
    """{name: SymRe} for every compiled pattern among a module's globals"""
    out = {}
    for n, v in vars(module).items():
        if isinstance(v, re.Pattern):
            out[n] = SymRe(v)
    return out


def selfcheck(patterns, strings):
    """differential run against `re` on concrete strings: returns (number compared, list of disagreements)"""
    bad = []
    n = 0
    for real in patterns:
        for s in strings:
            for mode in ('match', 'search'):
                want = getattr(real, mode)(s)
                try:
                    got = run(real, tuple(s), mode)
                except OutOfSubset as e:
                    bad.append((real.pattern[:40], s, mode, 'OutOfSubset %s' % e.what))
                    break
                n += 1
                if (want is None) != (got is None):
                    bad.append((real.pattern[:40], s, mode, 'match' if want else 'no match', 'match' if got else 'no match'))
                    continue
                if want is None:
                    continue
                for k in range(0, real.groups + 1):
                    if want.span(k) != got.span(k):
                        bad.append((real.pattern[:40], s, mode, 'group %d' % k, want.span(k), got.span(k)))
                        break
                else:
                    if want.lastindex != got.lastindex:
                        bad.append((real.pattern[:40], s, mode, 'lastindex', want.lastindex, got.lastindex))
            if len(bad) > 20:
                return n, bad
    return n, bad
