"""Shapes of a regular language: every alternative, optional part and (bounded) repeat count of a pattern's own syntax tree,
each position carrying the FULL character class of its atom (not a sample of it).  A shape is a tuple of literal
characters and sstr.CC classes; sstr.SStr.fresh(name, shape) is then the symbolic string "any content of that shape".

Digit classes are restricted to ASCII digits (the integer encoding of digit runs; non-ASCII decimal digits are covered by
the enumerated stand-ins only) - reported as an assumption by the callers."""
import itertools

try:
    import re._parser as sre_parse
    import re._constants as sre_c
except ImportError:          # pragma: no cover
    import sre_parse
    import sre_constants as sre_c

from . import regex2smt as R
from . import sstr as S


def _cc_of(av, flags):
    rs, neg = R.set_ranges(av, flags)
    cc = S.CC(rs)
    if neg:
        cc = S.ANYCHAR.minus(cc)
    if not cc.inter(S.DIGITS).empty() and not cc.subset(S.ASCII):
        cc = cc.inter(S.ASCII)
    return cc


def _is_digit_body(p):
    p = list(p)
    return len(p) == 1 and p[0][0] is sre_c.IN and len(p[0][1]) == 1 and p[0][1][0] == (sre_c.CATEGORY, sre_c.CATEGORY_DIGIT)


def expand(seq, max_rep, long_digits, flags=0, cap=2000000):
    outs = [()]
    for op, av in seq:
        if op is sre_c.LITERAL:
            alts = [(chr(av),)]
        elif op is sre_c.IN:
            cc = _cc_of(av, flags)
            o = cc.only()
            alts = [((chr(o) if o is not None else cc),)]
        elif op is sre_c.ANY:
            alts = [(S.ANYCHAR.minus(S.CC([(10, 10)])),)]
        elif op is sre_c.BRANCH:
            alts = []
            for a in av[1]:
                alts += expand(a, max_rep, long_digits, flags, cap)
        elif op is sre_c.SUBPATTERN:
            alts = expand(av[3], max_rep, long_digits, flags, cap)
        elif op in (sre_c.MAX_REPEAT, sre_c.MIN_REPEAT):
            lo, hi, p = av
            if hi is sre_c.MAXREPEAT or hi > lo + max_rep:
                counts = list(range(lo, lo + max_rep + 1))
                if hi is sre_c.MAXREPEAT and lo >= 1 and long_digits and _is_digit_body(p):
                    counts += [n for n in long_digits if n > lo + max_rep]
                elif hi is not sre_c.MAXREPEAT and hi not in counts:
                    counts.append(hi)                  # a bounded repeat: also its maximum
            else:
                counts = list(range(lo, hi + 1))
            body = expand(p, max_rep, long_digits, flags, cap)
            alts = []
            for n in counts:
                for combo in itertools.product(body, repeat=n):
                    alts.append(tuple(c for part in combo for c in part))
        elif op is sre_c.AT:
            alts = [()]
        else:
            raise NotImplementedError('regex node %s' % op)
        outs = [o + a for o in outs for a in alts]
        if len(outs) > cap:
            raise OverflowError('too many shapes')
    return outs


def key(shape):
    return tuple(c if isinstance(c, str) else c.r for c in shape)


def shapes(pattern, max_rep=1, long_digits=()):
    """list of distinct shapes of the pattern's language (order of the syntax tree)"""
    flags = pattern.flags & ~32
    sk = expand(sre_parse.parse(pattern.pattern, pattern.flags), max_rep, tuple(long_digits), flags)
    seen, out = set(), []
    for s in sk:
        k = key(s)
        if k not in seen:
            seen.add(k)
            out.append(s)
    return out


def show(shape):
    out = []
    for c in shape:
        if isinstance(c, str):
            out.append(c)
        elif c.r == S.DIGITS.r:
            out.append('d')
        elif c.r == S.WSCC.r:
            out.append('_')
        else:
            out.append('[%s]' % ''.join(chr(a) if a == b else '%c-%c' % (a, b) for a, b in c.r))
    return ''.join(out)


def concretise(shape, model, name='s'):
    """the string of a counter-model (inputs <name>_<i>)"""
    out = []
    for i, c in enumerate(shape):
        if isinstance(c, str):
            out.append(c)
        else:
            v = model.get('%s_%d' % (name, i)) if model else None
            out.append(chr(int(v)) if isinstance(v, int) and c.has(int(v)) else chr(c.r[0][0]))
    return ''.join(out)
