"""Write-frame inference for the thread-safety sufficient condition of C16 (DESIGN §5 C16).

For every function reachable from the listed entry points (call graph resolved through the real modules' globals),
every WRITE to a location that other threads can reach is collected from the function's AST:

  * assignment to a declared global;  mutation (subscript/attribute store, mutator method) of a module-level object;
  * attribute store on `self` when the receiver may be a module-level (shared) instance;
  * mutation of a parameter bound, at some call site, to a module-level object.

A write site is accepted iff
  (a) it is not shared (fresh receiver / local), or
  (b) publish-after-complete: it stores, as the last write to that location in the function, a value built in the same
      call and not touched afterwards (one atomic reference store of a complete object), or
  (c) it lies inside a `with <module-level lock>` block - lexically, or in every caller chain (the lock is held across
      the call).
Everything else is reported with the site (file:line) and the reason."""
import ast
import inspect
import textwrap
import threading
import types

_SIGNAL_CLASSES = {'Event', 'Condition', 'Semaphore', 'BoundedSemaphore', 'Barrier', 'Timer', 'Queue', 'LifoQueue', 'PriorityQueue', 'SimpleQueue'}
MUTATORS = {'append', 'pop', 'update', 'clear', 'setdefault', 'insert', 'remove', 'extend', 'sort', 'popitem', 'add', 'discard'}
_LOCK_TYPES = (type(threading.Lock()), type(threading.RLock()))


def is_lock(obj):
    return isinstance(obj, _LOCK_TYPES)


class FuncInfo(object):
    def __init__(self, func, cls=None):
        func = inspect.unwrap(func)          # @contextmanager / functools.wraps: the function that was written, with ITS globals
        self.func = func
        self.cls = cls
        self.qual = func.__module__ + '.' + func.__qualname__
        src = textwrap.dedent(inspect.getsource(func))
        self.tree = ast.parse(src).body[0]
        self.file = inspect.getsourcefile(func)
        self.line0 = inspect.getsourcelines(func)[1]
        self.g = func.__globals__
        a = self.tree.args
        self.params = [x.arg for x in a.posonlyargs + a.args + a.kwonlyargs] + ([a.vararg.arg] if a.vararg else []) + ([a.kwarg.arg] if a.kwarg else [])

    def line(self, node):
        return self.line0 + node.lineno - 1


def _names_assigned(tree):
    out = set()
    for n in ast.walk(tree):
        if isinstance(n, ast.Name) and isinstance(n.ctx, ast.Store):
            out.add(n.id)
        elif isinstance(n, ast.arg):
            out.add(n.arg)
    return out


def _lock_call(st, fi, what):
    """statement `<module-level lock>.acquire()` / `.release()`"""
    if not isinstance(st, ast.Expr) or not isinstance(st.value, ast.Call):
        return False
    f = st.value.func
    return isinstance(f, ast.Attribute) and f.attr == what and isinstance(f.value, ast.Name) and f.value.id in fi.g and is_lock(fi.g[f.value.id])


def _released_in_finally(blk, acq, fi):
    """is the statement after the acquire a try whose finally releases the lock?"""
    i = blk.index(acq)
    for st in blk[i + 1:i + 2]:
        if isinstance(st, ast.Try) and any(_lock_call(x, fi, 'release') for x in st.finalbody):
            return True
    return False


class Analyzer(object):
    def __init__(self, package_prefix='athlib'):
        self.prefix = package_prefix
        self.infos = {}
        self.sites = []            # dicts
        self.reads = []
        self.visited = set()
        self.edges = []

    def info(self, func, cls=None):
        k = (func, cls)
        if k not in self.infos:
            self.infos[k] = FuncInfo(func, cls)
        return self.infos[k]

    def in_pkg(self, obj):
        m = getattr(obj, '__module__', '') or ''
        return m == self.prefix or m.startswith(self.prefix + '.')

    def methods_named(self, name):
        import sys
        out = []
        for mn, mod in list(sys.modules.items()):
            if not (mn == self.prefix or mn.startswith(self.prefix + '.')) or mod is None:
                continue
            for cn, c in vars(mod).items():
                if isinstance(c, type) and self.in_pkg(c) and name in c.__dict__:
                    f = c.__dict__[name]
                    if isinstance(f, (staticmethod, classmethod)):
                        f = f.__func__
                    if isinstance(f, property):
                        f = f.fget
                    if isinstance(f, types.FunctionType):
                        out.append((f, c))
        seen, uniq = set(), []
        for f, c in out:
            if f not in seen:
                seen.add(f)
                uniq.append((f, c))
        return uniq

    # ------------------------------------------------------------------------------------------------------------
    def analyze(self, func, cls=None, shared_self=False, shared_params=frozenset(), locked=False, chain=(), fparams=frozenset()):
        """shared_params: frozenset of (parameter name, location key of the module-level object it is bound to);
        fparams: frozenset of (parameter name, (function, class, receiver shared?)) - functions / bound methods passed in by a caller"""
        pmap = dict(shared_params)
        self._fmap = {}
        for pn, tgt in fparams:
            self._fmap.setdefault(pn, []).append(tgt)
        fmap = self._fmap
        key = (func, shared_self, shared_params, locked, fparams)
        if key in self.visited or len(chain) > 12:
            return
        self.visited.add(key)
        try:
            fi = self.info(func, cls)
        except (OSError, TypeError, IndexError):
            return
        chain = chain + (fi.qual,)
        declared_global = set()
        for n in ast.walk(fi.tree):
            if isinstance(n, ast.Global):
                declared_global.update(n.names)
        locals_ = (_names_assigned(fi.tree) | set(fi.params)) - declared_global

        def is_module_obj(name):
            return name not in locals_ and name in fi.g and not isinstance(fi.g[name], (types.FunctionType, type, types.ModuleType))

        # fresh locals: Name bound (anywhere in the function) only to literals / constructor calls
        fresh = {}
        for n in ast.walk(fi.tree):
            if isinstance(n, ast.Assign) and len(n.targets) == 1 and isinstance(n.targets[0], ast.Name):
                nm = n.targets[0].id
                v = n.value
                isfresh = isinstance(v, (ast.Dict, ast.List, ast.Set, ast.ListComp, ast.DictComp, ast.Tuple, ast.Constant)) or \
                    (isinstance(v, ast.Call) and isinstance(v.func, ast.Name) and (isinstance(fi.g.get(v.func.id), type) or v.func.id in ('dict', 'list', 'set')))
                fresh[nm] = fresh.get(nm, True) and isfresh

        # aliases: locals bound (anywhere in the function) to a part of a shared object (item, attribute, .get()/.values()/
        # .items()/.setdefault() result, loop variable over it): writes through them are writes to the shared object
        def root_loc(e):
            first_attr = None
            while True:
                if isinstance(e, (ast.Subscript, ast.Attribute)):
                    if isinstance(e, ast.Attribute):
                        first_attr = e.attr
                    e = e.value
                elif isinstance(e, ast.Call) and isinstance(e.func, ast.Attribute) and e.func.attr in ('get', 'values', 'items', 'setdefault', '__getitem__'):
                    e = e.func.value
                    first_attr = None
                elif isinstance(e, ast.Call) and isinstance(e.func, ast.Name) and e.func.id in ('iter', 'reversed', 'enumerate', 'zip', 'sorted_view') and e.args:
                    e = e.args[0]
                else:
                    break
            if not isinstance(e, ast.Name):
                return None
            nm = e.id
            if nm in pmap:
                return pmap[nm]
            if nm == 'self' and fi.params and fi.params[0] == 'self':
                return ('self', fi.cls.__name__ if fi.cls else '?', first_attr or '[]') if (shared_self and first_attr) else None
            if nm in declared_global or is_module_obj(nm):
                return ('global', fi.func.__module__, nm)
            return None

        def bind(t, loc):
            ch = False
            for tt in ([t] if isinstance(t, ast.Name) else [x for x in ast.walk(t) if isinstance(x, ast.Name)] if isinstance(t, (ast.Tuple, ast.List)) else []):
                if tt.id in locals_ and tt.id not in pmap and tt.id != 'self':
                    pmap[tt.id] = loc
                    ch = True
            return ch
        changed = True
        while changed:
            changed = False
            for n in ast.walk(fi.tree):
                if isinstance(n, ast.Assign) and not isinstance(n.value, (ast.Constant, ast.Dict, ast.List, ast.Set)):
                    loc = root_loc(n.value) if isinstance(n.value, (ast.Subscript, ast.Attribute, ast.Call)) else None
                    if loc:
                        for t in n.targets:
                            changed |= bind(t, loc)
                elif isinstance(n, (ast.For, ast.comprehension)):
                    loc = root_loc(n.iter)
                    if loc:
                        changed |= bind(n.target, loc)

        def walk(node, in_lock):
            """yield (node, in_lock) for statements/expressions, tracking with-lock regions"""
            if isinstance(node, ast.With):
                lk = in_lock
                for it in node.items:
                    e = it.context_expr
                    if isinstance(e, ast.Name) and e.id in fi.g and is_lock(fi.g[e.id]):
                        lk = True
                    else:
                        for x in walk(e, in_lock):          # `with helper():` calls helper (and whatever it writes)
                            yield x
                for b in node.body:
                    for x in walk(b, lk):
                        yield x
                return
            # a block of statements: the region after `<lock>.acquire()` up to `<lock>.release()` in the same block is held
            for fld in ('body', 'orelse', 'finalbody'):
                blk = getattr(node, fld, None)
                if isinstance(blk, list) and blk and isinstance(blk[0], ast.stmt) and any(_lock_call(st, fi, 'acquire') for st in blk):
                    yield node, in_lock
                    held = in_lock
                    for st in blk:
                        if _lock_call(st, fi, 'acquire'):
                            held = True
                            acquires.append((st, _released_in_finally(blk, st, fi)))
                            continue
                        if _lock_call(st, fi, 'release'):
                            held = in_lock
                            continue
                        for x in walk(st, held):
                            yield x
                    for fld2 in ('body', 'orelse', 'finalbody', 'handlers'):
                        if fld2 != fld:
                            for ch in (getattr(node, fld2, None) or []):
                                if isinstance(ch, ast.AST):
                                    for x in walk(ch, in_lock):
                                        yield x
                    return
            yield node, in_lock
            for ch in ast.iter_child_nodes(node):
                if isinstance(ch, (ast.FunctionDef, ast.Lambda, ast.ClassDef)):
                    continue
                for x in walk(ch, in_lock):
                    yield x

        acquires = []    # (statement, released on every path?)
        writes = []      # (location key, node, in_lock, kind, value node or None)
        calls = []       # (call node, in_lock)
        reads = []       # (location key, node, in_lock): item reads / membership tests of module-level containers
        class _Body(ast.AST):
            _fields = ('body',)
        top = _Body()
        top.body = fi.tree.body
        for stmt in [top]:
            for node, lk in walk(stmt, locked):
                if node is top:
                    continue
                if isinstance(node, (ast.Assign, ast.AugAssign, ast.AnnAssign)):
                    targets = node.targets if isinstance(node, ast.Assign) else [node.target]
                    for t in targets:
                        for tt in (t.elts if isinstance(t, (ast.Tuple, ast.List)) else [t]):
                            self._target(fi, tt, node, lk, declared_global, is_module_obj, shared_self, pmap, writes)
                elif isinstance(node, ast.Delete):
                    for tt in node.targets:
                        self._target(fi, tt, node, lk, declared_global, is_module_obj, shared_self, pmap, writes)
                elif isinstance(node, ast.Subscript) and isinstance(node.ctx, ast.Load) and isinstance(node.value, ast.Name):
                    nm = node.value.id
                    if is_module_obj(nm) or nm in declared_global:
                        reads.append((('global', fi.func.__module__, nm), node, lk))
                    elif nm in pmap:
                        reads.append((pmap[nm], node, lk))
                elif isinstance(node, ast.Compare) and any(isinstance(o, (ast.In, ast.NotIn)) for o in node.ops):
                    for cmpn in node.comparators:
                        if isinstance(cmpn, ast.Name) and (is_module_obj(cmpn.id) or cmpn.id in declared_global):
                            reads.append((('global', fi.func.__module__, cmpn.id), node, lk))
                        elif isinstance(cmpn, ast.Name) and cmpn.id in pmap:
                            reads.append((pmap[cmpn.id], node, lk))
                elif isinstance(node, ast.Call):
                    calls.append((node, lk))
                    f = node.func
                    sig = None
                    if isinstance(f, ast.Attribute) and f.attr in _SIGNAL_CLASSES and isinstance(f.value, ast.Name) \
                            and isinstance(fi.g.get(f.value.id), types.ModuleType) and fi.g[f.value.id].__name__ in ('threading', 'queue', 'multiprocessing'):
                        sig = '%s.%s()' % (fi.g[f.value.id].__name__, f.attr)
                    elif isinstance(f, ast.Name) and f.id in _SIGNAL_CLASSES and getattr(fi.g.get(f.id), '__module__', '') in ('threading', 'queue'):
                        sig = '%s()' % f.id
                    elif isinstance(f, ast.Attribute) and f.attr in ('wait', 'notify', 'notify_all') and not (isinstance(f.value, ast.Name) and f.value.id in fi.g and is_lock(fi.g[f.value.id])):
                        sig = '.%s()' % f.attr
                    if sig:
                        self.sites.append(dict(function=fi.qual, file=fi.file, line=fi.line(node), location='signal:%s' % sig, ok=False, kind='signalling',
                                               why='threads hand results to each other through %s: synchronisation other than a module-level lock is outside the '
                                               'sufficient condition (what a waiting thread finds depends on what the other one did)' % sig, chain=list(chain)))
                    if isinstance(f, ast.Attribute) and f.attr in MUTATORS and isinstance(f.value, ast.Name):
                        nm = f.value.id
                        if is_module_obj(nm) or nm in declared_global:
                            writes.append((('global', fi.func.__module__, nm), node, lk, 'mutates module-level %s via .%s()' % (nm, f.attr), None))
                        elif nm in pmap:
                            writes.append((pmap[nm], node, lk, 'mutates its argument %s (bound to a module-level object by a caller) via .%s()' % (nm, f.attr), None))
        # classify
        by_loc = {}
        for w in writes:
            by_loc.setdefault(w[0], []).append(w)
        for loc, ws in by_loc.items():
            ws.sort(key=lambda w: (w[1].lineno, w[1].col_offset))
            for i, (l, node, lk, kind, val) in enumerate(ws):
                ok, why = False, kind
                if kind == 'memo keyed on every parameter':
                    ok, why = True, kind
                elif lk:
                    ok, why = True, 'inside a lock region'
                elif val is not None and i == len(ws) - 1 and self._complete_value(val, fresh, fi, node, loc):
                    ok, why = True, 'publish-after-complete'
                self.sites.append(dict(function=fi.qual, file=fi.file, line=fi.line(node), location=':'.join(str(x) for x in loc), ok=ok, why=why,
                                       kind=kind, chain=list(chain)))
        for st, safe in acquires:
            self.sites.append(dict(function=fi.qual, file=fi.file, line=fi.line(st), location='lock:acquire', ok=bool(safe),
                                   why='released in a finally clause' if safe else 'a lock taken with .acquire() is not released in a finally clause: '
                                   'an exception raised while it is held leaves it held, and every later caller in another thread blocks',
                                   kind='lock acquire', chain=list(chain)))
        for loc, node, lk in reads:
            self.reads.append(dict(function=fi.qual, file=fi.file, line=fi.line(node), location=':'.join(str(x) for x in loc), in_lock=lk))
        # calls
        for node, lk in calls:
            self._call(fi, node, lk, locals_, fresh, shared_self, pmap, is_module_obj, chain, fmap)

    def _target(self, fi, t, node, lk, declared_global, is_module_obj, shared_self, shared_params, writes):
        val = getattr(node, 'value', None)
        if isinstance(t, ast.Name):
            if t.id in declared_global:
                writes.append((('global', fi.func.__module__, t.id), node, lk, 'assigns the module global %s' % t.id, val))
        elif isinstance(t, (ast.Subscript, ast.Attribute)):
            base = t.value
            while isinstance(base, (ast.Subscript, ast.Attribute)):
                base = base.value
            if isinstance(base, ast.Name):
                nm = base.id
                what = 'item' if isinstance(t, ast.Subscript) else 'attribute %s' % t.attr
                if nm == 'self' and fi.params and fi.params[0] == 'self' and self._class_container(fi, t) and not (isinstance(t, ast.Attribute) and t.value is base):
                    # self.X[...] = v / self.X.y = v  where X is a mutable container defined in the CLASS body: one object for all
                    # instances (and threads), whoever the receiver is
                    a0 = self._class_container(fi, t)
                    writes.append((('class', fi.cls.__name__ if fi.cls else '?', a0), node, lk,
                                   'stores an %s of the class-level container %s (shared by all instances)' % (what, a0), None))
                elif nm == 'self' and fi.params and fi.params[0] == 'self':
                    if shared_self:
                        writes.append((('self', fi.cls.__name__ if fi.cls else '?', getattr(t, 'attr', '[]')), node, lk,
                                       'stores %s on a receiver that is a module-level (shared) instance' % what, val if isinstance(t, ast.Attribute) and t.value is base else None))
                elif nm not in shared_params and isinstance(fi.g.get(nm), type) and self.in_pkg(fi.g.get(nm)) and nm not in _names_assigned(fi.tree) \
                        and isinstance(t, ast.Attribute):
                    # an attribute of a CLASS of the package is shared by every instance and every thread
                    writes.append((('class', nm, t.attr if t.value is base else '...'), node, lk,
                                   'stores the class attribute %s.%s (shared by all instances)' % (nm, getattr(t, 'attr', '?')), val))
                elif nm not in shared_params and isinstance(fi.g.get(nm), types.ModuleType) and nm not in _names_assigned(fi.tree):
                    # monkey-patching: an attribute of an imported module is process-wide state
                    mod = fi.g[nm]
                    path = []
                    e = t
                    while isinstance(e, ast.Attribute):
                        path.append(e.attr)
                        e = e.value
                    writes.append((('module', getattr(mod, '__name__', nm), '.'.join(reversed(path))), node, lk,
                                   'stores an attribute of the imported module %s (process-wide state)' % getattr(mod, '__name__', nm), val))
                elif nm in declared_global or is_module_obj(nm):
                    if isinstance(t, ast.Subscript) and t.value is base and self._complete_key_memo(fi, t, node):
                        # result memo keyed on EVERY parameter, unmodified: the answer still depends on the arguments only,
                        # and a single item store of a finished value is atomic
                        writes.append((('global', fi.func.__module__, nm), node, lk, 'memo keyed on every parameter', None))
                    else:
                        writes.append((('global', fi.func.__module__, nm), node, lk, 'stores an %s of module-level %s' % (what, nm), None))
                elif nm in shared_params:
                    writes.append((shared_params[nm], node, lk, 'stores an %s of its argument %s (bound to a module-level object by a caller)' % (what, nm), None))

    def _class_container(self, fi, t):
        """name X if the store target is rooted at self.X and X is a dict / list / set defined in the body of the class (or a base)"""
        e = t
        first = None
        while isinstance(e, (ast.Subscript, ast.Attribute)):
            if isinstance(e, ast.Attribute) and isinstance(e.value, ast.Name) and e.value.id == 'self':
                first = e.attr
            e = e.value
        if first is None or fi.cls is None:
            return None
        for c in getattr(fi.cls, '__mro__', ()):
            if isinstance(c.__dict__.get(first), (dict, list, set)):
                return first
        return None

    def _complete_key_memo(self, fi, t, node):
        """`G[key] = value` where key is (a local bound once to) a tuple of plain parameter names covering every parameter"""
        key = t.slice
        if isinstance(key, ast.Name):
            binds = [n for n in ast.walk(fi.tree) if isinstance(n, ast.Assign) and len(n.targets) == 1 and isinstance(n.targets[0], ast.Name)
                     and n.targets[0].id == key.id]
            if len(binds) != 1:
                return False
            key = binds[0].value
        if isinstance(key, ast.Name):
            elts = [key]
        elif isinstance(key, ast.Tuple):
            elts = key.elts
        else:
            return False
        if not all(isinstance(e, ast.Name) for e in elts):
            return False
        params = [p for p in fi.params]
        if not params or set(params) - set(e.id for e in elts):
            return False
        # the parameters must not be re-bound before the key is built (the key must hold the caller's own arguments)
        for n in ast.walk(fi.tree):
            if isinstance(n, (ast.Assign, ast.AugAssign)) and getattr(n, 'lineno', 0) <= node.lineno:
                tg = n.targets if isinstance(n, ast.Assign) else [n.target]
                for x in tg:
                    for nm_ in ast.walk(x):
                        if isinstance(nm_, ast.Name) and nm_.id in params and n.lineno < (key.lineno if hasattr(key, 'lineno') else node.lineno):
                            return False
        return True

    def _complete_value(self, val, fresh, fi, node, loc):
        """is the stored value an object completely built in this call and not touched afterwards?"""
        if isinstance(val, ast.Constant):
            return True
        if isinstance(val, ast.Call):
            return True            # result of a call: built by the callee, reference stored once
        if isinstance(val, ast.Name):
            if not fresh.get(val.id, False):
                return False
            # no mutation of that local after the publishing statement
            for n in ast.walk(fi.tree):
                if getattr(n, 'lineno', 0) > node.lineno:
                    if isinstance(n, (ast.Subscript, ast.Attribute)) and isinstance(n.ctx, ast.Store) and isinstance(n.value, ast.Name) and n.value.id == val.id:
                        return False
                    if isinstance(n, ast.Call) and isinstance(n.func, ast.Attribute) and n.func.attr in MUTATORS and isinstance(n.func.value, ast.Name) \
                            and n.func.value.id == val.id:
                        return False
            return True
        if isinstance(val, (ast.Dict, ast.List, ast.Set)):
            # a fresh EMPTY/partial literal published and filled later is the classic defect: complete only if nothing
            # in the function mutates the global afterwards (checked by the caller through 'last write')
            return True
        return False

    def _call(self, fi, node, lk, locals_, fresh, shared_self, shared_params, is_module_obj, chain, fmap=None):
        f = node.func
        targets = []       # (function, cls, shared_self_for_callee)
        if isinstance(f, ast.Name) and fmap and f.id in fmap:
            targets.extend(fmap[f.id])          # a function / bound method handed in by the caller
        if isinstance(f, ast.Name):
            obj = fi.g.get(f.id) if f.id not in locals_ else None
            if isinstance(obj, types.FunctionType) and self.in_pkg(obj):
                targets.append((obj, None, False))
            elif isinstance(obj, type) and self.in_pkg(obj) and '__init__' in obj.__dict__:
                targets.append((obj.__dict__['__init__'], obj, False))       # constructor: fresh receiver
        elif isinstance(f, ast.Attribute):
            recv = f.value
            if isinstance(recv, ast.Name) and recv.id == 'self':
                for fn, c in self.methods_named(f.attr):
                    if fi.cls is None or issubclass(fi.cls, c) or issubclass(c, fi.cls):
                        targets.append((fn, c, shared_self))
            else:
                # receiver freshness: a local bound only to constructor calls is fresh; anything reading a module-level
                # object is shared
                sh = True
                if isinstance(recv, ast.Name) and recv.id in locals_ and fresh.get(recv.id, False):
                    sh = False
                if isinstance(recv, ast.Call) and isinstance(recv.func, ast.Name) and isinstance(fi.g.get(recv.func.id), type) \
                        and recv.func.id not in locals_:
                    sh = None          # the receiver is a constructor call: a fresh object nobody else can reach
                names = [n.id for n in ast.walk(recv) if isinstance(n, ast.Name)]
                if isinstance(recv, ast.Name) and recv.id in locals_ and not fresh.get(recv.id, False):
                    # local bound to an expression over module-level objects?
                    sh = True
                if not any((nm in locals_ and not fresh.get(nm, False)) or is_module_obj(nm) for nm in names) and not sh:
                    sh = False
                if sh is None:
                    sh = False
                obj = fi.g.get(recv.id) if isinstance(recv, ast.Name) and recv.id not in locals_ else None
                if isinstance(obj, types.ModuleType):
                    fn = getattr(obj, f.attr, None)
                    if isinstance(fn, types.FunctionType) and self.in_pkg(fn):
                        targets.append((fn, None, False))
                else:
                    for fn, c in self.methods_named(f.attr):
                        targets.append((fn, c, sh))
        for fn, c, sh in targets:
            # parameters bound to module-level objects
            sp = set()
            try:
                ci = self.info(fn, c)
            except (OSError, TypeError, IndexError):
                continue
            offs = 1 if (ci.params and ci.params[0] in ('self', 'cls') and c is not None) else 0
            def lockey(nm):
                if nm in shared_params:
                    return shared_params[nm]
                if is_module_obj(nm):
                    return ('global', fi.func.__module__, nm)
                return None
            for i, a in enumerate(node.args):
                if isinstance(a, ast.Name) and lockey(a.id) and i + offs < len(ci.params):
                    sp.add((ci.params[i + offs], lockey(a.id)))
            for kw in node.keywords:
                if kw.arg and isinstance(kw.value, ast.Name) and lockey(kw.value.id):
                    sp.add((kw.arg, lockey(kw.value.id)))
            # function-valued arguments: package functions by name, bound methods `obj.m` (every method of that name; the receiver
            # counts as shared unless it is a fresh local)
            fp = set()
            def ftargets(a):
                out = []
                if isinstance(a, ast.Name):
                    o = fi.g.get(a.id) if a.id not in locals_ else None
                    if isinstance(o, types.FunctionType) and self.in_pkg(o):
                        out.append((o, None, False))
                    if fmap and a.id in fmap:
                        out.extend(fmap[a.id])
                elif isinstance(a, ast.Attribute):
                    rsh = not (isinstance(a.value, ast.Name) and a.value.id in locals_ and fresh.get(a.value.id, False))
                    for fn2, c2 in self.methods_named(a.attr):
                        out.append((fn2, c2, rsh))
                return out
            for i, a in enumerate(node.args):
                if i + offs < len(ci.params):
                    for tg in ftargets(a):
                        fp.add((ci.params[i + offs], tg))
            for kw in node.keywords:
                if kw.arg:
                    for tg in ftargets(kw.value):
                        fp.add((kw.arg, tg))
            self.edges.append((fi.qual, ci.qual))
            self.analyze(fn, c, sh, frozenset(sp), lk, chain, frozenset(fp))


def verdicts(an):
    """final per-site verdicts: a location with any rejected write is rejected as a whole (several writers of different
    values are not a publish-once); a location written under a lock must also be READ under the lock"""
    sites = []
    seen = set()
    bad_locs = set(s['location'] for s in an.sites if not s['ok'])
    lock_locs = set(s['location'] for s in an.sites if s['ok'] and s['why'] == 'inside a lock region')
    for s in an.sites:
        k = (s['function'], s['line'], s['location'])
        if k in seen:
            continue
        seen.add(k)
        s = dict(s)
        if s['ok'] and s['location'] in bad_locs:
            s['ok'], s['why'] = False, 'the same location is written elsewhere outside any lock / not as a single complete publish'
        sites.append(s)
    for r in an.reads:
        k = (r['function'], r['line'], r['location'], 'read')
        if k in seen:
            continue
        seen.add(k)
        if r['location'] in lock_locs and not r['in_lock']:
            sites.append(dict(function=r['function'], file=r['file'], line=r['line'], location=r['location'], ok=False, kind='unprotected read',
                              why='reads a container that other threads modify under a lock without holding the lock (check-then-use can fail)', chain=[]))
    return sites


def purity_sites(funcs, package_prefix='athlib'):
    """write sites to shared (module-level / shared-instance) state reachable from `funcs`, other than a single publish of
    a completely built object (lazy initialisation of immutable tables) or writes under a lock: the `modifies \\nothing`
    clause of functions whose contract makes the answer a function of the arguments alone (a result memo keyed on part of
    the input, an option mutating a shared table ... are rejected)"""
    an = Analyzer(package_prefix)
    for f in funcs:
        an.analyze(f)
    return [s for s in verdicts(an) if not s['ok']], an


def frame_obligations(run, funcs, what='the functions under contract'):
    """record one obligation per function: no rejected write site in its call graph"""
    bad, an = purity_sites(funcs)
    by = {}
    for s in bad:
        root = (s.get('chain') or [s['function']])[0]
        by.setdefault(root, []).append(s)
    for f in funcs:
        q = f.__module__ + '.' + f.__qualname__
        name = 'frame/%s-modifies-no-shared-state' % q
        sites = by.get(q, [])
        run.record(name, 'frame', 'refuted' if sites else 'proved', 'frame-analysis', 0.0, 'frames')
        if sites:
            s = sites[0]
            run.violation(name, dict(call='write site %s:%d in %s (%s)' % (s['file'], s['line'], s['function'], s['location']), observed=s['why'],
                                     required='the answer depends on the arguments only: no write to state shared between calls', sites=[dict(file=x['file'], line=x['line'],
                                     function=x['function'], location=x['location'], why=x['why']) for x in sites[:4]], input=['frame', q],
                                     solver='frame analysis'), False)
    return bad
