"""Symbolic dates: proxy for datetime.date and the *assumed contracts* of the two
dateutil entry points athlib.uka.agegroups uses (relativedelta(...).years, parser.parse)."""
import datetime as _dt
import z3

from .core import ctx, OutOfSubset
from .values import Sym, SInt, SBool, mkbool, mkint, zint, And, Or, Not


def z_leap(y):
    return z3.Or(z3.And(y % 4 == 0, y % 100 != 0), y % 400 == 0)


def z_mlen(y, m):
    return z3.If(m == 2, z3.If(z_leap(y), 29, 28),
                 z3.If(z3.Or(m == 4, m == 6, m == 9, m == 11), 30, 31))


def z_valid(y, m, d, ymin=1, ymax=9999):
    return z3.And(y >= ymin, y <= ymax, m >= 1, m <= 12, d >= 1, d <= z_mlen(y, m))


class SDate(Sym):
    __slots__ = ('y', 'm', 'd')
    _pytype = _dt.date

    def __init__(self, y, m, d):
        self.y, self.m, self.d = zint(y), zint(m), zint(d)

    year = property(lambda s: mkint(s.y))
    month = property(lambda s: mkint(s.m))
    day = property(lambda s: mkint(s.d))

    def _lt(self, o):
        return z3.Or(self.y < o.y, z3.And(self.y == o.y, z3.Or(self.m < o.m, z3.And(self.m == o.m, self.d < o.d))))

    def _eqt(self, o):
        return z3.And(self.y == o.y, self.m == o.m, self.d == o.d)

    @staticmethod
    def _co(o):
        if isinstance(o, SDate):
            return o
        if isinstance(o, _dt.datetime):
            raise TypeError("can't compare datetime.datetime to datetime.date")
        if isinstance(o, _dt.date):
            return SDate(o.year, o.month, o.day)
        raise TypeError('cannot compare date with %s' % type(o).__name__)

    def __lt__(self, o): return mkbool(self._lt(self._co(o)))
    def __gt__(self, o): return mkbool(self._co(o)._lt(self))
    def __le__(self, o): return mkbool(z3.Not(self._co(o)._lt(self)))
    def __ge__(self, o): return mkbool(z3.Not(self._lt(self._co(o))))

    def __eq__(self, o):
        if not isinstance(o, (SDate, _dt.date)):
            return False
        return mkbool(self._eqt(self._co(o)))

    def __ne__(self, o):
        return Not(self == o)

    def __repr__(self):
        return 'SDate(%s,%s,%s)' % (self.y, self.m, self.d)


class SDateTime(SDate):
    """what dateutil's parser returns (a datetime at midnight); .date() gives the calendar day"""
    __slots__ = ()

    def date(self):
        return SDate(self.y, self.m, self.d)


def s_date(y, m, d):
    """shadow of datetime.date(y, m, d): ValueError on an invalid calendar date"""
    if not any(isinstance(v, Sym) for v in (y, m, d)):
        return _dt.date(y, m, d)
    Y, M, D = zint(y), zint(m), zint(d)
    if not ctx().decide(z_valid(Y, M, D)):
        raise ValueError('day is out of range for month / year out of range')
    return SDate(Y, M, D)


class SIsoStr(str):
    """an ISO date text 'YYYY-MM-DD' with symbolic fields.  A real str subclass, so the library's
    own isStr()/isinstance tests see a string; the content is only ever read by parse_date."""
    def __new__(cls, y, m, d):
        o = str.__new__(cls, '<symbolic-iso-date>')
        o.ymd = (y, m, d)
        return o


def s_parse_date(s, *a, **k):
    """ASSUMED CONTRACT dateutil.parser.parse(iso text): a datetime with the same y/m/d"""
    if a or k:
        raise OutOfSubset('dateutil.parser.parse called with options %r: outside the assumed contract' % (sorted(k),))
    ctx().assumptions.add('dateutil.parser.parse(ISO text) returns the same calendar day (assumed contract, cross-checked)')
    if isinstance(s, SIsoStr):
        return SDateTime(*s.ymd)
    if isinstance(s, Sym):
        raise OutOfSubset('parse_date of %s' % type(s).__name__)
    from dateutil.parser import parse
    r = parse(s)
    return _dt.date(r.year, r.month, r.day)


def z_rd_years(d1, d2):
    """ASSUMED CONTRACT dateutil.relativedelta(d1, d2).years, from the algorithm of relativedelta.__init__:
    months = 12(y1-y2)+(m1-m2); dtm = d2 + months (day clipped to the length of month m1 of y1);
    d1 >= d2: months -= [d1 < dtm]   else: months += [d1 > dtm];  years = months/12 truncated toward 0."""
    months0 = 12 * (d1.y - d2.y) + (d1.m - d2.m)
    clip = z3.If(d2.d < z_mlen(d1.y, d1.m), d2.d, z_mlen(d1.y, d1.m))
    ge = z3.Not(d1._lt(d2))
    months = z3.If(ge, months0 - z3.If(d1.d < clip, 1, 0), months0 + z3.If(d1.d > clip, 1, 0))
    return z3.If(months >= 0, months / 12, -((-months) / 12))


class s_relativedelta(object):
    def __init__(self, dt1=None, dt2=None, **kw):
        if kw or dt1 is None or dt2 is None:
            raise OutOfSubset('relativedelta used otherwise than relativedelta(d1, d2)')
        a, b = self._co(dt1), self._co(dt2)
        ctx().assumptions.add('dateutil.relativedelta(d1,d2).years = completed calendar years per the algorithm of '
                              'relativedelta.__init__ (assumed contract, cross-checked against dateutil)')
        self.years = mkint(z_rd_years(a, b))

    @staticmethod
    def _co(o):
        if isinstance(o, SDate):
            return o
        if isinstance(o, _dt.date):
            return SDate(o.year, o.month, o.day)
        raise TypeError('relativedelta only diffs datetime/date')


def rd_years_concrete(d1, d2):
    """the same contract on concrete dates (used by the cross-check against dateutil)"""
    import calendar
    months0 = 12 * (d1.year - d2.year) + (d1.month - d2.month)
    ml = calendar.monthrange(d1.year, d1.month)[1]
    clip = min(d2.day, ml)
    if d1 >= d2:
        months = months0 - (1 if d1.day < clip else 0)
    else:
        months = months0 + (1 if d1.day > clip else 0)
    return months // 12 if months >= 0 else -((-months) // 12)


def sym_date(name, ymin=1, ymax=9999):
    c = ctx()
    y, m, d = z3.Int(name + '_y'), z3.Int(name + '_m'), z3.Int(name + '_d')
    for n, v in (('_y', y), ('_m', m), ('_d', d)):
        c.declare_input(name + n, v)
    c.assume(z_valid(y, m, d, ymin, ymax))
    return SDate(y, m, d)


DATE_SHADOWS = {'date': s_date, 'relativedelta': s_relativedelta, 'parse_date': s_parse_date}
