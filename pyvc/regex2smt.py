"""Python `re` pattern  ->  SMT-LIB (z3) regular expression, from the pattern's own parse tree.

Supported nodes: LITERAL, NOT_LITERAL, IN (literals, ranges, \\d, \\s, \\w negation excluded), ANY, BRANCH,
SUBPATTERN (flags-free), MAX_REPEAT / MIN_REPEAT, AT_BEGINNING (only in head position), AT_END (only in tail
position; = epsilon | "\\n"), look-aheads (?=X) (?!X) in a sequence that runs to the end of the pattern (intersection with /
complement of X.Sigma*), conditional groups (?(n)yes|no) (alternatives indexed by the participating groups).  Anything else
raises OutOfSubset.  `P.match(s)`/`P.fullmatch` semantics:
a backtracking engine finds a match iff one exists, so  P.match(s) succeeds  <=>  s in L(tree) . Sigma*  and, for
a pattern ending in `$`,  <=>  s in L(body) . (eps | "\\n").
"""
import re
import sys
import functools

import z3

from .core import OutOfSubset

try:
    import re._parser as sre_parse
    import re._constants as sre_c
except ImportError:          # pragma: no cover
    import sre_parse
    import sre_constants as sre_c

MAXCHAR = 0x2FFFF     # z3's character sort


def _ch(c):
    return z3.StringVal(chr(c))


@functools.lru_cache(None)
def category_ranges(cat, ascii_only=False):
    """code-point ranges of a category, obtained from the real `re` engine"""
    pat = {'digit': r'\d', 'space': r'\s', 'word': r'\w'}[cat]
    p = re.compile(pat, re.ASCII if ascii_only else 0)
    out = []
    start = None
    for c in range(0, MAXCHAR + 2):
        ok = c <= MAXCHAR and p.match(chr(c)) is not None
        if ok and start is None:
            start = c
        elif not ok and start is not None:
            out.append((start, c - 1))
            start = None
    return tuple(out)


def _range(a, b):
    if a == b:
        return z3.Re(_ch(a))
    return z3.Range(_ch(a), _ch(b))


def _union(rs):
    rs = list(rs)
    if not rs:
        return z3.Empty(z3.ReSort(z3.StringSort()))
    if len(rs) == 1:
        return rs[0]
    return z3.Union(*rs)


def _concat(rs):
    rs = list(rs)
    if not rs:
        return z3.Re(z3.StringVal(''))
    if len(rs) == 1:
        return rs[0]
    return z3.Concat(*rs)


EPS = lambda: z3.Re(z3.StringVal(''))


def set_ranges(items, flags=0):
    """IN node -> list of (lo,hi) ranges, negation flag"""
    neg = False
    rs = []
    for op, av in items:
        if op is sre_c.NEGATE:
            neg = True
        elif op is sre_c.LITERAL:
            rs.append((av, av))
        elif op is sre_c.RANGE:
            rs.append(av)
        elif op is sre_c.CATEGORY:
            if av is sre_c.CATEGORY_DIGIT:
                rs.extend(category_ranges('digit', bool(flags & re.ASCII)))
            elif av is sre_c.CATEGORY_SPACE:
                rs.extend(category_ranges('space', bool(flags & re.ASCII)))
            elif av is sre_c.CATEGORY_WORD:
                rs.extend(category_ranges('word', bool(flags & re.ASCII)))
            else:
                raise OutOfSubset('regex category %s' % av)
        else:
            raise OutOfSubset('regex set item %s' % op)
    return rs, neg


def _negate(rs):
    rs = sorted(rs)
    out = []
    cur = 0
    for a, b in rs:
        if a > cur:
            out.append((cur, a - 1))
        cur = max(cur, b + 1)
    if cur <= MAXCHAR:
        out.append((cur, MAXCHAR))
    return out


def _lookahead_lang(body, flags):
    """language of the REST OF THE STRING that a look-ahead body admits: body . Sigma*, or body . (eps | "\n") when the body
    itself ends in `$`"""
    body = list(body)
    if body and body[-1][0] is sre_c.AT and body[-1][1] in (sre_c.AT_END, sre_c.AT_END_STRING):
        return tr_seq(body, False, True, flags)
    return z3.Concat(tr_seq(body, False, False, flags), z3.Full(z3.ReSort(z3.StringSort())))


_SIGMA_STAR = lambda: z3.Full(z3.ReSort(z3.StringSort()))


def _closes(op, av):
    """does this (last) item take care of the end of the string itself (an end anchor on every path through it)?"""
    if op is sre_c.AT and av in (sre_c.AT_END, sre_c.AT_END_STRING):
        return True
    return op in (sre_c.BRANCH, sre_c.SUBPATTERN, sre_c.ASSERT, sre_c.ASSERT_NOT, sre_c.GROUPREF_EXISTS)   # handled inside


def tr_seq(seq, head, tail, flags, open_=False):
    """open_: the sequence is in tail position of a pattern used with .match(): a path that does not end in an end anchor
    may be followed by anything (Sigma* is appended on exactly those paths)"""
    items = list(seq)
    out = []
    if not items and tail and open_:
        return _SIGMA_STAR()
    for i, (op, av) in enumerate(items):
        h = head and i == 0
        t = tail and i == len(items) - 1
        if op in (sre_c.ASSERT, sre_c.ASSERT_NOT):
            # (?=X) / (?!X) constrain the rest of the string: only where this sequence runs to the end of the pattern
            d, body = av
            if d < 0:
                raise OutOfSubset('look-behind')
            if not tail:
                raise OutOfSubset('look-ahead not in a sequence that ends the pattern')
            la = _lookahead_lang(body, flags)
            rest = tr_seq(items[i + 1:], False, True, flags, open_)
            out.append(z3.Intersect(rest, la if op is sre_c.ASSERT else z3.Complement(la)))
            return _concat(out)
        out.append(tr(op, av, h, t, flags, open_ and t))
        if t and open_ and not _closes(op, av):
            out.append(_SIGMA_STAR())
    return _concat(out)


# ---- conditional groups (?(n)yes|no): alternatives indexed by the set of referenced groups that took part --------------
def _cond_groups(seq, acc):
    for op, av in seq:
        if op is sre_c.GROUPREF_EXISTS:
            acc.add(av[0])
            _cond_groups(av[1], acc)
            if av[2] is not None:
                _cond_groups(av[2], acc)
        elif op is sre_c.BRANCH:
            for a in av[1]:
                _cond_groups(a, acc)
        elif op is sre_c.SUBPATTERN:
            _cond_groups(av[3], acc)
        elif op in (sre_c.MAX_REPEAT, sre_c.MIN_REPEAT):
            _cond_groups(av[2], acc)
        elif op in (sre_c.ASSERT, sre_c.ASSERT_NOT):
            _cond_groups(av[1], acc)
    return acc


def _mentions(seq, rel):
    """does the sequence contain a conditional or a capturing group the conditionals refer to?"""
    for op, av in seq:
        if op is sre_c.GROUPREF_EXISTS:
            return True
        if op is sre_c.SUBPATTERN:
            if av[0] in rel or _mentions(av[3], rel):
                return True
        elif op is sre_c.BRANCH:
            if any(_mentions(a, rel) for a in av[1]):
                return True
        elif op in (sre_c.MAX_REPEAT, sre_c.MIN_REPEAT):
            if _mentions(av[2], rel):
                return True
        elif op in (sre_c.ASSERT, sre_c.ASSERT_NOT):
            if _mentions(av[1], rel):
                return True
    return False


def _merge(d, G, r):
    d[G] = z3.Union(d[G], r) if G in d else r


def tr_seq_g(seq, head, tail, flags, rel, G0, open_=False):
    """{set of relevant groups that took part: regex} for a sequence entered with the groups G0 already matched.  A
    backtracking engine succeeds iff SOME path succeeds, and on every path each group either took part or not, so the
    language is the union over these alternatives."""
    items = list(seq)
    cur = {G0: EPS()}
    if not items and tail and open_:
        return {G0: _SIGMA_STAR()}
    for i, (op, av) in enumerate(items):
        h = head and i == 0
        t = tail and i == len(items) - 1
        new = {}
        for G, r in cur.items():
            for G2, r2 in tr_g(op, av, h, t, flags, rel, G, open_ and t).items():
                if t and open_ and not _closes(op, av):
                    r2 = z3.Concat(r2, _SIGMA_STAR())
                _merge(new, G2, z3.Concat(r, r2))
        cur = new
    return cur


def tr_g(op, av, head, tail, flags, rel, G, open_=False):
    if op is sre_c.GROUPREF_EXISTS:
        g, yes, no = av
        return tr_seq_g(yes if g in G else (no if no is not None else []), False, tail, flags, rel, G, open_)
    if op is sre_c.BRANCH:
        out = {}
        for alt in av[1]:
            for G2, r in tr_seq_g(alt, head, tail, flags, rel, G, open_).items():
                _merge(out, G2, r)
        return out
    if op is sre_c.SUBPATTERN:
        group, add, dele, p = av
        if add or dele:
            raise OutOfSubset('inline regex flags')
        out = {}
        for G2, r in tr_seq_g(p, head, tail, flags, rel, G, open_).items():
            _merge(out, (G2 | {group}) if group in rel else G2, r)
        return out
    if op in (sre_c.MAX_REPEAT, sre_c.MIN_REPEAT) and _mentions(av[2], rel):
        lo, hi, p = av
        if (lo, hi) != (0, 1):
            raise OutOfSubset('a conditional group or a group it refers to inside a repeat other than ?')
        out = {G: EPS()}
        for G2, r in tr_seq_g(p, False, False, flags, rel, G).items():
            _merge(out, G2, r)
        return out
    if op in (sre_c.ASSERT, sre_c.ASSERT_NOT):
        raise OutOfSubset('look-ahead in a pattern with conditional groups')
    return {G: tr(op, av, head, tail, flags, open_)}


def tr(op, av, head, tail, flags, open_=False):
    if op is sre_c.LITERAL:
        return z3.Re(_ch(av))
    if op is sre_c.NOT_LITERAL:
        return _union(_range(a, b) for a, b in _negate([(av, av)]))
    if op is sre_c.ANY:
        return _union(_range(a, b) for a, b in _negate([(10, 10)]))
    if op is sre_c.IN:
        rs, neg = set_ranges(av, flags)
        if neg:
            rs = _negate(rs)
        return _union(_range(a, b) for a, b in rs)
    if op is sre_c.BRANCH:
        return _union(tr_seq(alt, head, tail, flags, open_) for alt in av[1])
    if op is sre_c.SUBPATTERN:
        group, add, dele, p = av
        if add or dele:
            raise OutOfSubset('inline regex flags')
        return tr_seq(p, head, tail, flags, open_)
    if op in (sre_c.MAX_REPEAT, sre_c.MIN_REPEAT):
        lo, hi, p = av
        body = tr_seq(p, False, False, flags)
        if hi is sre_c.MAXREPEAT:
            if lo == 0:
                return z3.Star(body)
            if lo == 1:
                return z3.Plus(body)
            return z3.Concat(z3.Loop(body, lo, lo), z3.Star(body))
        if lo == 0 and hi == 1:
            return z3.Option(body)
        return z3.Loop(body, lo, hi)
    if op is sre_c.AT:
        if av is sre_c.AT_BEGINNING:
            if not head:
                raise OutOfSubset('^ not in head position')
            return EPS()
        if av is sre_c.AT_END:
            if not tail:
                raise OutOfSubset('$ not in tail position')
            return z3.Union(EPS(), z3.Re(z3.StringVal('\n')))
        if av is sre_c.AT_BEGINNING_STRING:
            if not head:
                raise OutOfSubset('\\A not in head position')
            return EPS()
        if av is sre_c.AT_END_STRING:           # \Z: only at the very end (no optional final newline, unlike $)
            if not tail:
                raise OutOfSubset('\\Z not in tail position')
            return EPS()
        raise OutOfSubset('regex anchor %s' % av)
    raise OutOfSubset('regex node %s' % op)


def parse(pattern):
    if isinstance(pattern, str):
        return sre_parse.parse(pattern, 0), 0
    if pattern.flags & (re.IGNORECASE | re.MULTILINE | re.DOTALL | re.VERBOSE | re.LOCALE):
        raise OutOfSubset('regex flags %r' % pattern.flags)
    return sre_parse.parse(pattern.pattern, pattern.flags & ~re.UNICODE), pattern.flags & ~re.UNICODE


_cache = {}


def to_z3(pattern, mode='match'):
    """mode 'match': language of s with P.match(s) != None, *assuming* the pattern ends in `$` or mode 'prefix'
    (then .Sigma* is appended)."""
    key = (pattern if isinstance(pattern, str) else (pattern.pattern, pattern.flags), mode)
    if key in _cache:
        return _cache[key]
    tree, flags = parse(pattern)
    rel = _cond_groups(tree, set())
    op_ = (mode == 'prefix')       # .match(): whatever follows a path without an end anchor is admitted, path by path
    if rel:
        r = _union(tr_seq_g(tree, True, True, flags, frozenset(rel), frozenset(), op_).values())
    else:
        r = tr_seq(tree, True, True, flags, op_)
    _cache[key] = r
    return r


def ends_with_dollar(pattern):
    tree, _ = parse(pattern)

    def last_is_end(seq):
        items = list(seq)
        if not items:
            return False
        op, av = items[-1]
        if op is sre_c.AT and av in (sre_c.AT_END, sre_c.AT_END_STRING):
            return True
        if op is sre_c.BRANCH:
            return all(last_is_end(a) for a in av[1])
        if op is sre_c.SUBPATTERN:
            return last_is_end(av[3])
        return False
    return last_is_end(tree)


def lang(pattern):
    """L = { s : pattern.match(s) is not None }"""
    return to_z3(pattern, 'prefix')


# ---- queries ---------------------------------------------------------------------
def _solver(timeout_ms):
    s = z3.Solver()
    s.set('timeout', timeout_ms)
    return s


def witness_in(r, timeout_ms=20000, extra=None):
    """(verdict, string): a string in regex r, or unsat if r is empty"""
    s = _solver(timeout_ms)
    x = z3.String('x')
    s.add(z3.InRe(x, r))
    if extra is not None:
        s.add(extra(x))
    c = s.check()
    if c == z3.sat:
        return 'sat', s.model().eval(x, model_completion=True).as_string()
    return ('unsat' if c == z3.unsat else 'unknown'), None


def subset(a, b, timeout_ms=20000):
    """L(a) subseteq L(b)?  -> ('unsat', None) when it holds, ('sat', witness) otherwise"""
    return witness_in(z3.Intersect(a, z3.Complement(b)), timeout_ms)


def disjoint(a, b, timeout_ms=20000):
    return witness_in(z3.Intersect(a, b), timeout_ms)


def unescape(s):
    """z3 prints non-ASCII characters as \\u{..}; turn a model string back into Python text"""
    return re.sub(r'\\u\{([0-9a-fA-F]+)\}', lambda m: chr(int(m.group(1), 16)), s)
