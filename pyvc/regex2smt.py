"""Python `re` pattern  ->  SMT-LIB (z3) regular expression, from the pattern's own parse tree.

Supported nodes: LITERAL, NOT_LITERAL, IN (literals, ranges, \\d, \\s, \\w negation excluded), ANY, BRANCH,
SUBPATTERN (flags-free), MAX_REPEAT / MIN_REPEAT, AT_BEGINNING (only in head position), AT_END (only in tail
position; = epsilon | "\\n").  Anything else raises OutOfSubset.  `P.match(s)`/`P.fullmatch` semantics:
a backtracking engine finds a match iff one exists, so  P.match(s) succeeds  <=>  s in L(tree) . Sigma*  and, for
a pattern ending in `$`,  <=>  s in L(body) . (eps | "\\n").
"""
import re
import sys
import functools

import z3

from .core import OutOfSubset

try:
    import re._parser as sre_parse
    import re._constants as sre_c
except ImportError:          # pragma: no cover
    import sre_parse
    import sre_constants as sre_c

MAXCHAR = 0x2FFFF     # z3's character sort


def _ch(c):
    return z3.StringVal(chr(c))


@functools.lru_cache(None)
def category_ranges(cat, ascii_only=False):
    """code-point ranges of a category, obtained from the real `re` engine"""
    pat = {'digit': r'\d', 'space': r'\s', 'word': r'\w'}[cat]
    p = re.compile(pat, re.ASCII if ascii_only else 0)
    out = []
    start = None
    for c in range(0, MAXCHAR + 2):
        ok = c <= MAXCHAR and p.match(chr(c)) is not None
        if ok and start is None:
            start = c
        elif not ok and start is not None:
            out.append((start, c - 1))
            start = None
    return tuple(out)


def _range(a, b):
    if a == b:
        return z3.Re(_ch(a))
    return z3.Range(_ch(a), _ch(b))


def _union(rs):
    rs = list(rs)
    if not rs:
        return z3.Empty(z3.ReSort(z3.StringSort()))
    if len(rs) == 1:
        return rs[0]
    return z3.Union(*rs)


def _concat(rs):
    rs = list(rs)
    if not rs:
        return z3.Re(z3.StringVal(''))
    if len(rs) == 1:
        return rs[0]
    return z3.Concat(*rs)


EPS = lambda: z3.Re(z3.StringVal(''))


def set_ranges(items, flags=0):
    """IN node -> list of (lo,hi) ranges, negation flag"""
    neg = False
    rs = []
    for op, av in items:
        if op is sre_c.NEGATE:
            neg = True
        elif op is sre_c.LITERAL:
            rs.append((av, av))
        elif op is sre_c.RANGE:
            rs.append(av)
        elif op is sre_c.CATEGORY:
            if av is sre_c.CATEGORY_DIGIT:
                rs.extend(category_ranges('digit', bool(flags & re.ASCII)))
            elif av is sre_c.CATEGORY_SPACE:
                rs.extend(category_ranges('space', bool(flags & re.ASCII)))
            elif av is sre_c.CATEGORY_WORD:
                rs.extend(category_ranges('word', bool(flags & re.ASCII)))
            else:
                raise OutOfSubset('regex category %s' % av)
        else:
            raise OutOfSubset('regex set item %s' % op)
    return rs, neg


def _negate(rs):
    rs = sorted(rs)
    out = []
    cur = 0
    for a, b in rs:
        if a > cur:
            out.append((cur, a - 1))
        cur = max(cur, b + 1)
    if cur <= MAXCHAR:
        out.append((cur, MAXCHAR))
    return out


def tr_seq(seq, head, tail, flags):
    items = list(seq)
    out = []
    for i, (op, av) in enumerate(items):
        h = head and i == 0
        t = tail and i == len(items) - 1
        out.append(tr(op, av, h, t, flags))
    return _concat(out)


def tr(op, av, head, tail, flags):
    if op is sre_c.LITERAL:
        return z3.Re(_ch(av))
    if op is sre_c.NOT_LITERAL:
        return _union(_range(a, b) for a, b in _negate([(av, av)]))
    if op is sre_c.ANY:
        return _union(_range(a, b) for a, b in _negate([(10, 10)]))
    if op is sre_c.IN:
        rs, neg = set_ranges(av, flags)
        if neg:
            rs = _negate(rs)
        return _union(_range(a, b) for a, b in rs)
    if op is sre_c.BRANCH:
        return _union(tr_seq(alt, head, tail, flags) for alt in av[1])
    if op is sre_c.SUBPATTERN:
        group, add, dele, p = av
        if add or dele:
            raise OutOfSubset('inline regex flags')
        return tr_seq(p, head, tail, flags)
    if op in (sre_c.MAX_REPEAT, sre_c.MIN_REPEAT):
        lo, hi, p = av
        body = tr_seq(p, False, False, flags)
        if hi is sre_c.MAXREPEAT:
            if lo == 0:
                return z3.Star(body)
            if lo == 1:
                return z3.Plus(body)
            return z3.Concat(z3.Loop(body, lo, lo), z3.Star(body))
        if lo == 0 and hi == 1:
            return z3.Option(body)
        return z3.Loop(body, lo, hi)
    if op is sre_c.AT:
        if av is sre_c.AT_BEGINNING:
            if not head:
                raise OutOfSubset('^ not in head position')
            return EPS()
        if av is sre_c.AT_END:
            if not tail:
                raise OutOfSubset('$ not in tail position')
            return z3.Union(EPS(), z3.Re(z3.StringVal('\n')))
        if av is sre_c.AT_BEGINNING_STRING:
            if not head:
                raise OutOfSubset('\\A not in head position')
            return EPS()
        if av is sre_c.AT_END_STRING:           # \Z: only at the very end (no optional final newline, unlike $)
            if not tail:
                raise OutOfSubset('\\Z not in tail position')
            return EPS()
        raise OutOfSubset('regex anchor %s' % av)
    raise OutOfSubset('regex node %s' % op)


def parse(pattern):
    if isinstance(pattern, str):
        return sre_parse.parse(pattern, 0), 0
    if pattern.flags & (re.IGNORECASE | re.MULTILINE | re.DOTALL | re.VERBOSE | re.LOCALE):
        raise OutOfSubset('regex flags %r' % pattern.flags)
    return sre_parse.parse(pattern.pattern, pattern.flags & ~re.UNICODE), pattern.flags & ~re.UNICODE


_cache = {}


def to_z3(pattern, mode='match'):
    """mode 'match': language of s with P.match(s) != None, *assuming* the pattern ends in `$` or mode 'prefix'
    (then .Sigma* is appended)."""
    key = (pattern if isinstance(pattern, str) else (pattern.pattern, pattern.flags), mode)
    if key in _cache:
        return _cache[key]
    tree, flags = parse(pattern)
    r = tr_seq(tree, True, True, flags)
    if mode == 'prefix':
        r = z3.Concat(r, z3.Full(z3.ReSort(z3.StringSort())))
    _cache[key] = r
    return r


def ends_with_dollar(pattern):
    tree, _ = parse(pattern)

    def last_is_end(seq):
        items = list(seq)
        if not items:
            return False
        op, av = items[-1]
        if op is sre_c.AT and av in (sre_c.AT_END, sre_c.AT_END_STRING):
            return True
        if op is sre_c.BRANCH:
            return all(last_is_end(a) for a in av[1])
        if op is sre_c.SUBPATTERN:
            return last_is_end(av[3])
        return False
    return last_is_end(tree)


def lang(pattern):
    """L = { s : pattern.match(s) is not None }"""
    return to_z3(pattern, 'match' if ends_with_dollar(pattern) else 'prefix')


# ---- queries ---------------------------------------------------------------------
def _solver(timeout_ms):
    s = z3.Solver()
    s.set('timeout', timeout_ms)
    return s


def witness_in(r, timeout_ms=20000, extra=None):
    """(verdict, string): a string in regex r, or unsat if r is empty"""
    s = _solver(timeout_ms)
    x = z3.String('x')
    s.add(z3.InRe(x, r))
    if extra is not None:
        s.add(extra(x))
    c = s.check()
    if c == z3.sat:
        return 'sat', s.model().eval(x, model_completion=True).as_string()
    return ('unsat' if c == z3.unsat else 'unknown'), None


def subset(a, b, timeout_ms=20000):
    """L(a) subseteq L(b)?  -> ('unsat', None) when it holds, ('sat', witness) otherwise"""
    return witness_in(z3.Intersect(a, z3.Complement(b)), timeout_ms)


def disjoint(a, b, timeout_ms=20000):
    return witness_in(z3.Intersect(a, b), timeout_ms)


def unescape(s):
    """z3 prints non-ASCII characters as \\u{..}; turn a model string back into Python text"""
    return re.sub(r'\\u\{([0-9a-fA-F]+)\}', lambda m: chr(int(m.group(1), 16)), s)
