"""Symbolic binary64 floats:  <exact real value e, certified absolute error bound err, magnitude bound>.

The SMT solver never sees rounding: `e` is the exact value of the *ideal* computation (an affine form over the
symbolic integer/real inputs with rational coefficients, plus the z3 term), `err` is a rational bound on
|computed - e| obtained by forward error analysis (IEEE-754 round-to-nearest, u = 2^-53), `mag` bounds |e|.
Discontinuous uses (int/floor/ceil, comparisons against a threshold) generate *robustness* side conditions that
are decided exactly in rational arithmetic from the affine form (DESIGN §2.4)."""
from fractions import Fraction
from decimal import Decimal
import math

import z3

from .core import ctx, OutOfSubset
from .values import Sym, SBool, SInt, SReal, mkbool, mkint, mkreal, zint, zreal

U = Fraction(1, 2 ** 53)
TWO1024 = 2 ** 1024


def lift_const(c):
    """concrete float -> (short rational r, exact |c - r|)"""
    if isinstance(c, bool):
        c = int(c)
    if isinstance(c, int):
        return Fraction(c), Fraction(0)
    if isinstance(c, Fraction):
        return c, Fraction(0)
    if isinstance(c, Decimal):
        return Fraction(c), Fraction(0)
    exact = Fraction(c)
    r = Fraction(repr(c))
    if r.denominator > 10 ** 9:
        r = exact.limit_denominator(10 ** 6)
    return r, abs(exact - r)


class Aff(object):
    """affine form  c0 + sum ci*vi  over declared symbolic variables (name -> Fraction coefficient)"""
    __slots__ = ('c0', 'cs')

    def __init__(self, c0=0, cs=None):
        self.c0 = Fraction(c0)
        self.cs = {k: v for k, v in (cs or {}).items() if v != 0}

    def add(self, o, sign=1):
        cs = dict(self.cs)
        for k, v in o.cs.items():
            cs[k] = cs.get(k, 0) + sign * v
        return Aff(self.c0 + sign * o.c0, cs)

    def scale(self, r):
        return Aff(self.c0 * r, {k: v * r for k, v in self.cs.items()})

    def is_const(self):
        return not self.cs

    def bounds(self):
        c = ctx()
        lo = hi = self.c0
        for k, v in self.cs.items():
            a, b = c.var_ranges[k][:2]
            if a is None or b is None:
                return None, None
            lo += min(v * a, v * b)
            hi += max(v * a, v * b)
        return lo, hi

    def term(self):
        c = ctx()
        t = z3.RealVal(str(self.c0)) if self.c0.denominator != 1 else z3.RealVal(self.c0.numerator)
        for k, v in sorted(self.cs.items()):
            x = c.var_ranges[k][2]
            x = z3.ToReal(x) if z3.is_int(x) else x
            t = t + z3.RealVal(str(v)) * x
        return t

    def all_int_vars(self):
        c = ctx()
        return all(z3.is_int(c.var_ranges[k][2]) for k in self.cs)

    def lattice(self):
        """(D, off): for integer variables the value lies in  off/D + Z/D  with 0 <= off < 1 (off = frac(c0*D))"""
        D = 1
        for v in self.cs.values():
            D = D * v.denominator // math.gcd(D, v.denominator)
        x = self.c0 * D
        off = x - math.floor(x)
        return D, off

    def __repr__(self):
        return 'Aff(%s%s)' % (self.c0, ''.join(' + %s*%s' % (v, k) for k, v in sorted(self.cs.items())))


def declare_var(name, term, lo=None, hi=None):
    c = ctx()
    c.var_ranges[name] = (None if lo is None else Fraction(lo), None if hi is None else Fraction(hi), term)


def sym_int_var(name, lo, hi):
    """a symbolic integer input usable in affine forms"""
    c = ctx()
    v = z3.Int(name)
    c.declare_input(name, v)
    c.assume(z3.And(v >= lo, v <= hi))
    declare_var(name, v, lo, hi)
    return v


class SFloat(Sym):
    """a binary64 value known as exact-value + error bound"""
    __slots__ = ('aff', '_t', 'err', 'mag', 'note', 'nearest', 'zsafe', 'xrep', 'cf')
    _pytype = float

    @property
    def t(self):
        if self._t is None:
            self._t = self.aff.term()      # the z3 term is built only when a solver query needs it
        return self._t

    def __init__(self, aff=None, t=None, err=0, mag=None, note=None):
        self.aff = aff
        self._t = t
        self.err = Fraction(err)
        if mag is None:
            lo, hi = aff.bounds() if aff is not None else (None, None)
            if lo is None:
                raise OutOfSubset('float without magnitude bound')
            mag = max(abs(lo), abs(hi))
        self.mag = Fraction(mag)
        self.note = note
        self.nearest = False       # True: the computed value is the double nearest to the exact value (integers are then exact)
        self.zsafe = False         # True: computed >= 0, and computed == 0 exactly when the exact value is 0
        self.xrep = False          # True: whenever the exact value is itself a double, the computed value equals it
        self.cf = None             # concrete shadow: env {declared int var: value} -> the double CPython computes (None: unknown)

    def is_xrep(self):
        return self.err == 0 or self.nearest or self.xrep

    def _nonneg_exact_integer(self):
        if self.err != 0 or self.aff is None or not self.aff.all_int_vars():
            return False
        D, off = self.aff.lattice()
        lo, hi = self.aff.bounds()
        return D == 1 and off == 0 and lo is not None and lo >= 0

    # -- construction ------------------------------------------------------------
    @classmethod
    def of_int(cls, n):
        """float(n) for a symbolic int: exact when |n| < 2^53"""
        if isinstance(n, SInt):
            aff = aff_of_int(n)
            s = cls(aff, None, 0)
            if aff.all_int_vars():
                s.cf = _cf_int(aff)
            if s.mag >= 2 ** 53:
                s.err = s.mag * U
            lo, hi = aff.bounds()
            s.zsafe = lo is not None and lo >= 0
            return s
        return cls.const(n)

    @classmethod
    def const(cls, c):
        r, e = lift_const(c)
        x = cls(Aff(r), None, e, abs(r))
        x.zsafe = r >= 0 and (r != 0 or e == 0)
        if isinstance(c, float):
            x.note = ('const', c)          # the double itself (the affine form carries a short rational +- err)
        if isinstance(c, (int, float)) and not isinstance(c, bool):
            cv = float(c)
            x.cf = lambda env, cv=cv: cv
        return x

    def exact(self):
        return self.err == 0

    def __repr__(self):
        return 'SFloat(%s +- %.3g)' % (self.aff if self.aff is not None else self.t, float(self.err))

    # -- arithmetic --------------------------------------------------------------
    @staticmethod
    def _co(o):
        if isinstance(o, SFloat):
            return o
        if isinstance(o, SInt):
            return SFloat.of_int(o)
        if isinstance(o, (int, float, Fraction)) and not isinstance(o, bool):
            if isinstance(o, float) and (o != o or o in (float('inf'), float('-inf'))):
                raise OutOfSubset('non-finite float constant')
            return SFloat.const(o)
        if isinstance(o, bool):
            return SFloat.const(int(o))
        return None

    def _addsub(self, o, sign, rev=False):
        o = self._co(o)
        if o is None:
            return NotImplemented
        a, b = (o, self) if rev else (self, o)
        if a.aff is not None and b.aff is not None:
            aff = a.aff.add(b.aff, sign)
            t = None
        else:
            aff, t = None, (a.t + b.t if sign > 0 else a.t - b.t)
        r = SFloat(aff, t, 0, a.mag + b.mag)
        if aff is not None:
            lo, hi = aff.bounds()
            if lo is not None:
                r.mag = max(abs(lo), abs(hi))
        r.err = a.err + b.err + U * (r.mag + a.err + b.err)
        r.zsafe = sign > 0 and a.zsafe and b.zsafe      # a sum of non-negative values is 0 iff all of them are
        if a.cf is not None and b.cf is not None:
            r.cf = (lambda env, f=a.cf, g=b.cf: f(env) + g(env)) if sign > 0 else (lambda env, f=a.cf, g=b.cf: f(env) - g(env))
        if sign > 0 and r.mag < 2 ** 52:
            # n + x with n a non-negative integer (exact) and x >= 0 exact-when-representable: if the exact sum e is a double,
            # n is a multiple of ulp(e) (ulp(e) <= 1 divides integers), so x = e - n is a multiple of ulp(e) below e, hence a
            # double, hence computed exactly, and the sum n + x = e is then exact too
            for n, x in ((a, b), (b, a)):
                if n._nonneg_exact_integer() and x.is_xrep() and x.zsafe:
                    r.xrep = True
        return r

    def __add__(self, o): return self._addsub(o, 1)
    def __radd__(self, o): return self._addsub(o, 1, True)
    def __sub__(self, o):
        c = ctx()
        if isinstance(o, SInt) and self.err == 0 and c.floor_of.get(str(o.t)) == str(self.t):
            # x - int(x) is exact in binary64 (IEEE-754 exactness axiom)
            c.assumptions.add('IEEE-754: x - int(x) is computed exactly')
            nm = 'frac_' + str(o.t)
            declare_var(nm, self.t - z3.ToReal(o.t), -1, 1)
            r = SFloat(Aff(0, {nm: Fraction(1)}), self.t - z3.ToReal(o.t), 0, 1)
            return r
        return self._addsub(o, -1)
    def __rsub__(self, o): return self._addsub(o, -1, True)

    def __neg__(self):
        r = SFloat(self.aff.scale(-1) if self.aff is not None else None, None if self.aff is not None else -self.t, self.err, self.mag)
        r.nearest = self.nearest
        if self.cf is not None:
            r.cf = lambda env, f=self.cf: -f(env)
        return r

    def __pos__(self):
        return self

    def __mul__(self, o, rev=False):
        o = self._co(o)
        if o is None:
            return NotImplemented
        a, b = self, o
        if b.aff is not None and b.aff.is_const():
            a, b = b, a
        if a.aff is not None and a.aff.is_const():
            r_ = a.aff.c0
            aff = b.aff.scale(r_) if b.aff is not None else None
            t = None if aff is not None else z3.RealVal(str(r_)) * b.t
        else:
            aff, t = None, a.t * b.t          # non-affine: robustness analysis unavailable downstream
        r = SFloat(aff, t, 0, a.mag * b.mag)
        if aff is not None:
            lo, hi = aff.bounds()
            if lo is not None:
                r.mag = max(abs(lo), abs(hi))
        r.err = a.mag * b.err + b.mag * a.err + a.err * b.err
        r.err += U * (r.mag + r.err)
        r.zsafe = a.zsafe and b.zsafe and r.mag < 2 ** 500
        if self.cf is not None and o.cf is not None:
            r.cf = lambda env, f=self.cf, g=o.cf: f(env) * g(env)
        return r

    def __rmul__(self, o):
        return self.__mul__(o)

    def __truediv__(self, o):
        o = self._co(o)
        if o is None:
            return NotImplemented
        if not (o.aff is not None and o.aff.is_const()):
            return self._div_sym(o)
        d = o.aff.c0
        if d == 0 and o.err == 0:
            raise ZeroDivisionError('float division by zero')
        if abs(d) <= o.err:
            raise OutOfSubset('division by an inexact constant near zero')
        aff = self.aff.scale(1 / d) if self.aff is not None else None
        t = None if aff is not None else self.t / z3.RealVal(str(d))
        r = SFloat(aff, t, 0, self.mag / abs(d))
        if aff is not None:
            lo, hi = aff.bounds()
            if lo is not None:
                r.mag = max(abs(lo), abs(hi))
        # |x~/d~ - x/d| <= err_x/|d~| + |x| |1/d~ - 1/d|
        dmin = abs(d) - o.err
        r.err = self.err / dmin + self.mag * o.err / (abs(d) * dmin)
        r.err += U * (r.mag + r.err)
        if self.cf is not None and o.cf is not None:
            r.cf = lambda env, f=self.cf, g=o.cf: f(env) / g(env)
        return r

    def _div_sym(self, o):
        """division by a symbolic float whose exact value is bounded away from zero (non-affine result)"""
        c = ctx()
        lo = hi = None
        if o.aff is not None:
            lo, hi = o.aff.bounds()
        if (lo is not None and lo >= 0 and o.aff is not None and o.aff.all_int_vars() and lo <= o.err
                and not c.feasible(o.t == 0)):
            # a non-negative value on a lattice of step 1/D that the path condition makes non-zero is at least one step
            D, off = o.aff.lattice()
            step = (off / D) if off > 0 else Fraction(1, D)
            if step > 2 * o.err:
                lo = step
                # a lattice step is a poor lower bound when the value is in fact large: ask the solver (path-sensitive)
                if self.mag * o.err / (step * step) > Fraction(1, 10 ** 9):
                    lo2, _ = _opt_bounds(o.t, ('min',), 600)
                    if lo2 is not None and lo2 > lo:
                        lo = lo2
        if lo is None or (lo <= o.err and hi >= -o.err):
            lo, hi = _opt_bounds(o.t)             # path-sensitive bounds from the solver (linear objective)
        if (lo is None or (lo <= o.err and hi >= -o.err)) and o.aff is not None and len(o.aff.cs) == 1 and o.aff.all_int_vars():
            # an affine function of ONE integer variable: its exact range under the path condition by bisection with
            # plain satisfiability checks (the optimiser may time out on long path conditions)
            (name, cv), = o.aff.cs.items()
            vr = _var_range_under_pc(name)
            if vr is not None:
                ends = [o.aff.c0 + cv * vr[0], o.aff.c0 + cv * vr[1]]
                lo, hi = min(ends), max(ends)
        if lo is None or (lo <= o.err and hi >= -o.err):
            # the divisor may be zero: fork on it
            if c.decide(o.t == 0) if o.err == 0 else False:
                raise ZeroDivisionError('float division by zero')
            raise OutOfSubset('division by a symbolic float not bounded away from zero')
        dmin = (lo if lo > 0 else -hi) - o.err
        r = SFloat(None, self.t / o.t, 0, self.mag / dmin)
        r.err = self.err / dmin + self.mag * o.err / (dmin * dmin)
        r.err += U * (r.mag + r.err)
        if self.aff is not None and self.aff.is_const() and self.err == 0 and lo is not None and lo > 0:
            r.note = ('quot', self.aff.c0, o)          # a constant over a positive symbolic divisor (see _cmp)
        if self.cf is not None and o.cf is not None:
            r.cf = lambda env, f=self.cf, g=o.cf: f(env) / g(env)
        return r

    def __rtruediv__(self, o):
        a = self._co(o)
        if a is None:
            return NotImplemented
        return a._div_sym(self) if not (self.aff is not None and self.aff.is_const()) else a.__truediv__(self)

    # -- discontinuous uses --------------------------------------------------------
    def _floor_int(self, what):
        """the integer floor(e) as an SInt defined by integer-only constraints; robustness decided exactly.

        Returns (SInt floor of the exact value, robust: bool, margin info)"""
        c = ctx()
        if self.aff is None or not self.aff.all_int_vars():
            raise OutOfSubset('%s() of a non-affine float' % what)
        D, off = self.aff.lattice()
        # fractional parts of e lie in { (off + j)/D : j = 0..D-1 }   (a superset of those that occur)
        m_lo = off / D                      # smallest possible fractional part
        m_hi = (1 - off) / D                # smallest possible distance up to the next integer
        if self.err == 0:
            robust = True
        elif self.is_xrep() and self.mag < 2 ** 52:
            # an integer exact value is representable, hence computed exactly (nearest double / exact-when-representable);
            # every other lattice point is >= 1/D from an integer
            robust = (off == 0 or m_lo > self.err) and m_hi > self.err and Fraction(1, D) > self.err
        else:
            robust = (m_lo >= self.err and m_lo > 0 and m_hi > self.err) or (m_lo > self.err and m_hi > self.err)
        if not robust and self.cf is not None:
            robust = self._robust_by_evaluation()
        # r = floor(e):  r*Den <= Num < (r+1)*Den  with e = Num/Den, integer coefficients
        Den = D * self.aff.c0.denominator // math.gcd(D, self.aff.c0.denominator)
        num = z3.IntVal(int(self.aff.c0 * Den))
        for k, v in sorted(self.aff.cs.items()):
            num = num + z3.IntVal(int(v * Den)) * c.var_ranges[k][2]
        r = c.fresh('fl')
        c.assume(z3.And(r * Den <= num, num < (r + 1) * Den))
        lo, hi = self.aff.bounds()
        rname = str(r)
        declare_var(rname, r, math.floor(lo), math.floor(hi))
        info = dict(D=D, m_lo=m_lo, m_hi=m_hi, err=self.err, what=what)
        return r, robust, info

    def _robust_by_evaluation(self, limit=60000):
        """the truncation is fragile only at the inputs whose exact value lies within err of an integer; when the declared
        integer inputs range over few enough values, evaluate the double CPython computes at every such input (concrete
        shadow function) and accept iff its floor is the floor of the exact value everywhere (path condition ignored: a
        superset of the inputs)"""
        import itertools
        c = ctx()
        names = sorted(self.aff.cs)
        rngs = []
        total = 1
        for n in names:
            lo, hi, _ = c.var_ranges[n]
            if lo is None or hi is None:
                return False
            lo, hi = math.ceil(lo), math.floor(hi)
            total *= max(1, hi - lo + 1)
            if total > limit:
                return False
            rngs.append(range(lo, hi + 1))
        for vals in itertools.product(*rngs):
            e = self.aff.c0 + sum(self.aff.cs[n] * v for n, v in zip(names, vals))
            fl = math.floor(e)
            if e - fl > self.err and fl + 1 - e > self.err:
                continue
            try:
                x = self.cf(dict(zip(names, vals)))
            except (KeyError, ZeroDivisionError, OverflowError):
                return False
            if x != x or math.floor(x) != fl:
                return False
        c.assumptions.add('truncations whose margin analysis fails are checked by evaluating the double at every input within the error zone (finite input ranges)')
        return True

    def _robust_or_oblige(self, robust, info):
        c = ctx()
        name = 'float-robustness/%s' % info['what']
        meta = dict(margin_below=str(info['m_lo']), margin_above=str(info['m_hi']), err='%.3e' % float(info['err']), lattice=info['D'])
        c.oblige(name, bool(robust), 'robustness', meta=meta)

    def _sym_int(self, *a):
        c = ctx()
        if self.aff is not None and self.aff.is_const() and self.err == 0:
            return int(self.aff.c0)
        if self.err == 0 and not (self.aff is not None and self.aff.all_int_vars()):
            # the value is a known double: int() is exact truncation
            r = c.fresh('fl')
            if c.decide(self.t >= 0):
                c.assume(z3.And(z3.ToReal(r) <= self.t, self.t < z3.ToReal(r) + 1))
            else:
                c.assume(z3.And(z3.ToReal(r) >= self.t, self.t > z3.ToReal(r) - 1))
            c.floor_of[str(r)] = str(self.t)
            if self.aff is not None:
                lo, hi = self.aff.bounds()
                if lo is not None:
                    declare_var(str(r), r, math.floor(lo), math.ceil(hi))
            return SInt(r)
        if self.aff is not None and not self.aff.all_int_vars() and self.err > 0:
            # a computed double within err of an exact value that ranges over the REALS (no lattice to decide robustness on):
            # its truncation is some integer between floor(e - err) and floor(e + err)  (sound over-approximation)
            lo, hi = self.aff.bounds()
            if lo is not None and lo >= -self.err:
                r2 = c.fresh('fli')
                E = z3.RealVal(str(self.err))
                c.assume(z3.And(z3.ToReal(r2) <= self.t + E, z3.ToReal(r2) + 1 > self.t - E, r2 >= 0))
                declare_var(str(r2), r2, max(0, math.floor(lo - self.err)), math.floor(hi + self.err))
                return SInt(r2)
        r, robust, info = self._floor_int('int')
        if not robust and getattr(c, 'nonrobust_int', None) == 'choose' and self.aff.bounds()[0] is not None and (self.zsafe or self.aff.bounds()[0] >= self.err):
            # contract mode chosen by the driver: the truncation of a value within err of e is any integer between
            # floor(e - err) and floor(e + err) (no robustness obligation; the caller's contract must tolerate it)
            # one value has one truncation: the same exact term truncated twice on a path (a function called twice with the
            # same argument) gives the same integer - floating-point evaluation is deterministic
            memo = c.__dict__.setdefault('int_choice_memo', {})
            k = (self.t.get_id(), str(self.err))
            if k in memo:
                return SInt(memo[k][1])
            r2 = c.fresh('fli')
            memo[k] = (self.t, r2)
            E = z3.RealVal(str(self.err))
            c.assume(z3.And(z3.ToReal(r2) <= self.t + E, z3.ToReal(r2) + 1 > self.t - E, r2 >= 0))
            lo, hi = self.aff.bounds()
            declare_var(str(r2), r2, math.floor(lo - self.err), math.floor(hi + self.err))
            return SInt(r2)
        self._robust_or_oblige(robust, info)
        # int() truncates toward zero: = floor for e >= 0
        lo, hi = self.aff.bounds()
        if lo is not None and lo >= 0:
            return SInt(r)
        if c.decide(self.t >= 0):
            return SInt(r)
        # negative: trunc = -floor(-e) = ceil(e)
        D, off = self.aff.lattice()
        is_int = c.decide(self.t == z3.ToReal(r))
        return SInt(r) if is_int else mkint(r + 1)

    def _sym_floor(self):
        r, robust, info = self._floor_int('floor')
        self._robust_or_oblige(robust, info)
        return SInt(r)

    def _sym_ceil(self):
        n = -self
        r, robust, info = n._floor_int('ceil')
        self._robust_or_oblige(robust, info)
        return mkint(-r)

    def _cmp(self, o, op):
        """comparison against a threshold: exact outside the error zone, both outcomes inside it"""
        o = self._co(o)
        if o is None:
            return NotImplemented
        err = self.err + o.err
        c = ctx()
        if self.zsafe and o.aff is not None and o.aff.is_const() and o.aff.c0 == 0 and o.err == 0:
            # sign and zero-ness of a zero-safe value are those of its exact value
            et = self.t
            return mkbool({'<': z3.BoolVal(False), '<=': et == 0, '>': et != 0, '>=': z3.BoolVal(True), '==': et == 0, '!=': et != 0}[op])
        dt = (self.aff.add(o.aff, -1).term() if (self.aff is not None and o.aff is not None) else self.t - o.t)
        if self.aff is not None and o.aff is not None:
            lo, hi = self.aff.add(o.aff, -1).bounds()
            if lo is not None:               # static interval pre-check: no solver call
                if lo > err:
                    return op in ('>', '>=', '!=')
                if hi < -err:
                    return op in ('<', '<=', '!=')
        if err == 0:
            return mkbool({'<': dt < 0, '<=': dt <= 0, '>': dt > 0, '>=': dt >= 0, '==': dt == 0, '!=': dt != 0}[op])
        q = self._cmp_quot(o, op)
        if q is not None:
            return q
        E = z3.RealVal(str(err))
        if c.decide(dt > E):
            return op in ('>', '>=', '!=')
        if c.decide(dt < -E):
            return op in ('<', '<=', '!=')
        # inside the zone: a value that is the double NEAREST to its exact value e (e on a lattice off/D + Z/D relative to K)
        # against a constant double K: with 1/D > 2 err at most one lattice point e* lies in the zone, the computed value is
        # then float(e*) (CPython converts a Fraction correctly rounded), and the comparison is that of two known doubles
        import operator
        for a, b, flip in ((self, o, False), (o, self, True)):
            if not (b.aff is not None and b.aff.is_const()):
                continue
            if b.err == 0 and Fraction(float(b.aff.c0)) == b.aff.c0:
                Kd = float(b.aff.c0)
            elif isinstance(b.note, tuple) and b.note[0] == 'const':
                Kd = b.note[1]
            else:
                continue
            if a.nearest and a.aff is not None and a.aff.all_int_vars() and a.mag < 2 ** 52:
                K = b.aff.c0
                D, off = a.aff.add(b.aff, -1).lattice()
                if Fraction(1, D) > 2 * err:
                    cands = [dl for dl in (off / D, (off - 1) / D) if abs(dl) <= err]
                    if not cands:
                        c.assume(False)                     # no lattice point in the zone: the path does not exist
                    delta = cands[0]
                    c.assume(dt == (z3.RealVal(str(delta)) if not flip else z3.RealVal(str(-delta))))
                    fa, fb = float(K + delta), Kd
                    if flip:
                        fa, fb = fb, fa
                    return {'<': operator.lt, '<=': operator.le, '>': operator.gt, '>=': operator.ge, '==': operator.eq, '!=': operator.ne}[op](fa, fb)
        pin = self._pin_zone(o, dt, err, op)
        if pin is not None:
            return pin
        c.notes.append(('float-compare-in-error-zone', op))
        return c.decide(c.fresh('fcmp', 'bool'))

    def _pin_zone(self, o, dt, err, op):
        """inside the zone, when the exact difference depends on ONE declared integer variable and only one value v0 of it
        puts the difference within err of 0, the inputs of both sides are known: evaluate the two doubles as CPython does
        (concrete shadow functions composed through the same operations) and compare them"""
        import operator
        if self.cf is None or o.cf is None or self.aff is None or o.aff is None:
            return None
        d = self.aff.add(o.aff, -1)
        if len(d.cs) != 1 or not d.all_int_vars():
            return None
        c = ctx()
        (name, cv), = d.cs.items()
        # every variable either side reads must be this one
        if set(self.aff.cs) - {name} or set(o.aff.cs) - {name}:
            return None
        lo_, hi_ = sorted([(-err - d.c0) / cv, (err - d.c0) / cv])
        v_lo, v_hi = math.ceil(lo_), math.floor(hi_)
        rng = c.var_ranges[name]
        if rng[0] is not None:
            v_lo = max(v_lo, math.ceil(rng[0]))
        if rng[1] is not None:
            v_hi = min(v_hi, math.floor(rng[1]))
        if v_lo > v_hi:
            c.assume(False)
        if v_lo != v_hi:
            return None
        v0 = v_lo
        c.assume(rng[2] == v0)
        try:
            fa, fb = self.cf({name: v0}), o.cf({name: v0})
        except (ZeroDivisionError, OverflowError, KeyError):
            return None
        c.assumptions.add('comparison inside a float error zone decided by evaluating both sides in CPython at the single input value in the zone')
        return {'<': operator.lt, '<=': operator.le, '>': operator.gt, '>=': operator.ge, '==': operator.eq, '!=': operator.ne}[op](fa, fb)

    def _cmp_quot(self, o, op):
        """q = fl(A/d) (A > 0 a constant double, d > 0 computed with |d - e| <= err_d) against a constant double K > 0, decided on
        the DIVISOR: with d0 = A/K and z = err_d + 4u*d0,
            e < d0 - z  =>  d < d0(1-4u)  =>  A/d > K(1+4u) > K + ulp(K)  =>  q > K      (rounding is monotone, fl(K) = K)
            e > d0 + z  =>  q < K                                                         (symmetric)
        and inside |e - d0| <= z: if d0 is a double on the lattice Z/D of e with 1/D > z, d is exact-when-representable and
        fl(A/d0) == K, then e == d0, d == d0 and q == K; otherwise the comparison may go either way."""
        for a, b, flip in ((self, o, False), (o, self, True)):
            if not (isinstance(a.note, tuple) and a.note[0] == 'quot' and b.aff is not None and b.aff.is_const() and b.err == 0 and b.aff.c0 > 0):
                continue
            A, d = a.note[1], a.note[2]
            K = b.aff.c0
            if A <= 0 or Fraction(float(A)) != A or Fraction(float(K)) != K:
                continue
            c = ctx()
            d0 = A / K
            z = d.err + 4 * U * d0
            opa = op if not flip else {'<': '>', '<=': '>=', '>': '<', '>=': '<=', '==': '==', '!=': '!='}[op]
            if c.decide(d.t < z3.RealVal(str(d0 - z))):
                return opa in ('>', '>=', '!=')
            if c.decide(d.t > z3.RealVal(str(d0 + z))):
                return opa in ('<', '<=', '!=')
            if d.is_xrep() and d.aff is not None and d.aff.all_int_vars() and d.mag < 2 ** 52 and Fraction(float(d0)) == d0 \
                    and Fraction(float(A) / float(d0)) == K:
                D, off = d.aff.add(Aff(d0), -1).lattice()
                if off == 0 and Fraction(1, D) > z:
                    c.assume(d.t == z3.RealVal(str(d0)))
                    return opa in ('>=', '<=', '==')
            c.notes.append(('float-compare-in-error-zone', op))
            return c.decide(c.fresh('fcmp', 'bool'))
        return None

    def __lt__(self, o): return self._cmp(o, '<')
    def __le__(self, o): return self._cmp(o, '<=')
    def __gt__(self, o): return self._cmp(o, '>')
    def __ge__(self, o): return self._cmp(o, '>=')

    def __eq__(self, o):
        r = self._cmp(o, '==')
        return False if r is NotImplemented else r

    def __ne__(self, o):
        r = self._cmp(o, '!=')
        return True if r is NotImplemented else r

    def __bool__(self):
        return bool(self != 0)

    def _sym_float(self):
        return self

    def _sym_printf(self, flags, width, prec, ty):
        """'%[0][w].pf' % x : digits of round(x * 10^p) (CPython: exact binary value rounded half-even); modelled as
        any integer R with |R - e*10^p| <= 1/2 + err*10^p, which covers ties and the conversion error"""
        from . import sstr as S
        if ty != 'f' or set(flags) - {'0'}:
            raise OutOfSubset('float format %r' % ty)
        c = ctx()
        c.assumptions.add("'%.nf' % x prints round(x*10^n) of the exact binary value (CPython dtoa), half-even")
        p = int(prec) if prec is not None else 6
        R = c.fresh('fmt')
        sc = z3.RealVal(10 ** p)
        slack = z3.RealVal(str(Fraction(1, 2) + self.err * 10 ** p))
        c.assume(z3.And(z3.ToReal(R) >= self.t * sc - slack, z3.ToReal(R) <= self.t * sc + slack))
        if not c.decide(self.t * sc >= -slack):
            # a negative value: '-' followed by the text of its magnitude ('%.3f' % -1e-9 is '-0.000': the sign stays)
            neg = (-self)._sym_printf(flags, width, prec, ty)
            return S.mk(['-'] + list(S.cells_of(neg)))
        c.assume(R >= 0)
        # integer part: canonical digits (forks on their number); fraction: p fixed digit cells
        I = c.fresh('fmti')
        c.assume(I >= 0)
        fcells = []
        for i in range(p):
            v = c.fresh('fd')
            c.assume(z3.And(v >= 48, v <= 57))
            c.var_ranges[str(v)] = (48, 57, v)
            fcells.append(S.Var(v, S.DIGITS))
        fv = z3.Sum([(x.cp - 48) * 10 ** (p - 1 - i) for i, x in enumerate(fcells)]) if fcells else z3.IntVal(0)
        c.assume(R == I * 10 ** p + fv)
        imax = int(self.mag) + 2
        c.var_ranges[str(I)] = (0, imax, I)
        itxt = S.str_of_int(SInt(I), max_digits=len(str(imax)))
        cells = list(S.cells_of(itxt)) + (['.'] + fcells if p else [])
        w = int(width) if width else 0
        if len(cells) < w:
            cells = (['0'] if '0' in flags else [' ']) * (w - len(cells)) + cells
        return S.mk(cells)

    def _sym_str(self):
        return self._sym_repr()

    def _sym_round(self, nd=None):
        """round(x[, nd]): the multiple of 10^-nd nearest to the binary value (ties half-even); modelled as any integer R
        with |R - e*10^nd| <= 1/2 + err*10^nd  (covers ties and the input error); the result is the double nearest R/10^nd"""
        c = ctx()
        n = 0 if nd is None else int(nd)
        if n < 0:
            raise OutOfSubset('round() to a negative number of digits')
        c.assumptions.add('round(x, n) returns the double nearest to the decimal rounding of the binary value (CPython)')
        # round is a function: rounding the same value again gives the same result (same choice at a tie)
        cache = c.__dict__.setdefault('_round_cache', {})
        hit = cache.get((id(self), nd))
        if hit is not None and hit[0] is self:
            return hit[1]
        r = self._sym_round1(nd, n)
        cache[(id(self), nd)] = (self, r)
        return r

    def _sym_round1(self, nd, n):
        c = ctx()
        sc = 10 ** n
        R = c.fresh('rnd')
        slack = z3.RealVal(str(Fraction(1, 2) + self.err * sc))
        c.assume(z3.And(z3.ToReal(R) >= self.t * sc - slack, z3.ToReal(R) <= self.t * sc + slack))
        lo = hi = None
        if self.aff is not None:
            lo, hi = self.aff.bounds()
        if lo is None:
            lo, hi = -self.mag, self.mag
        rlo = math.floor(lo * sc) - 1
        if self.zsafe:
            # the computed value is >= 0, so is its decimal rounding; the double nearest R/10^n is 0 only for R = 0
            c.assume(R >= 0)
            rlo = max(rlo, 0)
        declare_var(str(R), R, rlo, math.ceil(hi * sc) + 1)
        if nd is None:
            return SInt(R)
        r = SFloat(Aff(0, {str(R): Fraction(1, sc)}), None, 0)
        r.err = r.mag * U
        r.nearest = True
        r.zsafe = self.zsafe
        return r

    def _repr_by_enumeration(self, limit=400000, max_exceptions=48):
        import itertools
        c = ctx()
        names = sorted(self.aff.cs)
        rngs = []
        total = 1
        for n in names:
            if n not in c.var_ranges:
                return None
            lo, hi, _ = c.var_ranges[n]
            if lo is None or hi is None:
                return None
            lo, hi = math.ceil(lo), math.floor(hi)
            total *= max(1, hi - lo + 1)
            if total > limit:
                return None
            rngs.append(range(lo, hi + 1))
        key = ('repr-enum', tuple(names), tuple((r.start, r.stop) for r in rngs), id(self.cf))
        memo = _ENUM_MEMO.get(key)
        if memo is None:
            bad = []
            for vals in itertools.product(*rngs):
                e = self.aff.c0 + sum(self.aff.cs[n] * v for n, v in zip(names, vals))
                try:
                    x = self.cf(dict(zip(names, vals)))
                except (KeyError, ZeroDivisionError, OverflowError):
                    return None
                if x != float(e):
                    bad.append((vals, x))
                    if len(bad) > 30000:
                        break
            memo = _ENUM_MEMO[key] = bad
            if len(_ENUM_MEMO) > 64:
                _ENUM_MEMO.pop(next(iter(_ENUM_MEMO)))
        bad = memo
        # exceptional inputs compatible with the path (a solver call each; the list is short once the path pins some digits)
        live = []
        if len(bad) > 4 * max_exceptions:
            live = None
        else:
            for vals, x in bad:
                cond = z3.And(*[c.var_ranges[n][2] == v for n, v in zip(names, vals)])
                if c.feasible(cond):
                    live.append((cond, x))
                    if len(live) > max_exceptions:
                        live = None
                        break
        if live is None:
            # many exceptional inputs: they are kept as ONE case whose text is only known as "a decimal within the rounding
            # error of the exact value, not equal to it, on the side CPython's evaluation falls" (enough for Decimal()/float())
            if len(bad) > 30000:
                raise OutOfSubset('repr of a computed float: more than 30000 inputs give a double that is not the nearest one')
            conds, below = [], []
            for vals, x in bad:
                cond = z3.And(*[c.var_ranges[n][2] == v for n, v in zip(names, vals)])
                e = self.aff.c0 + sum(self.aff.cs[n] * v for n, v in zip(names, vals))
                conds.append(cond)
                if Fraction(x) < e:
                    below.append(cond)
            c.assumptions.add('repr of a computed double: the computation is evaluated in CPython at every input of the finite declared ranges')
            if c.decide(z3.Or(*conds)):
                return SInexactRepr(self, z3.Or(*below) if below else z3.BoolVal(False))
            live = []
        c.assumptions.add('repr of a computed double: the computation is evaluated in CPython at every input of the finite declared ranges; '
                          'inputs where it is not the double nearest the exact decimal are split off with their concrete text')
        for cond, x in live:
            if c.decide(cond):
                return repr(x)
        twin = SFloat(self.aff, None, 0)
        twin.err = twin.mag * U
        twin.nearest = True
        twin.zsafe = self.zsafe
        twin.cf = self.cf
        return twin._sym_repr()

    def _sym_repr(self):
        """repr(x) of a double known exactly (err = 0): shortest round-tripping text, positional iff 1e-4 <= |x| < 1e16.
        Modelled for 0 <= x < 1 only (the use in format_seconds_as_time); else outside the encoding."""
        from . import sstr as S
        c = ctx()
        c.assumptions.add('repr(float) is the shortest text that round-trips, positional iff 1e-4 <= |x| < 1e16 (CPython)')
        if self.nearest and self.aff is not None and self.aff.is_const():
            return repr(float(self.aff.c0))          # the double nearest to a known rational: CPython converts correctly rounded
        if self.nearest and self.aff is not None and self.aff.all_int_vars() and self.mag < 10 ** 15:
            # the double nearest to a short decimal N/10^p (p <= 6, < 16 significant digits): that decimal round-trips and no
            # shorter text does, so repr is its canonical spelling: '%.pf' with trailing zeros dropped, one decimal kept
            D, off = self.aff.lattice()
            p = 0
            while p <= 6 and (10 ** p) % D:
                p += 1
            lo, hi = self.aff.bounds()
            if off == 0 and p <= 6 and lo is not None and lo >= 0:
                if c.decide(z3.And(self.t > 0, self.t < z3.RealVal('1/10000'))):
                    raise OutOfSubset('repr of a float below 1e-4 (exponent notation)')
                t = self._sym_printf('', None, max(p, 1), 'f')
                cells = list(S.cells_of(t))
                dot = max(i for i, x in enumerate(cells) if isinstance(x, str) and x == '.')
                while len(cells) - dot - 1 > 1 and bool(S.cell_is(cells[-1], '0')):
                    cells.pop()
                if len(cells) - dot - 1 > 1 or not isinstance(cells[-1], str):
                    last = cells[-1]
                    if len(cells) - dot - 1 > 1 and not isinstance(last, str):
                        cells[-1] = S.narrow(last, last.cc.minus(S.CC.of('0')))
                return S.mk(cells)
        if self.err != 0 and self.cf is not None and self.aff is not None and self.aff.all_int_vars() and self.mag < 10 ** 15:
            # a computed double whose exact value is a short decimal N/10^p: evaluate the computation in CPython at EVERY input
            # of the (finite) declared ranges; where it yields the double nearest the exact value the text is that decimal's
            # canonical spelling, the finitely many other inputs are split off one by one with their concrete text
            r = self._repr_by_enumeration()
            if r is not None:
                return r
        if self.err != 0:
            raise OutOfSubset('repr of an inexactly known float')
        if c.decide(self.t == 0):
            return '0.0'
        if not c.decide(z3.And(self.t > 0, self.t < 1)):
            raise OutOfSubset('repr of a float outside [0,1)')
        if c.decide(self.t >= z3.RealVal('1/10000')):
            # '0.' + nd digits, value D with float(D) == x  =>  |D - x| <= 2^-54 ; D keeps the digits 1..5 the caller reads
            nd = 5 + c.choose(3, 'reprlen') * 6          # representative lengths 5, 11, 17 (callers only read f[:5])
            cells = ['0', '.']
            ds = []
            for i in range(nd):
                v = c.fresh('rd')
                c.assume(z3.And(v >= 48, v <= 57))
                ds.append(S.Var(v, S.DIGITS))
            D = z3.Sum([z3.ToReal(x.cp - 48) * z3.RealVal(str(Fraction(1, 10 ** (i + 1)))) for i, x in enumerate(ds)])
            c.assume(z3.And(D - self.t <= z3.RealVal(str(Fraction(1, 2 ** 54))), self.t - D <= z3.RealVal(str(Fraction(1, 2 ** 54)))))
            return S.mk(cells + ds)
        # exponent notation d[.ddd]e-XX
        k = c.choose(2, 'reprexp')
        ds = []
        for i in range(1 + 16 * k):
            v = c.fresh('rd')
            c.assume(z3.And(v >= (49 if i == 0 else 48), v <= 57))
            ds.append(S.Var(v, S.CC([(49 if i == 0 else 48, 57)])))
        ex = []
        for i in range(2):
            v = c.fresh('re')
            c.assume(z3.And(v >= 48, v <= 57))
            ex.append(S.Var(v, S.DIGITS))
        return S.mk(ds[:1] + (['.'] + ds[1:] if k else []) + ['e', '-'] + ex)

    def _sym_max(self, o):
        if self >= o:            # forks
            return self
        return o

    def _sym_min(self, o):
        if self <= o:
            return self
        return o


def _opt_bounds(t, senses=('min', 'max'), timeout=3000):
    """(min, max) of a real term under the current path condition, as Fractions widened outward; (None, None) if unknown"""
    c = ctx()
    out = []
    for sense in senses:
        o = z3.Optimize()
        o.set('timeout', timeout)
        o.add(*c.pc)
        h = o.minimize(t) if sense == 'min' else o.maximize(t)
        chk = o.check()
        if chk == z3.unsat:
            from .core import Abort
            raise Abort()             # the path condition itself is infeasible
        if chk != z3.sat:
            return None, None
        try:
            vals = o.lower_values(h) if sense == 'min' else o.upper_values(h)
            inf_c, v = vals[0], vals[1]
            if not (z3.is_int_value(inf_c) or z3.is_rational_value(inf_c)) or inf_c.as_fraction() != 0:
                return None, None
        except Exception:
            v = o.lower(h) if sense == 'min' else o.upper(h)
        if z3.is_int_value(v):
            f = Fraction(v.as_long())
        elif z3.is_rational_value(v):
            f = Fraction(v.numerator_as_long(), v.denominator_as_long())
        else:
            return None, None
        out.append(f)
    if senses == ('min',):
        return out[0] - abs(out[0]) * Fraction(1, 10 ** 12), None
    lo, hi = out
    w = (abs(lo) + abs(hi)) * Fraction(1, 10 ** 12)
    return lo - w, hi + w


def _var_range_under_pc(name, timeout=1500):
    """(min, max) of a declared integer variable under the current path condition, exact, by bisection; None if a check is
    undecided or the static range is unknown"""
    c = ctx()
    lo, hi, v = c.var_ranges[name]
    if lo is None or hi is None:
        return None
    lo, hi = math.ceil(lo), math.floor(hi)
    s = z3.Solver()
    s.set('timeout', timeout)
    s.add(*c.pc)
    if s.check() != z3.sat:
        return None
    m = s.model().eval(v, model_completion=True)
    if not z3.is_int_value(m):
        return None
    w = m.as_long()
    a, b = lo, w                    # least feasible value in [lo, w]
    while a < b:
        mid = (a + b) // 2
        r = s.check(v <= mid)
        if r == z3.sat:
            b = min(mid, s.model().eval(v, model_completion=True).as_long())
        elif r == z3.unsat:
            a = mid + 1
        else:
            return None
    vmin = a
    a, b = w, hi                    # greatest feasible value in [w, hi]
    while a < b:
        mid = (a + b + 1) // 2
        r = s.check(v >= mid)
        if r == z3.sat:
            a = max(mid, s.model().eval(v, model_completion=True).as_long())
        elif r == z3.unsat:
            b = mid - 1
        else:
            return None
    return vmin, a


def _cf_int(aff):
    """concrete shadow of float(n) for an integer affine form"""
    c0, cs = aff.c0, dict(aff.cs)

    def f(env):
        v = c0 + sum(k * env[n] for n, k in cs.items())
        if v.denominator != 1:
            raise KeyError('non-integer')
        return float(int(v))
    return f


def aff_of_int(n):
    """affine form of an SInt when it is a linear combination of declared variables; else a fresh variable"""
    c = ctx()
    if isinstance(n, int):
        return Aff(n)
    t = z3.simplify(n.t)
    a = _aff_of_term(t)
    if a is not None:
        return a
    # introduce a named variable equal to the term, with bounds obtained from the solver-free interval of known vars
    raise OutOfSubset('integer term without affine form: %s' % t)


def _aff_of_term(t):
    c = ctx()
    if z3.is_int_value(t):
        return Aff(t.as_long())
    if z3.is_rational_value(t):
        return Aff(Fraction(t.numerator_as_long(), t.denominator_as_long()))
    if z3.is_const(t) and t.decl().kind() == z3.Z3_OP_UNINTERPRETED:
        n = str(t)
        if n in c.var_ranges:
            return Aff(0, {n: Fraction(1)})
        return None
    k = t.decl().kind()
    ch = t.children()
    if k == z3.Z3_OP_ADD:
        r = Aff(0)
        for x in ch:
            a = _aff_of_term(x)
            if a is None:
                return None
            r = r.add(a)
        return r
    if k == z3.Z3_OP_SUB:
        r = _aff_of_term(ch[0])
        if r is None:
            return None
        for x in ch[1:]:
            a = _aff_of_term(x)
            if a is None:
                return None
            r = r.add(a, -1)
        return r
    if k == z3.Z3_OP_UMINUS:
        a = _aff_of_term(ch[0])
        return a.scale(-1) if a is not None else None
    if k == z3.Z3_OP_MUL:
        consts = [x for x in ch if z3.is_int_value(x) or z3.is_rational_value(x)]
        rest = [x for x in ch if not (z3.is_int_value(x) or z3.is_rational_value(x))]
        if len(rest) > 1:
            return None
        f = Fraction(1)
        for x in consts:
            f *= Fraction(x.numerator_as_long(), x.denominator_as_long()) if z3.is_rational_value(x) else x.as_long()
        if not rest:
            return Aff(f)
        a = _aff_of_term(rest[0])
        return a.scale(f) if a is not None else None
    if k == z3.Z3_OP_TO_REAL:
        return _aff_of_term(ch[0])
    return None


def s_float_of_int(n):
    return SFloat.of_int(n)


SInt._sym_float = lambda self: SFloat.of_int(self)


def _sint_mix(self, o, f, rev=False):
    """SInt (+-*/) float  -> float arithmetic"""
    a = SFloat.of_int(self)
    return f(o, a) if rev else f(a, o)


# let SInt arithmetic with concrete floats / SFloat go through the float proxy
_old_bin = SInt._bin


def _bin(self, o, f, rev=False):
    if isinstance(o, (float, SFloat)):
        a = SFloat.of_int(self)
        b = SFloat._co(o)
        return f(b, a) if rev else f(a, b)
    return _old_bin(self, o, f, rev)


SInt._bin = _bin
SInt.__truediv__ = lambda self, o: SFloat.of_int(self) / o


def float_of_decimal_text(s, allow_exponent=False):
    """float(text) for a shape-typed string made of ASCII digits and at most one '.', optional surrounding
    whitespace and sign: the nearest double to the decimal value (CPython: correctly rounded) -> exact value +
    half-ulp error.  Any other admissible float syntax (exponent, inf, nan, underscores) is outside this encoding
    when a cell could spell it."""
    from . import sstr as S
    c = ctx()
    c.assumptions.add('float(str) returns the correctly rounded double of the decimal text (CPython dtoa)')
    st = s.strip() if isinstance(s, S.SStr) else s.strip()
    cells = list(S.cells_of(st))
    sign = 1
    if cells and S.cell_is(cells[0], '-'):
        sign, cells = -1, cells[1:]
    elif cells and S.cell_is(cells[0], '+'):
        cells = cells[1:]
    ip, fp, seen_dot = [], [], False
    for cell in cells:
        if S.cell_is(cell, '.'):
            if seen_dot:
                raise ValueError('could not convert string to float')
            seen_dot = True
            continue
        # letters that could start inf/nan/exponent or underscores: outside the encoding
        if isinstance(cell, S.Var):
            rest = cell.cc.minus(S.DIGITS).minus(S.CC.of('.'))
            if not rest.inter(S.CC.of('eEinfINFaAyYtT_')).empty():
                if S.cell_in(cell, S.CC.of('eEinfINFaAyYtT_')):
                    raise OutOfSubset('float() of text that may use exponent/inf/nan/underscore syntax')
        elif cell in 'eEinfINFaAyYtT_':
            raise OutOfSubset('float() of text with exponent/inf/nan/underscore syntax')
        d = st._require_ascii_digit(cell, 'float') if isinstance(st, S.SStr) else S.SStr((cell,))._require_ascii_digit(cell, 'float')
        (fp if seen_dot else ip).append(d)
    if not ip and not fp:
        raise ValueError('could not convert string to float')
    dummy = S.SStr(())
    iv = dummy._digits_value(ip)
    fv = dummy._digits_value(fp)
    k = len(fp)
    # named integer variable for the scaled value so that it can appear in affine forms
    n = c.fresh('dec')
    c.assume(n == sign * (iv * 10 ** k + fv))
    hi = 10 ** (len(ip) + k) - 1
    declare_var(str(n), n, -hi if sign < 0 else 0, 0 if sign < 0 else hi)
    aff = Aff(0, {str(n): Fraction(1, 10 ** k)})
    r = SFloat(aff, None, 0)
    if not (k == 0 and hi < 2 ** 53):
        r.err = r.mag * U
    r.nearest = True
    r.zsafe = sign > 0
    # concrete shadow: float(text) is the correctly rounded value of the decimal N/10^k (CPython)
    r.cf = lambda env, nm=str(n), k=k: float(Fraction(env[nm], 10 ** k))
    return r


_ENUM_MEMO = {}


class SInexactRepr(Sym):
    """repr(x) of a computed double that is NOT the double nearest its exact decimal value e: a long decimal text whose value
    lies within the rounding error of e, differs from e, and is below e exactly when `below` holds.  Only the conversions
    Decimal(text) and float(text) are modelled; anything else is outside the encoding."""
    _pytype = str

    def __init__(self, f, below):
        self.f, self.below = f, below

    def _sym_decimal(self):
        c = ctx()
        v = c.fresh('rv', 'real')
        E = z3.RealVal(str(self.f.err))
        e = self.f.t
        c.assume(z3.If(self.below, z3.And(v < e, v >= e - E), z3.And(v > e, v <= e + E)))
        return SReal(v)

    def _sym_float(self):
        return self.f                  # float(repr(x)) == x

    def _sym_str(self):
        return self

    def strip(self, *a):
        return self

    def __getattr__(self, name):
        if name.startswith('__'):
            raise AttributeError(name)
        raise OutOfSubset('str.%s on the long repr of a computed float' % name)


def _sreal_int(self, *a):
    """int(Decimal-like exact real): truncation toward zero, exact"""
    c = ctx()
    r = c.fresh('trunc')
    if c.decide(self.t >= 0):
        c.assume(z3.And(z3.ToReal(r) <= self.t, self.t < z3.ToReal(r) + 1))
    else:
        c.assume(z3.And(z3.ToReal(r) >= self.t, self.t > z3.ToReal(r) - 1))
    return SInt(r)


SReal._sym_int = _sreal_int


def _sreal_float(self):
    """float(Decimal-like exact real): nearest double"""
    a = _aff_of_term(z3.simplify(self.t))
    if a is None:
        raise OutOfSubset('float() of a non-affine exact real')
    r = SFloat(a, None, 0)
    r.err = r.mag * U
    return r


SReal._sym_float = _sreal_float


def s_Decimal(x=0, *a):
    """shadow of decimal.Decimal: exact value of a decimal text / int; concrete arguments give a real Decimal"""
    from . import sstr as S
    if isinstance(x, S.SStr):
        c = ctx()
        st = x.strip()
        cells = list(S.cells_of(st))
        ip, fp, dot = [], [], False
        for cell in cells:
            if S.cell_is(cell, '.'):
                if dot:
                    raise _decimal_invalid()
                dot = True
                continue
            r = S.cell_in(cell, S.DIGITS)
            if r is True or (r is not False and bool(r)):
                (fp if dot else ip).append(S.narrow(cell, S.DIGITS))
            else:
                if isinstance(cell, S.Var) and not cell.cc.minus(S.DIGITS).inter(S.CC.of('eE+-_nNaAiIfFsSqQ')).empty():
                    raise OutOfSubset('Decimal() of text that may use sign/exponent/special syntax')
                raise _decimal_invalid()
        if not ip and not fp:
            raise _decimal_invalid()
        k = len(fp)
        n = c.fresh('dec')
        c.assume(n == S.SStr(())._digits_value(ip) * 10 ** k + S.SStr(())._digits_value(fp))
        declare_var(str(n), n, 0, 10 ** (len(ip) + k) - 1)
        return SReal(z3.ToReal(n) / z3.RealVal(10 ** k))
    if isinstance(x, SInt):
        return SReal(z3.ToReal(x.t))
    if hasattr(x, '_sym_decimal'):
        return x._sym_decimal()
    if isinstance(x, SFloat):
        raise OutOfSubset('Decimal() of a float proxy')
    return Decimal(x, *a)


def _decimal_invalid():
    import decimal
    return decimal.InvalidOperation('invalid decimal literal')


class SOpaque(Sym):
    """a float/int computed by operations the encoding does not interpret (**, and what follows): a term tree.
    Two equal trees denote equal values (the operations are deterministic functions of their operands)."""
    _pytype = float

    def __init__(self, tag, pytype=float):
        self.tag = tag
        self._pytype = pytype

    def _k(self, o):
        if isinstance(o, SOpaque):
            return o.tag
        if isinstance(o, SFloat):
            return ('float', o)
        if isinstance(o, (int, float)):
            return ('const', o)
        if isinstance(o, SInt):
            return ('int', o)
        raise OutOfSubset('opaque arithmetic with %s' % type(o).__name__)

    def __mul__(self, o): return SOpaque(('mul', self.tag, self._k(o)))
    def __rmul__(self, o): return SOpaque(('mul', self._k(o), self.tag))
    def __add__(self, o): return SOpaque(('add', self.tag, self._k(o)))
    def __radd__(self, o): return SOpaque(('add', self._k(o), self.tag))
    def __sub__(self, o): return SOpaque(('sub', self.tag, self._k(o)))
    def __rsub__(self, o): return SOpaque(('sub', self._k(o), self.tag))
    def __truediv__(self, o): return SOpaque(('div', self.tag, self._k(o)))
    def __rtruediv__(self, o): return SOpaque(('div', self._k(o), self.tag))

    def _sym_int(self, *a):
        return SOpaque(('int', self.tag), int)

    def _sym_floor(self):
        return SOpaque(('floor', self.tag), int)

    def _sym_ceil(self):
        return SOpaque(('ceil', self.tag), int)

    def _sym_float(self):
        return self

    def _sym_max(self, o):
        return SOpaque(('max', self.tag, self._k(o)), self._pytype)

    def _sym_min(self, o):
        return SOpaque(('min', self.tag, self._k(o)), self._pytype)

    def _sym_pow(self, o):
        return SOpaque(('pow', self.tag, self._k(o)))

    def __repr__(self):
        return 'SOpaque(%r)' % (self.tag,)


def _sfloat_pow(self, o):
    if isinstance(o, (int, float)) and not isinstance(o, bool):
        return SOpaque(('pow', ('float', self), ('const', o)))
    raise OutOfSubset('** with a symbolic exponent')


SFloat._sym_pow = _sfloat_pow
