import importlib
import sys


def real_module(name):
    """the imported module object (athlib re-binds some submodule names to functions)"""
    importlib.import_module(name)
    return sys.modules[name]
