"""./check <id> [--quick|--thorough] | ./check --replay <file> | ./check selftest"""
import importlib
import json
import os
import sys
import traceback


def main(argv):
    if not argv:
        print(__doc__)
        return 2
    if argv[0] == '--replay':
        with open(argv[1]) as f:
            rep = json.load(f)
        mod = importlib.import_module('props.%s' % rep['property'])
        return mod.replay(rep)
    if argv[0] == 'selftest':
        from pyvc import selftest
        return selftest.main(argv[1:])
    prop = argv[0]
    tier = os.environ.get('VERIF_TIER', 'quick')
    for a in argv[1:]:
        if a == '--quick':
            tier = 'quick'
        elif a == '--thorough':
            tier = 'thorough'
    seed = int(os.environ.get('VERIF_SEED', '0') or 0)
    try:
        mod = importlib.import_module('props.%s' % prop)
        return mod.main(tier, seed)
    except SystemExit:
        raise
    except BaseException:
        traceback.print_exc()
        print('CHECKER-ERROR: %s crashed' % prop, file=sys.stderr)
        return 3


if __name__ == '__main__':
    sys.exit(main(sys.argv[1:]))
