"""Exact-arithmetic specs of the table-based junior scoring systems (Tyrving, QuadKids, Sportshall, Bulgarian).

All functions take the mark as an integer number of centi-units k (centiseconds / centimetres; the decimal mark is
k/100 exactly) - a Python int or a symbolic SInt - and table constants read as the exact decimals written in the
source (Fraction(repr(c))).  Only integer arithmetic, so results are exact."""
from fractions import Fraction
import math

from pyvc.values import ite, And, Or, Not, SInt
from pyvc.builtins_sym import s_max, s_min


def dec(c):
    """the exact decimal written in the source for a table constant"""
    if isinstance(c, int):
        return Fraction(c)
    return Fraction(repr(c))


def floor_lin(a, b, k):
    """floor(a*k + b) for Fractions a, b and integer k (int or SInt), in integer arithmetic"""
    a, b = Fraction(a), Fraction(b)
    D = a.denominator * b.denominator // math.gcd(a.denominator, b.denominator)
    A, B = int(a * D), int(b * D)
    return (A * k + B) // D


def lin(a, b):
    return (Fraction(a), Fraction(b))


# ---------------------------------------------------------------------------- Tyrving
def tyrving_base(age, yv):
    if isinstance(yv, dict):
        return yv.get(age)
    y, v = yv
    return v[age - y] if y <= age < y + len(v) else None


def tyrving_manual_increment(dist):
    return Fraction(24, 100) if dist in (100, 110, 200) else Fraction(20, 100) if dist in (40, 60, 80, 300) else \
        Fraction(14, 100) if dist == 400 else Fraction(0)


def tyrving_race(args, age, k, manual=False):
    """points = max(0, floor(1000 + (B - t) * M / unit)), unit = 0.01 s up to 500 m else 0.1 s; hand times are
    corrected by the distance-dependent increment first"""
    dist, mult, yv = args
    B = tyrving_base(age, yv)
    if B is None:
        return None
    B, M = dec(B), dec(mult)
    unit = Fraction(1, 100) if dist <= 500 else Fraction(1, 10)
    inc = tyrving_manual_increment(dist) if manual else 0
    # 1000 + (B - k/100 - inc) * M/unit
    a = -M / unit / 100
    b = 1000 + (B - inc) * M / unit
    return s_max(0, floor_lin(a, b, k))


def tyrving_jump(args, age, k):
    mult, yv = args
    B = tyrving_base(age, yv)
    if B is None:
        return None
    B, M = dec(B), dec(mult)
    # 1000 + M * (k/100 - B) * 100
    return s_max(0, floor_lin(M, 1000 - 100 * M * B, k))


def tyrving_stav(args, age, k):
    """piecewise linear: at or above level0: 1000 + 100(d-L0)m0 ; between level1 and level0: 1000 + 100(d-L0)m1 ;
    at or below level1: L2 + 100(d-L1)m2"""
    mults, yvs = args
    L = [tyrving_base(age, yv) for yv in yvs]
    if any(x is None for x in L):
        return None
    L0, L1, L2 = [dec(x) for x in L]
    m0, m1, m2 = [dec(x) for x in mults]
    p_hi = floor_lin(m0, 1000 - 100 * L0 * m0, k)
    p_mid = floor_lin(m1, 1000 - 100 * L0 * m1, k)
    p_lo = floor_lin(m2, L2 - 100 * L1 * m2, k)
    k0, k1 = 100 * L0, 100 * L1            # thresholds in centi-units (exact rationals)
    r = ite(k * k0.denominator >= k0.numerator, p_hi, ite(k * k1.denominator > k1.numerator, p_mid, p_lo))
    return s_max(0, r)


def tyrving_points(kind, args, age, k, manual=False):
    if kind == 'race':
        return tyrving_race(args, age, k, manual)
    if kind == 'jump':
        return tyrving_jump(args, age, k)
    if kind in ('pv', 'throw', 'stav'):
        return tyrving_stav(args, age, k)
    return None


# ---------------------------------------------------------------------------- QuadKids
def qkids_points(row, timed, k):
    """10 + (delta / increment) truncated, clamped to 10..100; delta = base - t (timed) or d - base (field)"""
    inc, base = dec(row[0]), dec(row[1])
    if timed:
        a, b = -1 / (100 * inc), base / inc + 10
    else:
        a, b = 1 / (100 * inc), -base / inc + 10
    v = floor_lin(a, b, k)
    # the code truncates toward zero; below 10 the clamp hides the difference between floor and truncation
    return s_max(10, s_min(v, 100))


# ---------------------------------------------------------------------------- Bulgarian
def bulgarian_points(table, field, k):
    """table: {'min':.., 'max':.., centi-mark: points}"""
    lo, hi = table['min'], table['max']
    return None   # evaluated through the table function in the check (finite, ground)
