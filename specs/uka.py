"""UK age groups, written from the rule text kept in athlib/uka/agegroups.py (`rules`), not from the code.

Runs on concrete ints and on symbolic proxies alike (only ite/And/Or and integer arithmetic)."""
from pyvc.values import ite, And, Or, Not
from pyvc.builtins_sym import sym_format


def leap(y):
    return Or(And(y % 4 == 0, y % 100 != 0), y % 400 == 0)


def mlen(y, m):
    return ite(m == 2, ite(leap(y), 29, 28), ite(Or(m == 4, m == 6, m == 9, m == 11), 30, 31))


def before(m1, d1, m2, d2):
    return Or(m1 < m2, And(m1 == m2, d1 < d2))


def completed_years(on, born):
    """age in completed years of someone born on `born` (y,m,d) on the day `on` (y,m,d);
    a 29 February birthday counts on 28 February in common years"""
    oy, om, od = on
    by, bm, bd = born
    ml = mlen(oy, bm)
    anniv = ite(bd < ml, bd, ml)
    return oy - by - ite(before(om, od, bm, anniv), 1, 0)


def masters_band(age_on_day):
    return sym_format('V%02d', (5 * (age_on_day // 5),))


def tf_group(born, match, vets=True, underage=False):
    """Rule 107 (competition dates 1 Jan - 30 Sep: the 31 Aug within the competition year is the
    31 Aug of the calendar year of competition)"""
    my = match[0]
    a_aug = completed_years((my, 8, 31), born)
    a_dec = completed_years((my, 12, 31), born)
    a_day = completed_years(match, born)
    if a_aug < 11:                       # not catered for by the rules: U11, or U9 on request
        if underage and a_aug < 9:
            return 'U9'
        return 'U11'
    if a_aug <= 12:
        return 'U13'
    if a_aug <= 14:
        return 'U15'
    if a_aug <= 16:
        return 'U17'
    if a_dec < 20:                       # 17 or over on 31 Aug but under 20 on 31 Dec
        return 'U20'
    if vets and a_day >= 35:             # masters: at least 35 on the day, five-year bands
        return masters_band(a_day)
    return 'SEN'


def prior_31_aug(match):
    my, mm, md = match
    return (ite(before(mm, md, 8, 31), my - 1, my), 8, 31)


def xc_group(born, match, vets=True, underage=True):
    """Rules 207/507: U9/U11 by age on the day; then age on the 31 Aug prior to the competition"""
    a_day = completed_years(match, born)
    a_aug = completed_years(prior_31_aug(match), born)
    if a_day < 11:
        if underage and a_day < 9:
            return 'U9'
        return 'U11'
    if a_aug <= 12:                      # 11 on the day of competition, or 12 on the prior 31 Aug
        return 'U13'
    if a_aug <= 14:
        return 'U15'
    if a_aug <= 16:
        return 'U17'
    if a_aug <= 19:
        return 'U20'
    if vets and a_day >= 35:
        return masters_band(a_day)
    return 'SEN'


ORDER = ['U9', 'U11', 'U13', 'U15', 'U17', 'U20', 'SEN']


def group_rank(g):
    """U9 < U11 < ... < SEN < V35 < V40 ...  (an integer; symbolic for V-bands)"""
    from pyvc.builtins_sym import SFmt
    if isinstance(g, SFmt):
        return 100 + g.args[0]
    if g in ORDER:
        return ORDER.index(g)
    if g.startswith('V'):
        return 100 + int(g[1:])
    raise ValueError(g)
