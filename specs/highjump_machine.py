"""Executable abstract rule machine for the high jump (concrete twin of specs/highjump.py), written from the rule
sentences of C02/C03.  Used as the oracle of the history searches that turn a refuted per-method obligation into a
concrete failing history on the real code, and of the bounded stand-ins of C03/C08."""
from decimal import Decimal


class Refused(Exception):
    pass


class Machine(object):
    def __init__(self):
        self.state = 'scheduled'
        self.heights = []
        self.js = []          # dicts: bib card best best_idx out done lim cf place
        self.log = 0

    def j(self, bib):
        for x in self.js:
            if x['bib'] == bib:
                return x
        raise KeyError(bib)

    # ---- calls -------------------------------------------------------------------------------------------------
    def add(self, bib):
        if self.state != 'scheduled' or any(x['bib'] == bib for x in self.js):
            raise Refused()
        self.js.append(dict(bib=bib, card=[], best=Decimal('0.00'), best_idx=-1, out=False, done=False, lim=3, cf=0, place=len(self.js) + 1))
        self.log += 1

    def bar(self, h):
        prev = self.heights[-1] if self.heights else Decimal('0.00')
        if self.state in ('finished', 'drawn') or (self.state != 'jumpoff' and not h > prev):
            raise Refused()
        if self.state == 'scheduled':
            self.state = 'started'
        for x in self.js:
            if not x['out']:
                x['done'] = False
        self.heights.append(h)
        self.log += 1

    def trial(self, bib, mark):
        x = self.j(bib)
        running = self.state in ('started', 'jumpoff') or (self.state == 'won' and x['place'] == 1)
        H = len(self.heights)
        here = len(x['card'][-1]) if len(x['card']) == H and H > 0 else 0
        if not running or x['out'] or x['done'] or here >= x['lim']:
            raise Refused()
        while len(x['card']) < H:
            x['card'].append('')
        x['card'][-1] += mark
        h = self.heights[-1]
        if mark == 'o':
            if h > x['best']:
                x['best'], x['best_idx'] = h, H - 1
            x['cf'] = 0
            x['done'] = True
        elif mark == 'x':
            x['cf'] += 1
            if x['cf'] >= x['lim']:
                x['out'] = x['done'] = True
            else:
                x['done'] = False
        elif mark == '-':
            x['done'] = True
        elif mark == 'r':
            x['out'] = x['done'] = True
        self.log += 1
        self.rank()

    # ---- countback ---------------------------------------------------------------------------------------------
    def key(self, x):
        none = x['best_idx'] < 0
        status = (3 if none else 2) if x['out'] else (1 if none else 0)
        at = 0 if none else x['card'][x['best_idx']].count('x')
        upto = 0 if none else sum(c.count('x') for c in x['card'][:x['best_idx'] + 1])
        return (status, -x['best'], at, upto)

    def rank(self):
        keys = [self.key(x) for x in self.js]
        for x, k in zip(self.js, keys):
            x['place'] = 1 + sum(1 for o in keys if o < k)
        rem = [x for x in self.js if not x['out']]
        first = [x for x in self.js if x['place'] == 1]
        retired = lambda x: bool(x['card']) and x['card'][-1].endswith('r')
        if not rem:
            if len(first) >= 2:
                back = [x for x in first if not retired(x)]
                for x in back:
                    x['out'], x['lim'], x['cf'] = False, 1, 0
                self.state = 'jumpoff' if back else 'drawn'
            elif self.state == 'jumpoff' and not retired(first[0]):
                first[0]['out'], first[0]['lim'], first[0]['cf'] = False, 1, 0
            else:
                self.state = 'finished'
        elif len(rem) == 1 and len(rem[0]['card']) == len(self.heights) and 'o' in rem[0]['card'][-1]:
            self.state = 'won' if self.state in ('started', 'won') else 'finished'

    def observe(self):
        return dict(state=self.state, heights=[str(h) for h in self.heights], log=self.log,
                    jumpers=[dict(bib=x['bib'], card=list(x['card']), best=str(x['best']), place=(x['place'] if x['best_idx'] >= 0 else '')) for x in self.js])


def observe_real(c):
    return dict(state=c.state, heights=[str(h) for h in c.heights], log=len(c.actions),
                jumpers=[dict(bib=j.bib, card=list(j.attempts_by_height), best=str(j.highest_cleared), place=j.place) for j in c.jumpers])


MARK = {'cleared': 'o', 'failed': 'x', 'passed': '-', 'retired': 'r'}


def apply_both(real, mach, call, RV):
    """apply one call to both; returns None if they agree, else a description"""
    a, v = call
    before = observe_real(real)
    r_ok = m_ok = True
    err = None
    try:
        if a == 'add_jumper':
            real.add_jumper(bib=v)
        else:
            getattr(real, a)(v)
    except RV:
        r_ok = False
    except KeyError:
        return None
    except Exception as e:
        r_ok = False
        err = type(e).__name__
    try:
        if a == 'add_jumper':
            mach.add(v)
        elif a == 'set_bar_height':
            mach.bar(v)
        else:
            mach.trial(v, MARK[a])
    except Refused:
        m_ok = False
    after = observe_real(real)
    if err:
        return dict(what='raised %s instead of RuleViolation' % err, before=before)
    if r_ok != m_ok:
        return dict(what='the call was %s but the rules %s it' % ('accepted' if r_ok else 'refused', 'allow' if m_ok else 'forbid'), before=before, after=after)
    if not r_ok and after != before:
        return dict(what='a refused call changed the competition', before=before, after=after)
    if r_ok:
        last = real.actions[-1] if real.actions else None
        want_last = (a, dict(bib=v)) if a == 'add_jumper' else (a, v)
        if last != want_last:
            return dict(what='the accepted call %r was logged as %r' % (want_last, last), after=after)
    want = mach.observe()
    if after != want:
        return dict(what='state after the call differs from the rules', after=after, required=want)
    return None


def search(new_real, RV, N=2, max_len=8, budget=300000, bars=None, extra_calls=()):
    """BFS over call sequences (deduplicated on the observable state): first history on which the real class and the
    rule machine disagree"""
    import collections
    bibs = ['A', 'B', 'C', 'D'][:N]
    bars = bars or [Decimal('2.00'), Decimal('2.05'), Decimal('1.94'), Decimal('1.96')]
    trial_calls = [(m, b) for b in bibs for m in ('cleared', 'failed', 'passed', 'retired')]
    bar_calls = [('set_bar_height', h) for h in bars]
    probes = trial_calls + bar_calls + [('set_bar_height', Decimal('0')), ('add_jumper', 'Z'), ('add_jumper', 'A')] + list(extra_calls)

    def build(hist):
        real, mach = new_real(), Machine()
        for b in bibs:
            real.add_jumper(bib=b)
            mach.add(b)
        for call in hist:
            d = apply_both(real, mach, call, RV)
            if d:
                return real, mach, d
        return real, mach, None
    seen = set()
    q = collections.deque([()])
    n = 0
    while q and n < budget:
        h = q.popleft()
        real, mach, d = build(h)
        if d:
            return list(h), d
        key = repr(observe_real(real)) + repr([(j.eliminated, j.dismissed, j.round_lim, j.consecutive_failures) for j in real.jumpers])
        if key in seen:
            continue
        seen.add(key)
        for call in probes:
            n += 1
            real2, mach2, _ = build(h)
            d = apply_both(real2, mach2, call, RV)
            if d:
                return list(h) + [call], d
        if len(h) < max_len:
            for call in trial_calls + bar_calls:
                q.append(h + (call,))
    return None, None
