"""Abstract rule machine for the high jump / pole vault (spec for C02, C03, C08), written from the rule sentences of
the properties.  States are *views*: plain records of z3 terms (so the same text serves symbolic obligations) -

  jumper view  JV: card (nx array, term array, length n, failure prefix-sum function), best height, index of the best,
                   out (eliminated), done (finished with the current height), lim (attempts allowed at a height: 3, or 1
                   after a jump-off re-instatement), cf (consecutive failures), place, retired-mark of the last cell
  competition  CV: state, number of heights H, current bar, the jumper views

legal_*  : when the rules allow a call;   step_* : its effect.  Terms: 0 none, 1 'o', 2 '-', 3 'r'."""
import z3

STATES = ['scheduled', 'started', 'jumpoff', 'won', 'finished', 'drawn']
ORDER = {'scheduled': 0, 'started': 1, 'jumpoff': 2, 'won': 2, 'finished': 3, 'drawn': 3}


class JV(object):
    FIELDS = ('nxA', 'tmA', 'n', 'best', 'best_idx', 'out', 'done', 'lim', 'cf', 'place')

    def __init__(self, **k):
        self.__dict__.update(k)

    def copy(self, **k):
        d = dict(self.__dict__)
        d.update(k)
        return JV(**d)

    # last cell
    def last_nx(self):
        return z3.Select(self.nxA, self.n - 1)

    def last_tm(self):
        return z3.Select(self.tmA, self.n - 1)

    def last_len(self):
        return self.last_nx() + z3.If(self.last_tm() != 0, 1, 0)

    def has_retired(self):
        return z3.And(self.n > 0, self.last_tm() == 3)


def inv_jumper(j, H):
    """local invariant of one athlete (proved preserved by every accepted call, assumed of the pre-state)"""
    i = z3.Int('inv_i')
    return z3.And(
        j.n >= 0, j.n <= H,
        z3.Or(j.lim == 1, j.lim == 3), j.cf >= 0,
        z3.Implies(j.out, j.done),
        # whoever may still attempt the current height has only failures written in its cell
        z3.Implies(z3.And(z3.Not(j.done), j.n == H, H > 0), z3.And(j.last_tm() == 0, j.last_nx() <= j.cf)),
        # consecutive failures reach the limit exactly when the athlete goes out
        z3.Implies(z3.Not(j.out), j.cf < j.lim),
        z3.Implies(j.n > 0, z3.And(j.last_nx() >= 0, j.last_tm() >= 0, j.last_tm() <= 3, j.last_len() <= 3)),
        j.best_idx >= -1, j.best_idx < j.n,
    )


def legal_jumper_op(j, H):
    """may this athlete jump / pass / retire now?  not out, not finished with this height, attempts left"""
    attempts_here = z3.If(j.n < H, 0, j.last_len())
    return z3.And(z3.Not(j.out), z3.Not(j.done), attempts_here < j.lim)


def pad(j, H):
    """the card padded with empty cells up to the current height (skipped heights)"""
    i = z3.Int('pad_i')
    # described relationally: result card r with r.n = max(n,H), cells below n unchanged, cells [n,H) empty
    return None


def step_jumper_op(j, H, bar, mark, padded):
    """effect of an accepted trial with result mark in 'o','x','-','r' on the (already padded) card view `padded`
    (padded.n = H, new cells empty)"""
    p = padded
    lastnx, lasttm = p.last_nx(), p.last_tm()
    if mark == 'x':
        nxA = z3.Store(p.nxA, p.n - 1, lastnx + 1)
        tmA = p.tmA
    else:
        nxA = p.nxA
        tmA = z3.Store(p.tmA, p.n - 1, {'o': 1, '-': 2, 'r': 3}[mark])
    r = p.copy(nxA=nxA, tmA=tmA)
    if mark == 'o':
        higher = bar > j.best
        r = r.copy(best=z3.If(higher, bar, j.best), best_idx=z3.If(higher, p.n - 1, j.best_idx), cf=z3.IntVal(0), done=z3.BoolVal(True))
    elif mark == 'x':
        cf = j.cf + 1
        outnow = cf >= j.lim
        r = r.copy(cf=cf, out=z3.Or(z3.And(outnow, True), z3.And(z3.Not(outnow), j.out)) if False else z3.If(outnow, True, j.out),
                   done=z3.If(outnow, True, False))
    elif mark == '-':
        r = r.copy(done=z3.BoolVal(True))
    elif mark == 'r':
        r = r.copy(out=z3.BoolVal(True), done=z3.BoolVal(True))
    return r


# ---- countback ---------------------------------------------------------------------
def key_of(j, psum):
    """(status, -best, failures at the best height, failures up to and including it); status: still in (0/1) ahead of
    out (2/3), athletes without a clearance last within each"""
    none = j.best_idx < 0
    status = z3.If(j.out, z3.If(none, 3, 2), z3.If(none, 1, 0))
    at = z3.If(none, 0, z3.Select(j.nxA, j.best_idx))
    upto = z3.If(none, 0, at + psum(j.best_idx))
    return (status, -j.best, at, upto)


def key_lt(a, b):
    r = z3.BoolVal(False)
    for x, y in reversed(list(zip(a, b))):
        r = z3.If(x == y, r, x < y)
    return r


def key_eq(a, b):
    return z3.And(*[x == y for x, y in zip(a, b)])


def places(keys):
    """standard competition ranking: place = 1 + number of athletes with a strictly better key"""
    out = []
    for i, k in enumerate(keys):
        out.append(1 + z3.Sum([z3.If(key_lt(o, k), 1, 0) for t, o in enumerate(keys) if t != i]) if len(keys) > 1 else z3.IntVal(1))
    return out


def step_rank(state, js, psums, H):
    """after an accepted trial: re-rank by countback and update the competition state; returns (state', jumpers')
    state' as a list of (condition, state name) cases (conditions exclusive and exhaustive)"""
    N = len(js)
    keys = [key_of(j, ps) for j, ps in zip(js, psums)]
    pl = places(keys)
    js = [j.copy(place=p) for j, p in zip(js, pl)]
    nrem = z3.Sum([z3.If(j.out, 0, 1) for j in js]) if N > 1 else z3.If(js[0].out, 0, 1)
    nfirst = z3.Sum([z3.If(p == 1, 1, 0) for p in pl]) if N > 1 else z3.IntVal(1)
    tie = nfirst >= 2 if N > 1 else z3.BoolVal(False)
    nobody = nrem == 0
    # tie for first with nobody left: jump-off among the tied who have not retired, or drawn
    nc = z3.Sum([z3.If(z3.And(j.place == 1, z3.Not(j.has_retired())), 1, 0) for j in js]) if N > 1 else z3.IntVal(0)
    leader_retired = z3.Or(*[z3.And(j.place == 1, j.has_retired()) for j in js])
    case_tie = z3.And(nobody, tie)
    case_leader = z3.And(nobody, z3.Not(tie), z3.BoolVal(state == 'jumpoff'), z3.Not(leader_retired))
    case_fin = z3.And(nobody, z3.Not(tie), z3.Not(case_leader))
    one = nrem == 1
    # the one left has cleared the current height
    won_cond = z3.And(one, z3.Or(*[z3.And(z3.Not(j.out), j.n == H, j.last_tm() == 1) for j in js]))
    out_js = []
    for j in js:
        re_tie = z3.And(case_tie, j.place == 1, z3.Not(j.has_retired()))
        re_lead = z3.And(case_leader, j.place == 1)
        re = z3.Or(re_tie, re_lead)
        out_js.append(j.copy(out=z3.If(re, False, j.out), lim=z3.If(re, 1, j.lim), cf=z3.If(re, 0, j.cf)))
    cases = [
        (z3.And(case_tie, nc > 0), 'jumpoff'),
        (z3.And(case_tie, nc == 0), 'drawn'),
        (case_leader, state),
        (case_fin, 'finished'),
        (z3.And(z3.Not(nobody), won_cond), 'won' if state in ('started', 'won') else 'finished'),
        (z3.And(z3.Not(nobody), z3.Not(won_cond)), state),
    ]
    return cases, out_js


def legal_state_for_trial(state, place):
    """the competition is running, or it is won and the caller is the winner"""
    if state in ('started', 'jumpoff'):
        return z3.BoolVal(True)
    if state == 'won':
        return place == 1
    return z3.BoolVal(False)
