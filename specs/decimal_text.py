"""Specs and contract stubs for athlib.utils.round_up_str_num (decimal text ceiling).

dec_parts / spec_round_up work on concrete str and on shape-typed SStr alike."""
import z3

from pyvc.core import ctx, PathEnd, OutOfSubset
from pyvc.values import SInt, mkint, zint, mkbool, zbool
from pyvc import sstr as S
from pyvc.builtins_sym import sym_eq


def split_decimal(s):
    """-> (int cells, frac cells, has_dot) or None if s is not digits[.digits] (decided with forks)"""
    cells = list(S.cells_of(s))
    ip, fp, dot = [], [], False
    for c in cells:
        if S.cell_is(c, '.'):
            if dot:
                return None
            dot = True
            continue
        r = S.cell_in(c, S.DIGITS)
        if r is True or (r is not False and bool(r)):
            (fp if dot else ip).append(S.narrow(c, S.DIGITS))
        else:
            return None
    return ip, fp, dot


def digits_value(cells):
    return S.SStr(())._digits_value(cells)


def ceil_scaled(ip, fp, prec, maxDP=5):
    """R = ceil( value(ip.fp truncated to maxDP decimals) * 10^prec ) as a z3 Int term, and `rounded_up` (Bool)"""
    f5 = fp[:maxDP]
    b = len(f5)
    N = digits_value(ip) * 10 ** b + digits_value(f5)
    if b <= prec:
        return N * 10 ** (prec - b), z3.BoolVal(False)
    q = 10 ** (b - prec)
    R = (N + (q - 1)) / q           # z3 integer division, positive divisor: floor
    return R, (N % q) != 0


def round_up_contract_check(c, name, s, prec, result, maxDP=5):
    """obligations: `result` is the contract-conforming answer of round_up_str_num(s, prec, maxDP)"""
    sp = split_decimal(s)
    assert sp is not None
    ip, fp, dot = sp
    R, up = ceil_scaled(ip, fp, prec, maxDP)
    rs = split_decimal(result) if isinstance(result, (str, S.SStr)) else None
    if rs is None:
        c.oblige(name + '/result-is-a-decimal-numeral', False, 'post')
        return
    rip, rfp, rdot = rs
    c.oblige(name + '/result-is-a-decimal-numeral', len(rip) >= 1 and (rdot == (prec > 0)), 'post')
    c.oblige(name + '/result-has-exactly-prec-decimals', len(rfp) == prec, 'post')
    c.oblige(name + '/value-is-the-ceiling', digits_value(rip) * 10 ** prec + digits_value(rfp) == R, 'post')
    # integer-part shape: unchanged text when nothing was rounded up ('0' for an empty one), canonical digits otherwise
    if len(rip) >= 1:
        if ip:
            same = zbool(sym_eq(S.mk(rip), S.mk(ip))) if len(rip) == len(ip) else z3.BoolVal(False)
        else:
            same = zbool(len(rip) == 1 and S.cell_is(rip[0], '0'))
        canonical = z3.Or(z3.Not(zbool(S.cell_is(rip[0], '0'))), z3.BoolVal(len(rip) == 1))
        c.oblige(name + '/integer-part-kept-or-canonical', z3.If(up, canonical, same), 'post')


def round_up_stub(s, prec=2, maxDP=5):
    """CONTRACT STUB of round_up_str_num for callers (the contract is proved by the round_up_str_num units):
    requires  s = digits[.digits], 0 <= prec <= maxDP ;  ensures  the clauses of round_up_contract_check"""
    c = ctx()
    if hasattr(s, 'force'):
        s = s.force()
    if isinstance(prec, SInt) or isinstance(maxDP, SInt):
        raise OutOfSubset('symbolic precision')
    sp = split_decimal(s) if isinstance(s, (str, S.SStr)) else None
    if sp is None or not (0 <= prec <= maxDP):
        c.oblige('round_up_str_num/requires-nonnegative-decimal-text', False, 'callee-pre',
                 meta=dict(arg=repr(s)))
        raise PathEnd()
    ip, fp, dot = sp
    R, up = ceil_scaled(ip, fp, prec, maxDP)
    Rv = c.fresh('rup')
    c.assume(Rv == R)
    if c.decide(up):
        # canonical digits
        txt = S.format_int(SInt(Rv), prec + 1, True)
        cells = list(S.cells_of(txt))
    else:
        # integer part unchanged ('0' if empty), fraction = first prec digits zero-padded
        ipc = ip if ip else ['0']
        f5 = fp[:maxDP]
        fr = (f5 + ['0'] * prec)[:prec]
        cells = list(ipc) + list(fr)
    if prec:
        cells = cells[:-prec] + ['.'] + cells[-prec:]
    return S.mk(cells)
