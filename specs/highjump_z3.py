"""Closed-form (fork-free) z3 encoding of the abstract rule machine of specs/highjump.py with a SYMBOLIC competition
state, used for lemmas over two consecutive calls (C08: jumping-order independence).

A machine state is (s, H, bar, [JV...]) with s an Int code of the competition state; `trial(...)` returns
(legal, state') as z3 terms.  Consistency with specs/highjump.step_rank (the function the C02 obligations compare the
real code with) is itself an obligation (see props/C08.unit_swap)."""
import z3

from specs import highjump as SP

S = {n: i for i, n in enumerate(SP.STATES)}          # scheduled 0, started 1, jumpoff 2, won 3, finished 4, drawn 5


def pad_card(j, H):
    """card padded with empty cells up to H (lambda arrays, no quantifier)"""
    i = z3.Int('pz_i')
    nx = z3.Lambda([i], z3.If(i < j.n, z3.Select(j.nxA, i), 0))
    tm = z3.Lambda([i], z3.If(i < j.n, z3.Select(j.tmA, i), 0))
    return z3.If(j.n < H, nx, j.nxA), z3.If(j.n < H, tm, j.tmA), z3.If(j.n < H, H, j.n)


def jumper_step(j, H, bar, mark):
    nx, tm, n = pad_card(j, H)
    lastnx = z3.Select(nx, n - 1)
    if mark == 'x':
        nx2, tm2 = z3.Store(nx, n - 1, lastnx + 1), tm
    else:
        nx2, tm2 = nx, z3.Store(tm, n - 1, {'o': 1, '-': 2, 'r': 3}[mark])
    r = j.copy(nxA=nx2, tmA=tm2, n=n)
    if mark == 'o':
        higher = bar > j.best
        r = r.copy(best=z3.If(higher, bar, j.best), best_idx=z3.If(higher, n - 1, j.best_idx), cf=z3.IntVal(0), done=z3.BoolVal(True))
    elif mark == 'x':
        cf = j.cf + 1
        r = r.copy(cf=cf, out=z3.If(cf >= j.lim, True, j.out), done=cf >= j.lim)
    elif mark == '-':
        r = r.copy(done=z3.BoolVal(True))
    else:
        r = r.copy(out=z3.BoolVal(True), done=z3.BoolVal(True))
    return r


def rank(s, js, psums, H):
    """(state', jumpers') after re-ranking; s symbolic"""
    N = len(js)
    keys = [SP.key_of(j, ps) for j, ps in zip(js, psums)]
    pl = SP.places(keys)
    js = [j.copy(place=p) for j, p in zip(js, pl)]
    one = z3.IntVal(1)
    nrem = z3.Sum([z3.If(j.out, 0, 1) for j in js]) if N > 1 else z3.If(js[0].out, 0, 1)
    nfirst = z3.Sum([z3.If(p == 1, 1, 0) for p in pl]) if N > 1 else one
    tie = (nfirst >= 2) if N > 1 else z3.BoolVal(False)
    nobody = nrem == 0
    nc = z3.Sum([z3.If(z3.And(j.place == 1, z3.Not(j.has_retired())), 1, 0) for j in js]) if N > 1 else z3.IntVal(0)
    leader_retired = z3.Or(*[z3.And(j.place == 1, j.has_retired()) for j in js])
    case_tie = z3.And(nobody, tie)
    case_leader = z3.And(nobody, z3.Not(tie), s == S['jumpoff'], z3.Not(leader_retired))
    case_fin = z3.And(nobody, z3.Not(tie), z3.Not(case_leader))
    won_cond = z3.And(nrem == 1, z3.Or(*[z3.And(z3.Not(j.out), j.n == H, j.last_tm() == 1) for j in js]))
    out = []
    for j in js:
        re = z3.Or(z3.And(case_tie, j.place == 1, z3.Not(j.has_retired())), z3.And(case_leader, j.place == 1))
        out.append(j.copy(out=z3.If(re, False, j.out), lim=z3.If(re, 1, j.lim), cf=z3.If(re, 0, j.cf)))
    s2 = z3.If(case_tie, z3.If(nc > 0, S['jumpoff'], S['drawn']),
               z3.If(case_leader, s,
                     z3.If(case_fin, S['finished'],
                           z3.If(won_cond, z3.If(z3.Or(s == S['started'], s == S['won']), S['won'], S['finished']), s))))
    return s2, out


def trial(s, H, bar, js, psums, bi, mark):
    """(legal, s', js') of a trial by athlete bi"""
    j = js[bi]
    running = z3.Or(s == S['started'], s == S['jumpoff'], z3.And(s == S['won'], j.place == 1))
    legal = z3.And(running, SP.legal_jumper_op(j, H))
    mid = list(js)
    mid[bi] = jumper_step(j, H, bar, mark)
    s2, out = rank(s, mid, psums, H)
    return legal, s2, out


def same_view(a, b, H):
    """all fields equal (cards on the live indices)"""
    i = z3.Int('sv_i')
    return z3.And(a.n == b.n, a.best == b.best, a.best_idx == b.best_idx, a.out == b.out, a.done == b.done, a.lim == b.lim, a.cf == b.cf,
                  a.place == b.place,
                  z3.ForAll([i], z3.Implies(z3.And(i >= 0, i < a.n), z3.And(z3.Select(a.nxA, i) == z3.Select(b.nxA, i),
                                                                            z3.Select(a.tmA, i) == z3.Select(b.tmA, i)))))
