"""World Athletics combined-events formula in exact arithmetic (spec for C01/C05/C09).

points(c) = floor(A * t^X), t = distance of the centi-mark c from the zero point Z on the scoring side, 0 on the
other side; X = p/q in lowest terms; floor(A t^X) = max{P : P^q <= A^q t^p}: an integer inequality."""
from fractions import Fraction
import math


def dec(x):
    return Fraction(repr(x)) if isinstance(x, float) else Fraction(x)


class Row(object):
    def __init__(self, A, Z, X, kind):
        self.A, self.Z, self.X, self.kind = dec(A), dec(Z), dec(X), kind       # kind: 'jump' | 'throw' | 'track'
        self.p, self.q = self.X.numerator, self.X.denominator
        self.Af, self.Xf = float(self.A), float(self.X)
        # integer form of A: A = an/ad
        self.an, self.ad = self.A.numerator, self.A.denominator

    def t(self, c):
        """distance from the zero point in the units of the formula, as a Fraction (<= 0 on the non-scoring side)"""
        if self.kind == 'jump':          # centimetres
            return Fraction(c) - self.Z
        if self.kind == 'throw':         # metres
            return Fraction(c, 100) - self.Z
        return self.Z - Fraction(c, 100)

    def exact_ge(self, P, t):
        """P <= A * t^X  <=>  P^q * ad^q * td^p <= an^q * tn^p"""
        if P <= 0:
            return True
        tn, td = t.numerator, t.denominator
        return (P * self.ad) ** self.q * td ** self.p <= self.an ** self.q * tn ** self.p

    def points(self, c):
        t = self.t(c)
        if t <= 0:
            return 0
        f = self.Af * float(t) ** self.Xf
        P = int(f)
        # float estimate trusted away from integer boundaries (pow accurate to 1e-9 relative); exact otherwise
        if abs(f - round(f)) > 1e-7 * max(f, 1.0) + 1e-9:
            return max(P, 0)
        P = int(round(f))
        while not self.exact_ge(P, t):
            P -= 1
        while self.exact_ge(P + 1, t):
            P += 1
        return max(P, 0)

    def points_exact(self, c):
        t = self.t(c)
        if t <= 0:
            return 0
        P = int(self.Af * float(t) ** self.Xf)
        while not self.exact_ge(P, t):
            P -= 1
        while self.exact_ge(P + 1, t):
            P += 1
        return max(P, 0)

    def cmax(self):
        """grid end: past the zero point for track, well beyond any real mark for field"""
        if self.kind == 'track':
            return int(self.Z * 100) + 200
        if self.kind == 'jump':
            return int(self.Z) + 2500          # 25 m beyond the zero point
        return int(self.Z * 100) + 12000       # 120 m beyond


def centi_after_factor(k, F, timed):
    """times rounded up, distances rounded down to 0.01 after the age factor: integers, exact (k int or SInt)"""
    F = Fraction(F)
    n, d = F.numerator, F.denominator
    if timed:
        return -((-(n * k)) // d)
    return (n * k) // d
