HOOK_COMMITS = []
NOTES = ("Engine: pyvc (see DESIGN.md §2). Exit codes: 0 held, 1 violation (VIOLATION line + replay file), "
         "2 undecided (never a violation), 3 checker error.")
_TB = ("Trusted: pyvc proxies/AST rewrites (differentially tested against CPython on every run), z3/cvc5, "
       "CPython built-ins; per-property assumed contracts are listed in the evidence file.")
CHECKS = {
 'C13': dict(category='proof',
             text='Every obligation generated from the four real functions (result = rule-text spec, totality, '
                  'date/ISO-string agreement, monotonicity in the birth date, option frames, dispatch) is discharged by z3 '
                  'for all Gregorian dates of years 1..9999 - no leap-cycle or year bound. A refuted dispatch obligation is turned into an input by a boundary grid on the real functions; prior_date is evaluated on every day of six leap / common / century years.',
             note=_TB + ' Assumed dependency contracts: dateutil.relativedelta(d1,d2).years and dateutil.parser.parse on ISO dates '
                  '(cross-checked against dateutil on every run; exhaustively over 9 meeting years in the thorough tier). Meeting year >= 2.',
             technique='contract-based deductive verification: symbolic execution of the real functions -> VCs in LIA -> z3'),
 'C04': dict(category='proof',
             text='All union equalities (general pattern = union of families; six composites) and the pairwise disjointness of the four '
                  'measurement kinds, plus disjointness of every pair of first-match classifier answers with different units, are '
                  'regular-language queries over all Unicode strings (no length bound), each decided unsat by z3.',
             note=_TB + ' Assumes re.match succeeds iff the string is in the regular language of the pattern parse tree ($ = end or before a '
                  'final newline); the translator is validated against the real re engine on ~1000 strings x 22 patterns every run.',
             technique='regular-language inclusion/emptiness obligations generated from the compiled patterns and the explored classifiers; z3 regex solver'),
 'C19': dict(category='proof',
             text='Per-call contract of schema_valid / valid_against_schema over an arbitrary cache satisfying the ghost invariant '
                  '(entry = uncached answer, size <= 20), and the contract of _add_to_cache over a symbolic dict (stored, frame, size bound), '
                  'all discharged by z3 for ARBITRARY file names (every branch the code takes on a name is explored) with the cache consulted by the call\'s own key only; '
                  'every history follows by induction. Bundled samples evaluated through the real functions.',
             note=_TB + ' jsonschema/json/file contents assumed deterministic; induction over histories is a meta-argument; a random-history '
                  'stand-in on the real code (fresh interpreter) runs as a second line, labelled bounded.',
             technique='contract-based deductive verification with ghost cache invariant (symbolic execution -> z3) + ground evaluation of bundled files'),
 'C17': dict(category='proof',
             text='Masters clauses proved for every age band 35..10^6 (symbolic band, label built by the real "V%02d" format as a shape-typed '
                  'string, lexicographic str comparison modelled): weight defined, never heavier with age, specific code valid/normalised/'
                  'carrying the table weight; pass-through for any other text; library-produced labels and every table key: ground evaluation '
                  '(finite, complete). The index built by the combined-events scorer counts as a table; keys are re-read after every scorer was used with good and mistyped codes; frame obligations for the seven scorers; ground walk of the masters bands V35..V150.',
             note=_TB + ' Reading: U9/U11 have no implement in the table, ValueError is a permitted refusal there. Ground obligations are '
                  'evaluations of the real functions on the finite set of labels/keys, counted under backend ground-evaluation.',
             technique='contract-based deductive verification (symbolic execution on shape-typed strings -> LIA -> z3) + complete ground evaluation of table keys'),
 'C06': dict(category='proof',
             text='round_up_str_num = exact decimal ceiling for every digit content of every shape (int part 0-6, fraction 0-9 digits, with/without '
                  'point) x prec 0-5; format_seconds_as_time proved from the callee contract for every double and int in [0,100 h] x prec 0-3 '
                  '(shape, <60 fields, value in [x-noise, x+10^-prec)); parse_hms exact on 1-3 digit-field shapes with either separator, and '
                  'exception-total for any text with an unbounded number of fields (loop invariant over abstract values). All obligations z3.',
             note=_TB + " Assumed: IEEE-754 (x-int(x) exact), '%.17f' % x and float(str) correctly rounded (CPython dtoa), ASCII digit contents. "
                  'Shapes are bounded by length (superset of the property domain 4/7); a sampled-grid stand-in on the real functions runs as second line.',
             technique='contract-based deductive verification: symbolic execution over shape-typed strings / float proxy / abstract values with loop cut -> LIA/LRA -> z3'),
 'C11': dict(category='other',
             text='For every table row of Tyrving (all ages), QuadKids, Sportshall and Bulgarian: points returned by the real public function = '
                  'exact-arithmetic table formula / look-up for every integer centi-mark in and well beyond the table, for float, int and the '
                  'documented text forms (symbolic digits), with float-robustness obligations at every truncation decided exactly in rational '
                  'arithmetic; table order / key validity as complete ground obligations. Level other (not proof) because one ground obligation '
                  'is a recorded known finding (Bulgarian U16F600 rows). Contract of the Sportshall load_data: every column equals the raw sheet read independently.',
             note=_TB + ' IEEE-754 binary64 error analysis in the float proxy (u=2^-53); float(str) correctly rounded; marks on the 0.01 grid; '
                  'text shapes bounded in length (listed per unit).',
             technique='contract-based deductive verification: symbolic execution with float proxy (exact affine value + certified error) -> LIA -> z3; ground table obligations'),
 'C01': dict(category='proof',
             text='(A) for all marks and all ages at once (symbolic): the rounding stage of score() = exact ceil/floor(k*F) in centi-units '
                  '(float-robustness decided exactly), age-band factor = table entry (1 below 35), guard consistent, the power stage applied to '
                  'that centi-mark with the row coefficients (term equality), no exception; (B) the power stage evaluated on EVERY centi-mark of '
                  'every row (3.4 M, complete) against the exact integer characterisation; coefficients = pinned official table. (A)+(B) cover the domain. Static frame obligation for score() (class-level containers reached through self included), the ESAA option on other rows, and a bounded history check (points after the other graders of the package were asked = points in a forked fresh process).',
             note=_TB + ' IEEE-754 error analysis in the float proxy; the ground stage is complete evaluation (backend ground-evaluation), so no '
                  'assumption on libm pow remains; reading: with an age, events absent from the age table may refuse with ValueError.',
             technique='contract-based deductive verification (symbolic execution + float proxy -> z3) composed with complete ground evaluation of the power stage'),
 'C09': dict(category='other',
             text='Ground-complete: for every row x every integer target -10..1500 the real performance() result k satisfies S(k) >= target and '
                  'S(next worse) < target in exact integer arithmetic (72 528 obligations), plus symbolic exception-freedom and None for unknown '
                  'pairs. Not SMT-proved (inverse power has no theory): level other.',
             note=_TB + ' The real score() is evaluated on the returned mark and on the next-worse grid mark of every obligation as well; coefficients pinned.',
             technique='postcondition of performance() checked as complete ground obligations (exact integer arithmetic) + symbolic exploration for exceptions'),
 'C05': dict(category='other',
             text='Table/linear systems: f = exact spec on every centi-mark (C11 obligations re-discharged from the real code) + z3 lemmas over two '
                  'symbolic marks that each spec is monotone, within bounds, and Tyrving manual <= automatic; combined events: rounding stage exact for '
                  'every age band (C01 obligations) + lemma ceil/floor(k*F) monotone + every adjacent pair of the power-stage grid; Hungarian and '
                  'Bulgarian: every adjacent grid pair of every row through the real function (complete ground evaluation). Level other: part is '
                  'ground evaluation and one known finding (Bulgarian U16F600) stays refuted. Frame obligations for every scorer (no state kept between calls) and a bounded Tyrving history check (hand-timed marks in between).',
             note=_TB + ' Hungarian range as the property defines it (timed <= zero point, field where the formula >= 0).',
             technique='contract-based deductive verification (equality with exact spec + relational z3 lemmas on the spec) and complete ground adjacency sweeps'),
 'C14': dict(category='other',
             text='For every row of both single-event tables and both genders: calculate_factor on a symbolic age (exact h/2 over the row domain '
                  'to 20 years past the last column, split at the tabulated ages) never raises and equals the interpolation of the two adjacent '
                  'non-null entries (z3 equality of exact values + certified float error <= 1e-12); spelling/case independence, best and grade '
                  'identities (4 ulp), exactly 1.0, strict monotonicity and the combined-events band factors: complete ground evaluation of the '
                  'property domain. Level other: ground part + one known finding (zero entry in the 2015 women PV row). Ground: the table in use equals the data file; the package-level wrappers satisfy the grade identity for every spelling of the year and answer from the table of the year on first use in a fresh interpreter; whole ages as int and as float.',
             note=_TB + ' Case variants that are not event codes (e.g. 5m for 5 miles) may be refused.',
             technique='contract-based deductive verification (symbolic execution with exact-rational age + float proxy -> LRA -> z3) + complete ground evaluation'),
 'C15': dict(category='other',
             text='For a symbolic whole-metre distance in [20 m, 400 km], per table x gender (x sampled ages for the factor): the real '
                  'calculate_factor / world_best never raise; when two rows adjacent in the table scan bracket the distance, the factor lies '
                  'between their factors and the open best between their bests and is increasing inside the bracket (z3 LRA/NRA over the '
                  'distance, certified float error); both table ends use the end row; the contract of get_distance on the road spellings '
                  'N[.dd]K / N[.dd]M with symbolic digits (whole metres, at most one short) carries these clauses to every spelling. '
                  'No undecided path on this tree (error-zone comparisons are decided by evaluating both sides at the single input in the zone). '
                  'Level other: ages are sampled. Ground: the table in use equals the data file; every tabulated code asked by its own code answers with its own row; monotonicity also ACROSS code paths of world_best (paths renamed apart).',
             note=_TB + ' get_distance of the queried code by contract (symbolic distance); ages sampled {30, 47.5, 80, 100}; '
                  'reading of "nearest shorter/longer" = rows adjacent in the table scan that bracket the distance column.',
             technique='contract-based deductive verification (symbolic execution with float proxy, path-sensitive bounds -> LRA/NRA -> z3; callee contract of get_distance on shape-typed spellings) + bounded stand-in as second line'),
 'C02': dict(category='proof',
             text='Per public method, per competition state, N in {1,2} athletes (N=3 for the richest cases; all of N=3 in the thorough tier), on '
                  'a symbolic pre-state of REAL objects with proxy fields (cards and heights of unbounded symbolic length) satisfying the '
                  'invariant: refused <=> the rules forbid; refusal raises RuleViolation and changes no field and not the log; acceptance yields '
                  'exactly the state of the abstract rule machine (card, best, flags, places, state), logs exactly the call, preserves the invariant, '
                  'never moves the state backwards; nothing accepted in finished/drawn. Every history follows by induction.',
             note=_TB + ' N fixed per instance; induction over the history is the meta-argument; the padding loop is cut by a quantified invariant; '
                  'refuted obligations are turned into concrete histories by a bounded lock-step search against the executable rule machine.',
             technique='contract-based deductive verification: class invariant + per-method forward simulation against an abstract rule machine, symbolic heap (z3 arrays, LIA/LRA)'),
 'C03': dict(category='other',
             text='Symbolic: places = standard competition ranking of the countback key, key = countback key of the card, best = max(best, bar), '
                  'finished => exactly one first, drawn/jump-off conditions (C02 harness + lemmas on the rule machine); bounded: complete random '
                  'competitions on the real class, terminal placings recomputed from the cards alone (incl. lowered jump-off bars). Level other '
                  'because the terminal-state clause is bounded.',
             note=_TB + ' N fixed per instance (1-3).', technique='contract-based deductive verification (per-method obligations, rule-machine lemmas in z3) + bounded stand-in for the terminal clause'),
 'C08': dict(category='other',
             text='Symbolic: for every mutator and EVERY order of ranked_jumpers, log exactness (accepted call appended exactly, refused call '
                  'changes nothing) and post-state = function of observable pre-state and argument (C02 harness) - replay equality by induction; '
                  'from_actions itself is under contract for a log of any length (loop cut, ghost counter: every logged action replayed once, in order, on one '
                  'fresh instance, no early exit); swap lemma on the rule machine for the jumping order; '
                  'bounded: to_matrix/from_matrix round trip, trials, per-height interleavings on random competition prefixes.',
             note=_TB + ' from_matrix/to_matrix are bounded only (labelled); the swap lemma is over the abstract machine, linked to the code by the per-method obligations.',
             technique='contract-based deductive verification (log exactness + determinism per method) + bounded stand-in (replay, card round trip, schedules)'),
 'C07': dict(category='other',
             text='Symbolic (z3): (i) the five helper normalisers on shape-typed strings of their pattern group: value preserved, canonical '
                  'result language, idempotent; (ii) the REAL normalize_event_code (with its helpers and every module pattern executed by an exact '
                  'symbolic regex matcher) on "any content" of every shape of the general pattern (every alternative / optional part / repeat '
                  'bound; all digit, letter-case and whitespace contents at once): the normal form is accepted, whitespace-free, unchanged by '
                  'normalising again, in the same families; upper/lower-case, space-free, k/kg, g and trailing-zero / bare-point variants of the '
                  'same symbolic string normalise to the identical code; with one position replaced by an ARBITRARY character the string is '
                  'normalised exactly when it is accepted and refused with ValueError otherwise. Frame obligation: no write to shared state. '
                  'Bounded second line: run-time contract on the enumerated language (108 k codes) and variants, near misses after their accepted twin. '
                  'One known finding (timed family patterns disagree on spelling).',
             note=_TB + ' Shapes have concrete length: repeats at min, min+1 and their maximum, digit runs up to 5; the 130 000 shapes that carry a '
                  'hurdle specification are sampled in the quick tier (every 2nd / 200th), all in thorough. Digit contents ASCII. The symbolic matcher '
                  'interprets the parse tree of the real compiled pattern with re\'s backtracking order and is compared with re on every run.',
             technique='contract-based deductive verification: symbolic execution of the real normaliser on shape-typed strings with an exact symbolic regex matcher -> LIA -> z3; run-time contracts on the enumerated language as bounded second line'),
 'C10': dict(category='other',
             text='Symbolic (z3): the seven real functions on "any content" of every shape of the general event-code pattern (all digit, case '
                  'and whitespace contents at once): none raises; the key is (group of the family chain, distance >= 0, code); the distance '
                  'component equals the leading digits / 1609 x miles / whole metres of the relay leg; the text key renders the key, and a lemma '
                  'proves that this rendering orders like the tuple for distances below 100 km (symbolic group, distance, tails); relay '
                  'distance = legs x leg metres; duration events exactly get a time; unit and kind classifiers answer. sort_by_discipline is '
                  'verified MODULARLY against the key contract for every list of up to three records (dicts / objects, discipline A, B, None or '
                  'missing, keys that may tie): permutation, non-decreasing, no exception. Regular-language inclusions (classifier chain covers '
                  'the language; every field code has a position). Frame obligations for the seven functions. Bounded second line: run-time '
                  'contracts on the enumerated language, random key pairs and lists.',
             note=_TB + ' Shapes as for C07 (concrete length; hurdle-specification shapes sampled in quick, all in thorough); ASCII digits; int() of '
                  'a binary product next to an integer may fall one short (contract tolerance). Readings: relays ordered by leg distance; SC/SH/LH '
                  'and NNNNSC sort with the hurdles.',
             technique='contract-based deductive verification: symbolic execution of the real functions on shape-typed strings with an exact symbolic regex matcher -> LIA -> z3, modular sorter unit, regular-language obligations; enumerated-language run-time contracts as bounded second line'),
 'C12': dict(category='other',
             text='Symbolic: for disciplines covering every branch and every admissible-text shape (1-3 colon fields, 0-3 decimals, dot/comma/'
                  'semicolon) with symbolic digits: only the supplied error class escapes; returned text has seconds/minutes below 60; its duration '
                  'keeps the speed within the documented limits; field marks two decimals below record x ulpc; multi scores < 10000; re-validation '
                  'is ACCEPTED and returns the text unchanged (z3, float proxy), with the default precision and on cheap shapes with prec=0 (all '
                  'precisions in the thorough tier); the clause that applies to a code is taken from the event-code families, not from the '
                  'validator\'s own membership tests; frame obligation (no shared writes). Bounded: run-time contract on the real function over codes from the whole accepted '
                  'language x a text grammar x gender x precision x custom error class + a directed boundary grid. Two known findings (prec=0 texts '
                  'that the reading heuristics re-interpret). The record rows in use equal the literals of the source (distinct objects, overall = larger of the two); one representative of every shape of the field-code patterns in the boundary grid.',
             note=_TB + ' Text shapes bounded (quick tier trims the longest shapes, thorough runs all); speed limits with 0.01 m/s tolerance.',
             technique='contract-based deductive verification (symbolic execution on shape-typed texts + float proxy -> LIA/LRA -> z3) + run-time contract stand-in'),
 'C16': dict(category='other',
             text='Not the property as stated (interleavings are outside per-call contracts) but a SUFFICIENT frame/ownership condition, inferred '
                  'from the AST of every function reachable from the entry points over shared module state: each write to a shared location is '
                  'absent, a single publish of a completely built object, or inside a module-level lock region (and such containers are read '
                  'under the lock); writes to attributes of imported modules count as shared; a lock taken with .acquire() must be released in a finally; calls through '
                  'with-statements, wrapped functions and function-valued parameters are followed; no per-thread ambient state (decimal context, '
                  'threading.local) is configured. Rejected sites are replayed with forced pre-emptions (one or two pauses, sys.settrace), a '
                  'lock-leak schedule, or a main-thread / other-thread differential to exhibit a wrong answer.',
             note=_TB + ' GIL atomicity of a reference store; call graph over-approximated by name; the condition can only over-report.',
             technique='frame (modifies-set) inference over the real functions + publish-after-complete / lock-region rule; forced-schedule replay'),
 'C18': dict(category='other',
             text='No JS function body is under contract (no JS front end here): nothing about the JS code is counted as proved. Complete ground '
                  'check: the Tyrving / QuadKids tables and the competition-type map of js/src equal the Python tables entry by entry. Bounded '
                  'differential run: the JS functions loaded under node (imports rewritten mechanically to require) against their Python twins '
                  '- which are under contract in C06/C07/C11 - on the C06/C11 grids incl. hand-timed marks and every spelling of a time (h/m fields, : . , separators).',
             note=_TB + ' node 20; differential run is a bounded stand-in, labelled so.',
             technique='complete table equality (ground) + bounded node differential against the contract-verified Python twins'),
}
_NYB = 'check not built yet in this build round (planned, see DESIGN.md §5); no claim is made'
NOT_APPLICABLE = {}
