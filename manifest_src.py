HOOK_COMMITS = []
NOTES = ("Engine: pyvc (see DESIGN.md §2). Exit codes: 0 held, 1 violation (VIOLATION line + replay file), "
         "2 undecided (never a violation), 3 checker error.")
_TB = ("Trusted: pyvc proxies/AST rewrites (differentially tested against CPython on every run), z3/cvc5, "
       "CPython built-ins; per-property assumed contracts are listed in the evidence file.")
CHECKS = {
 'C13': dict(category='proof',
             text='Every obligation generated from the four real functions (result = rule-text spec, totality, '
                  'date/ISO-string agreement, monotonicity in the birth date, option frames, dispatch) is discharged by z3 '
                  'for all Gregorian dates of years 1..9999 - no leap-cycle or year bound.',
             note=_TB + ' Assumed dependency contracts: dateutil.relativedelta(d1,d2).years and dateutil.parser.parse on ISO dates '
                  '(cross-checked against dateutil on every run; exhaustively over 9 meeting years in the thorough tier). Meeting year >= 2.',
             technique='contract-based deductive verification: symbolic execution of the real functions -> VCs in LIA -> z3'),
}
_NYB = 'check not built yet in this build round (planned, see DESIGN.md §5); no claim is made'
NOT_APPLICABLE = {p: _NYB for p in ['C01','C02','C03','C04','C05','C06','C07','C08','C09','C10','C11','C12','C14','C15','C16','C17','C18','C19']}
