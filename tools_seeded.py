#!/usr/bin/env python3
"""confirm a sub-agent's seeded change in its scratch worktree, store it under /verif/seeded/<name>/, and run the check against it.
usage: tools_seeded.py <prop> <worktree> <k> [<name>]"""
import json, os, shutil, subprocess, sys
prop, wt, k = sys.argv[1], sys.argv[2], sys.argv[3]
name = sys.argv[4] if len(sys.argv) > 4 else '%s-%s' % (prop, k)
src = os.path.join(wt, 'seeded', k)
sh = lambda cmd, **kw: subprocess.run(cmd, shell=True, capture_output=True, text=True, **kw)
def tests(tree):
    r = sh('cd %s && PYTHONPATH=%s /venv/bin/python -m pytest -q -p no:cacheprovider 2>&1 | tail -1' % (tree, tree))
    return r.stdout.strip()
def demo(tree):
    r = sh('cd /tmp && PYTHONPATH=%s /venv/bin/python %s/demo.py' % (tree, src))
    return r.returncode, (r.stdout + r.stderr)[-400:]
sh('git -C %s checkout -- .' % wt)
base_demo = demo(wt)
ap = sh('git -C %s apply %s/patch.diff' % (wt, src))
assert ap.returncode == 0, ap.stderr
t = tests(wt)
mut_demo = demo(wt)
sh('git -C %s checkout -- .' % wt)
files = sh("grep '^+++ ' %s/patch.diff" % src).stdout.split()
ok = ('92 passed' in t) and base_demo[0] == 0 and mut_demo[0] != 0
print('confirm: tests=%r demo clean=%d mutated=%d -> %s' % (t, base_demo[0], mut_demo[0], 'OK' if ok else 'REJECT'))
if not ok:
    sys.exit(1)
dst = '/verif/seeded/%s' % name
os.makedirs(dst, exist_ok=True)
for f in ('patch.diff', 'demo.py', 'note.txt'):
    if os.path.exists(os.path.join(src, f)):
        shutil.copy(os.path.join(src, f), dst)
# run the check on the scratch worktree with the patch applied (ATHLIB_TREE), outputs to a scratch directory: /repo and the
# committed evidence are not touched
head = sh('git -C /repo rev-parse HEAD').stdout.strip()
if sh('git -C %s rev-parse HEAD' % wt).stdout.strip() != head:
    assert sh('git -C %s checkout -q --detach %s' % (wt, head)).returncode == 0
ap = sh('git -C %s apply %s/patch.diff' % (wt, dst))
assert ap.returncode == 0, ap.stderr
out = '/tmp/seeded_out/%s' % name
shutil.rmtree(out, ignore_errors=True)
os.makedirs(out)
try:
    r = sh('cd /verif && ATHLIB_TREE=%s VERIF_OUT=%s ./check %s --quick' % (wt, out, prop))
finally:
    sh('git -C %s checkout -- .' % wt)
lines = [l for l in (r.stdout + r.stderr).splitlines() if any(w in l for w in ('VIOLATION', 'UNDECIDED', 'CHECKER', 'quick:'))]
caught = r.returncode == 1 and any(l.startswith('VIOLATION') for l in lines)
print('check exit=%d caught=%s' % (r.returncode, caught))
for l in lines[:6]:
    print('   ', l[:200])
meta = dict(property=prop, source='sub-agent in scratch worktree %s (no access to /verif)' % wt,
            needs=open(os.path.join(dst, 'note.txt')).read() if os.path.exists(os.path.join(dst, 'note.txt')) else '',
            confirmed=dict(tests_with_change=t, demo_exit_clean=base_demo[0], demo_exit_with_change=mut_demo[0],
                           commands=['git apply patch.diff', 'PYTHONPATH=<tree> /venv/bin/python -m pytest -q -p no:cacheprovider',
                                     'PYTHONPATH=<tree> /venv/bin/python demo.py']),
            check=dict(cmd='ATHLIB_TREE=<tree with the patch> ./check %s --quick' % prop, exit=r.returncode, caught=caught, lines=lines[:6]))
json.dump(meta, open(os.path.join(dst, 'meta.json'), 'w'), indent=1)
