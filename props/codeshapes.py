"""Shared by C07 and C10: the shapes of the event-code language and the re-compiled functions of athlib.utils that run on
them (every module-level pattern replaced by its exact symbolic matcher, pyvc.symre)."""
import re

from pyvc import shapes as SH, symre, sstr as S
from pyvc.instrument import instrument
from pyvc.util import real_module

FAMS = ['PAT_THROWS', 'PAT_JUMPS', 'PAT_TRACK', 'PAT_HURDLES', 'PAT_ROAD', 'PAT_RELAYS', 'PAT_MULTI', 'PAT_RACES_FOR_DISTANCE',
        'PAT_HIGHSCORING_EVENT', 'PAT_LOWSCORING_EVENT']


def codes():
    return real_module('athlib.codes')


def has_spec(shape):
    """carries a hurdle specification (…cm…): the part of the language whose shapes multiply"""
    return any(isinstance(a, str) and a == 'c' and isinstance(b, str) and b == 'm' for a, b in zip(shape, shape[1:]))


def shape_sets(tier, spec_every=(1, 100)):
    """list of (family, shape).  Shapes come in two generations: (0) every alternative, optional part and both ends of every
    bounded repeat, unbounded repeats at their minimum; (1) one more repetition of every unbounded repeat and digit runs of 3-5.
    Both tiers: all shapes WITHOUT a hurdle specification; of those with one (the part of the language whose shapes multiply:
    130 000 of them) a deterministic sample, every spec_every[g]-th of generation g in quick, 25 times as many in thorough (all
    of them would take hours)."""
    c = codes()
    out, seen = [], set()

    def add(fam, shapes):
        for s in shapes:
            k = SH.key(s)
            if k not in seen:
                seen.add(k)
                out.append((fam, s))
    if tier == 'thorough':
        spec_every = (1, max(1, spec_every[1] // 25))
    for fam in FAMS:
        base = SH.shapes(getattr(c, fam), 0)
        add(fam, [s for s in base if not has_spec(s)])
        add(fam, [s for s in base if has_spec(s)][::spec_every[0]])
    for fam in FAMS:
        full = SH.shapes(getattr(c, fam), 1, (3, 4, 5))
        add(fam, [s for s in full if not has_spec(s)])
        spec = [s for s in full if has_spec(s)]
        add(fam, spec[::spec_every[1]])
    return out


class Namespace(object):
    """the functions of athlib.utils re-compiled into ONE namespace in which every compiled pattern is a symre.SymRe and the
    functions call each other's re-compiled versions"""
    def __init__(self, names, module='athlib.utils'):
        u = real_module(module)
        self.module = u
        sh = symre.shadows_for(u)
        self.inst = {}
        first = None
        for n in names:
            f = getattr(u, n)
            if first is None:
                first = self.inst[n] = instrument(f, shadows=sh)
            else:
                self.inst[n] = instrument(f, share_globals=first)
        g = first.fn.__globals__
        # tables of functions (the group -> normaliser map) must refer to the re-compiled functions
        for k, v in list(g.items()):
            if isinstance(v, dict) and v and all(callable(x) for x in v.values()):
                new = {}
                for kk, fn in v.items():
                    nm = getattr(fn, '__name__', None)
                    new[kk] = self.inst[nm].fn if nm in self.inst else fn
                g[k] = new
        self.globals = g

    def __getitem__(self, n):
        return self.inst[n]

    def describe(self):
        return [i.describe() for i in self.inst.values()]


def sym_patterns(names=None):
    c = codes()
    return {n: symre.SymRe(getattr(c, n)) for n in (names or [x for x in dir(c) if x.startswith('PAT_')])}


def selfcheck_matcher(strings):
    """differential validation of the symbolic matcher against `re` (concrete strings)"""
    c = codes()
    pats = [v for n, v in vars(c).items() if isinstance(v, re.Pattern)]
    return symre.selfcheck(pats, strings)


def show(shape):
    return SH.show(shape)
