"""C10 - every valid event code can be sorted, measured and classified without error.

Under contract: utils.discipline_sort_key, text_discipline_sort_key, sort_by_discipline, get_distance,
get_duration_event_time; athlon_score.unit_name; AgeGrader.event_code_to_kind.

Deductive (regular-language obligations over ALL strings, z3, no length bound):
  * the classifier chain of event_code_to_kind (explored symbolically on an opaque string) covers L(PAT_EVENT_CODE);
  * every accepted field code (throws, jumps) has a listed prefix of length 4, 3 or 2 in FIELD_SORT_ORDER (the look-up
    of the sort key is defined), generated from the list of the imported module.
Bounded (labelled so): the contracts of all seven functions evaluated at run time on the language of the general
pattern enumerated from its syntax tree (every alternative and optional part, repeats bounded by min+1, every member of
every character class incl. all whitespace characters, both letter cases): no exception, key shape, group by family,
distance component, field order, text key = tuple key order on random pairs, sorter = permutation sorted by key (missing
disciplines accepted), relay distance = legs x leg distance."""
import random
import re

import z3

from pyvc import report, langgen as G, regex2smt as R
from pyvc.core import explore
from pyvc.instrument import instrument
from pyvc.strings import SOpaqueStr, SymPattern
from pyvc.util import real_module

PROP = 'C10'


def codes():
    return real_module('athlib.codes')


def utils():
    return real_module('athlib.utils')


def language():
    return G.strings(codes().PAT_EVENT_CODE, 1)


FIELD_CONVENTION = ['HJ', 'PV', 'LJ', 'TJ', 'SP', 'DT', 'HT', 'JT']


def expected_group(s):
    c = codes()
    if c.PAT_THROWS.match(s):
        return (4,)
    if c.PAT_JUMPS.match(s):
        return (3,)
    if c.PAT_RELAYS.match(s):
        return (5,)
    if c.PAT_HURDLES.match(s):
        return (2,)
    if c.PAT_TRACK.match(s):
        # bare SC / SH / LH are hurdles or steeplechase without a distance
        return (2,) if s.upper() in ('SC', 'SH', 'LH') else (1,)
    return (6,)


def expected_distance(s, group):
    """distance component of the key, or None where the property does not fix it"""
    u = s.upper()
    if group in (1, 2):
        if u.startswith('MILE'):
            return 1609
        m = re.match(r'^(\d)MILE', u)
        if m:
            return 1609 * int(m.group(1))
        m = re.match(r'^([2345])MT$', u)
        if m:
            return 1609 * int(m.group(1))
        m = re.match(r'^(\d+)', s)
        if m:
            return int(m.group(1))
        return None
    if group == 5:
        m = codes().PAT_RELAYS.match(s)
        if m.group(3) and m.group(3).isascii():
            # leg distance in metres: number x unit (none or H: metres, K: kilometres, M: miles)
            q = float(m.group(3))
            suf = m.group(2)[len(m.group(3)):].upper()
            return int(q * {'': 1, 'H': 1, 'K': 1000, 'M': 1609}[suf])
    return None


def check_code(s):
    """run-time contracts of the seven functions on one accepted code; returns a description of the first failure"""
    u = utils()
    a = real_module('athlib.athlon_score')
    AG = real_module('athlib.wma.agegrader').AgeGrader
    try:
        k = u.discipline_sort_key(s)
    except Exception as e:
        return 'discipline_sort_key raises %s' % type(e).__name__
    if not (isinstance(k, tuple) and len(k) == 3 and isinstance(k[0], int) and isinstance(k[1], int) and k[2] == s and k[1] >= 0):
        return 'discipline_sort_key returned %r' % (k,)
    if (k[0],) != expected_group(s):
        return 'sort group %r, expected %r' % (k[0], expected_group(s)[0])
    d = expected_distance(s, k[0])
    if d is not None and k[1] != d:
        return 'sort distance %r, expected %r' % (k[1], d)
    try:
        t = u.text_discipline_sort_key(s)
    except Exception as e:
        return 'text_discipline_sort_key raises %s' % type(e).__name__
    if t != '%d_%05d_%s' % k:
        return 'text key %r does not render %r' % (t, k)
    try:
        dist = u.get_distance(s)
    except Exception as e:
        return 'get_distance raises %s' % type(e).__name__
    if not (dist is None or (isinstance(dist, int) and not isinstance(dist, bool) and dist >= 0)):
        return 'get_distance returned %r' % (dist,)
    m = codes().PAT_RELAYS.match(s)
    if m and m.group(3) and m.group(4) is None and m.group(2).isascii() and m.group(2).isdigit():
        if dist != int(m.group(1)) * int(m.group(2)):
            return 'relay distance %r, expected legs x leg = %r' % (dist, int(m.group(1)) * int(m.group(2)))
    elif m and m.group(3) and m.group(3).isascii() and m.group(1).isascii():
        # legs written in kilometres, miles or with a decimal: legs x (whole metres of the leg, at most one short per leg)
        from fractions import Fraction
        suf = m.group(2)[len(m.group(3)):].upper()
        if suf in ('', 'H', 'K', 'M'):
            leg = Fraction(m.group(3)) * {'': 1, 'H': 1, 'K': 1000, 'M': 1609}[suf]
            legs = int(m.group(1))
            if not (isinstance(dist, int) and (legs * (leg - 2) < dist or legs == 0) and dist <= legs * leg):
                return 'relay distance %r, expected legs x leg = %s x %s m' % (dist, legs, leg)
    try:
        dur = u.get_duration_event_time(s)
    except Exception as e:
        return 'get_duration_event_time raises %s' % type(e).__name__
    if bool(codes().PAT_RACES_FOR_DISTANCE.match(s)) != (dur is not None):
        return 'get_duration_event_time returned %r' % (dur,)
    try:
        un = a.unit_name(s)
        kd = AG.event_code_to_kind(s)
    except Exception as e:
        return 'unit/kind classifier raises %s' % type(e).__name__
    if un not in ('metres', 'seconds') or not isinstance(kd, str):
        return 'unit %r kind %r' % (un, kd)
    return None


def chunk(strs):
    bad = []
    for s in strs:
        w = check_code(s)
        if w:
            bad.append((s, w))
            if len(bad) > 200:
                break
    return len(strs), bad


def pairs_and_sorter(seed, lang):
    """text key vs tuple key on random pairs; sorter contract on random lists"""
    rnd = random.Random(seed)
    u = utils()
    bad = []
    n = 0
    keys = {}
    sample = [rnd.choice(lang) for _ in range(3000)] + ['100', '200', '1500', '10000', '99999', '100H', '400H', '3000SC', 'HJ', 'PV', 'LJ', 'TJ', 'SP', 'DT', 'HT',
                                                        'JT', '4x100', '4x400', 'MAR', 'DEC', '5K', '60', '60H', 'MILE', '2MILE']
    for s in sample:
        try:
            keys[s] = (u.discipline_sort_key(s), u.text_discipline_sort_key(s))
        except Exception:
            pass
    ks = list(keys)
    for _ in range(200000):
        a, b = rnd.choice(ks), rnd.choice(ks)
        (ka, ta), (kb, tb) = keys[a], keys[b]
        n += 1
        if ka[1] < 100000 and kb[1] < 100000 and ((ka < kb) != (ta < tb)):
            bad.append(('text-key-order', a, b, ta, tb))
            break
    # conventional field order
    pos = [u.discipline_sort_key(x) for x in FIELD_CONVENTION]
    if pos != sorted(pos):
        bad.append(('field-order', FIELD_CONVENTION, pos))
    if not (u.discipline_sort_key('100') < u.discipline_sort_key('60H') < u.discipline_sort_key('HJ') < u.discipline_sort_key('SP')
            < u.discipline_sort_key('4x100') < u.discipline_sort_key('DEC')):
        bad.append(('group-order', 'track < hurdles < jumps < throws < relays < other'))
    # sorter
    for _ in range(300):
        items = []
        for i in range(rnd.randrange(0, 12)):
            r = rnd.random()
            if r < 0.15:
                items.append(dict(id=i))
            elif r < 0.25:
                items.append(dict(id=i, discipline=None))
            else:
                items.append(dict(id=i, discipline=rnd.choice(ks)))
        n += 1
        try:
            out = u.sort_by_discipline(list(items))
        except Exception as e:
            bad.append(('sorter-raises', type(e).__name__, [x.get('discipline') for x in items]))
            break
        kk = [u.discipline_sort_key(x.get('discipline')) for x in out]
        if sorted(map(id, out)) != sorted(map(id, items)) or kk != sorted(kk):
            bad.append(('sorter', [x.get('discipline') for x in items], [x.get('discipline') for x in out]))
            break
    return n, bad


def _work(job):
    if job[0] == 'chunk':
        return ('chunk',) + chunk(job[1])
    return ('pairs',) + pairs_and_sorter(job[1], job[2])


# ---------------------------------------------------------------------------- deductive: regular-language obligations
def ci(word):
    """case-insensitive literal as z3 regex"""
    parts = []
    for ch in word:
        if ch.lower() != ch.upper():
            parts.append(z3.Union(z3.Re(z3.StringVal(ch.lower())), z3.Re(z3.StringVal(ch.upper()))))
        else:
            parts.append(z3.Re(z3.StringVal(ch)))
    return z3.Concat(*parts) if len(parts) > 1 else parts[0]


def regex_obligations(run):
    c = codes()
    full = z3.Full(z3.ReSort(z3.StringSort()))
    # 1. classifier chain of event_code_to_kind covers the accepted language
    AG = real_module('athlib.wma.agegrader').AgeGrader
    agm = real_module('athlib.wma.agegrader')
    patnames = [n for n in dir(agm) if n.startswith('PAT_')]
    f = instrument(AG.event_code_to_kind, shadows={n: SymPattern(getattr(agm, n), n) for n in patnames})
    run.add_function(f)

    def runf():
        return f(SOpaqueStr.fresh('code'))
    paths, stats = explore(runf)
    run.paths += len(paths)
    matched = []
    for p in paths:
        pos = [n for k, n in p.notes if k == 'match']
        if p.outcome == 'ret' and pos:
            matched.append(pos[-1])
    union = R._union(R.lang(getattr(agm, n)) for n in sorted(set(matched))) if matched else z3.Empty(z3.ReSort(z3.StringSort()))
    v, w = R.subset(R.lang(c.PAT_EVENT_CODE), union)
    _rec(run, 'event_code_to_kind/every-accepted-code-is-classified', v, w, 'AgeGrader.event_code_to_kind(%r)',
         lambda s: _raises(AG.event_code_to_kind, s))
    # 2. field codes have a listed prefix in FIELD_SORT_ORDER
    pref = R._union(z3.Concat(ci(e), full) for e in c.FIELD_SORT_ORDER if 2 <= len(e) <= 4)
    v, w = R.subset(z3.Union(R.lang(c.PAT_THROWS), R.lang(c.PAT_JUMPS)), pref)
    _rec(run, 'discipline_sort_key/every-field-code-has-a-position-in-FIELD_SORT_ORDER', v, w, 'discipline_sort_key(%r)',
         lambda s: _raises(utils().discipline_sort_key, s) or utils().discipline_sort_key(s)[1] >= len(c.FIELD_SORT_ORDER))
    # 3. relays: the leg text of a relay with a numeric leg is a distance code get_distance understands
    # (digits, optional decimals, optional h/H/M/K) - shape lemma on the pattern's own group
    run.sample(dict(obligation='L(PAT_EVENT_CODE) subseteq union of the classifier chain', chain=sorted(set(matched))))


def _raises(f, s):
    try:
        f(s)
        return False
    except Exception:
        return True


def _rec(run, name, v, w, callfmt, bad_on_real):
    if v == 'unsat':
        run.record(name, 'language-inclusion', 'proved', 'z3-regex', 0.0, 'regex')
    elif v == 'sat':
        w = R.unescape(w)
        run.record(name, 'language-inclusion', 'refuted', 'z3-regex', 0.0, 'regex')
        bad = bool(bad_on_real(w))
        rep = dict(call=callfmt % w, witness=w, observed='raises / undefined' if bad else 'fine', input=['code', w])
        if bad:
            run.violation(name, rep, True)
        else:
            run.spurious_model(name, rep)
    else:
        run.record(name, 'language-inclusion', 'unknown', 'z3-regex', 0.0, 'regex', 'solver unknown')


def replay(rep):
    s = rep['input'][1]
    w = check_code(s) if codes().PAT_EVENT_CODE.match(s) else 'not an event code'
    print('replay %s: %r -> %r' % (rep['obligation'], s, w))
    bad = bool(w) and w != 'not an event code'
    print('VIOLATION reproduced' if bad else 'not reproduced on this tree')
    return 1 if bad else 0


def main(tier, seed):
    run = report.Run(PROP, tier, seed)
    run.expected_min_obligations = 3
    run.level_claim = 'other'
    run.explanation = __doc__
    run.assume('re semantics as in C04 (translator validated there)', 'z3 regex solver',
               'bounded part: language enumerated from the syntax tree with repeats bounded by min+1 and one-at-a-time class variation',
               'reading: relays are ordered by leg distance; bare SC/SH/LH sort with the hurdles; steeplechase NNNNSC sorts with the hurdles')
    u = utils()
    for n in ('discipline_sort_key', 'text_discipline_sort_key', 'sort_by_discipline', 'get_distance', 'get_duration_event_time'):
        run.add_function(instrument(getattr(u, n)))
    run.add_function(instrument(real_module('athlib.athlon_score').unit_name))
    regex_obligations(run)
    from pyvc.frames import frame_obligations
    frame_obligations(run, [u.discipline_sort_key, u.text_discipline_sort_key, u.sort_by_discipline, u.get_distance, u.get_duration_event_time,
                            real_module('athlib.athlon_score').unit_name, real_module('athlib.wma.agegrader').AgeGrader.event_code_to_kind])
    lang = language()
    step = 4000
    J = [('chunk', lang[i:i + step]) for i in range(0, len(lang), step)] + [('pairs', seed, lang)]
    results = report.pool_map(_work, J)
    n = 0
    allbad = []
    for res in results:
        if isinstance(res, dict):
            run.checker_error(res['_crash'])
            continue
        if res[0] == 'chunk':
            n += res[1]
            allbad += res[2]
        else:
            n += res[1]
            for b in res[2]:
                run.record('ordering/%s' % b[0], 'ground', 'refuted', 'ground-evaluation', 0.0, 'pairs')
                run.violation('ordering/%s' % b[0], dict(call=repr(b[:3]), observed=repr(b[3:]), input=['code', str(b[1])]), True)
            if not res[2]:
                for nm in ('text-key-order', 'field-order', 'group-order', 'sorter'):
                    run.record('ordering/%s' % nm, 'ground', 'proved', 'ground-evaluation', 0.0, 'pairs')
    classes = {}
    for s, w in allbad:
        classes.setdefault(w, []).append(s)
    run.record('contracts-hold-on-the-enumerated-language', 'ground', 'refuted' if allbad else 'proved', 'ground-evaluation', 0.0, 'language')
    for w, ss in sorted(classes.items(), key=lambda kv: -len(kv[1]))[:8]:
        e = run.match_known('contracts-hold-on-the-enumerated-language', dict(what=w, code=ss[0]))
        if e:
            run.known_finding(e)
        else:
            run.violation('contracts-hold-on-the-enumerated-language', dict(call='event code %r (and %d more)' % (ss[0], len(ss) - 1), observed=w,
                                                                            more=ss[:10], input=['code', ss[0]]), True)
    run.bounded.append(dict(what='run-time contracts of the seven functions on the language of PAT_EVENT_CODE enumerated from its syntax tree',
                            bound='%d codes (repeats <= min+1, every class member once, both cases) + 200000 random key pairs + 300 lists' % len(lang),
                            evaluations=n, distinct_nontrivial=len(lang), decides='exception-freedom / grouping / ordering clauses (bounded)'))
    return run.finish()
