"""C10 - every valid event code can be sorted, measured and classified without error.

Under contract: utils.discipline_sort_key, text_discipline_sort_key, sort_by_discipline, get_distance,
get_duration_event_time; athlon_score.unit_name; AgeGrader.event_code_to_kind.

Deductive (regular-language obligations over ALL strings, z3, no length bound):
  * the classifier chain of event_code_to_kind (explored symbolically on an opaque string) covers L(PAT_EVENT_CODE);
  * every accepted field code (throws, jumps) has a listed prefix of length 4, 3 or 2 in FIELD_SORT_ORDER (the look-up
    of the sort key is defined), generated from the list of the imported module.
Bounded (labelled so): the contracts of all seven functions evaluated at run time on the language of the general
pattern enumerated from its syntax tree (every alternative and optional part, repeats bounded by min+1, every member of
every character class incl. all whitespace characters, both letter cases): no exception, key shape, group by family,
distance component, field order, text key = tuple key order on random pairs, sorter = permutation sorted by key (missing
disciplines accepted), relay distance = legs x leg distance."""
import random
import re

import z3

from pyvc import report, langgen as G, regex2smt as R
from pyvc.core import explore
from pyvc.instrument import instrument
from pyvc.strings import SOpaqueStr, SymPattern
from pyvc.util import real_module

PROP = 'C10'


def codes():
    return real_module('athlib.codes')


def utils():
    return real_module('athlib.utils')


def language():
    return G.strings(codes().PAT_EVENT_CODE, 1)


FIELD_CONVENTION = ['HJ', 'PV', 'LJ', 'TJ', 'SP', 'DT', 'HT', 'JT']


def expected_group(s):
    c = codes()
    if c.PAT_THROWS.match(s):
        return (4,)
    if c.PAT_JUMPS.match(s):
        return (3,)
    if c.PAT_RELAYS.match(s):
        return (5,)
    if c.PAT_HURDLES.match(s):
        return (2,)
    if c.PAT_TRACK.match(s):
        # bare SC / SH / LH are hurdles or steeplechase without a distance
        return (2,) if s.upper() in ('SC', 'SH', 'LH') else (1,)
    return (6,)


def expected_distance(s, group):
    """distance component of the key, or None where the property does not fix it"""
    u = s.upper()
    if group in (1, 2):
        if u.startswith('MILE'):
            return 1609
        m = re.match(r'^(\d)MILE', u)
        if m:
            return 1609 * int(m.group(1))
        m = re.match(r'^([2345])MT$', u)
        if m:
            return 1609 * int(m.group(1))
        m = re.match(r'^(\d+)', s)
        if m:
            return int(m.group(1))
        return None
    if group in (3, 4):
        order = codes().FIELD_SORT_ORDER
        for n in (4, 3, 2):
            if u[:n] in order:
                return order.index(u[:n])
        return None
    if group == 5:
        m = codes().PAT_RELAYS.match(s)
        if m.group(3) and m.group(3).isascii():
            # leg distance in metres: number x unit (none or H: metres, K: kilometres, M: miles)
            q = float(m.group(3))
            suf = m.group(2)[len(m.group(3)):].upper()
            return int(q * {'': 1, 'H': 1, 'K': 1000, 'M': 1609}[suf])
    return None


def check_code(s):
    """run-time contracts of the seven functions on one accepted code; returns a description of the first failure"""
    u = utils()
    a = real_module('athlib.athlon_score')
    AG = real_module('athlib.wma.agegrader').AgeGrader
    try:
        k = u.discipline_sort_key(s)
    except Exception as e:
        return 'discipline_sort_key raises %s' % type(e).__name__
    if not (isinstance(k, tuple) and len(k) == 3 and isinstance(k[0], int) and isinstance(k[1], int) and k[2] == s and k[1] >= 0):
        return 'discipline_sort_key returned %r' % (k,)
    if (k[0],) != expected_group(s):
        return 'sort group %r, expected %r' % (k[0], expected_group(s)[0])
    d = expected_distance(s, k[0])
    if d is not None and k[1] != d:
        return 'sort distance %r, expected %r' % (k[1], d)
    try:
        t = u.text_discipline_sort_key(s)
    except Exception as e:
        return 'text_discipline_sort_key raises %s' % type(e).__name__
    if t != '%d_%05d_%s' % k:
        return 'text key %r does not render %r' % (t, k)
    try:
        dist = u.get_distance(s)
    except Exception as e:
        return 'get_distance raises %s' % type(e).__name__
    if not (dist is None or (isinstance(dist, int) and not isinstance(dist, bool) and dist >= 0)):
        return 'get_distance returned %r' % (dist,)
    m = codes().PAT_RELAYS.match(s)
    if m and m.group(3) and m.group(4) is None and m.group(2).isascii() and m.group(2).isdigit():
        if dist != int(m.group(1)) * int(m.group(2)):
            return 'relay distance %r, expected legs x leg = %r' % (dist, int(m.group(1)) * int(m.group(2)))
    elif m and m.group(3) and m.group(3).isascii() and m.group(1).isascii():
        # legs written in kilometres, miles or with a decimal: legs x (whole metres of the leg, at most one short per leg)
        from fractions import Fraction
        suf = m.group(2)[len(m.group(3)):].upper()
        if suf in ('', 'H', 'K', 'M'):
            leg = Fraction(m.group(3)) * {'': 1, 'H': 1, 'K': 1000, 'M': 1609}[suf]
            legs = int(m.group(1))
            if not (isinstance(dist, int) and (legs * (leg - 2) < dist or legs == 0) and dist <= legs * leg):
                return 'relay distance %r, expected legs x leg = %s x %s m' % (dist, legs, leg)
    try:
        dur = u.get_duration_event_time(s)
    except Exception as e:
        return 'get_duration_event_time raises %s' % type(e).__name__
    if bool(codes().PAT_RACES_FOR_DISTANCE.match(s)) != (dur is not None):
        return 'get_duration_event_time returned %r' % (dur,)
    try:
        un = a.unit_name(s)
        kd = AG.event_code_to_kind(s)
    except Exception as e:
        return 'unit/kind classifier raises %s' % type(e).__name__
    if un not in ('metres', 'seconds') or not isinstance(kd, str):
        return 'unit %r kind %r' % (un, kd)
    return None


def chunk(strs):
    bad = []
    for s in strs:
        w = check_code(s)
        if w:
            bad.append((s, w))
            if len(bad) > 200:
                break
    return len(strs), bad


def pairs_and_sorter(seed, lang):
    """text key vs tuple key on random pairs; sorter contract on random lists"""
    rnd = random.Random(seed)
    u = utils()
    bad = []
    n = 0
    keys = {}
    sample = [rnd.choice(lang) for _ in range(3000)] + ['100', '200', '1500', '10000', '99999', '100H', '400H', '3000SC', 'HJ', 'PV', 'LJ', 'TJ', 'SP', 'DT', 'HT',
                                                        'JT', '4x100', '4x400', 'MAR', 'DEC', '5K', '60', '60H', 'MILE', '2MILE']
    for s in sample:
        try:
            keys[s] = (u.discipline_sort_key(s), u.text_discipline_sort_key(s))
        except Exception:
            pass
    ks = list(keys)
    for _ in range(200000):
        a, b = rnd.choice(ks), rnd.choice(ks)
        (ka, ta), (kb, tb) = keys[a], keys[b]
        n += 1
        if ka[1] < 100000 and kb[1] < 100000 and ((ka < kb) != (ta < tb)):
            bad.append(('text-key-order', a, b, ta, tb))
            break
    # conventional field order
    pos = [u.discipline_sort_key(x) for x in FIELD_CONVENTION]
    if pos != sorted(pos):
        bad.append(('field-order', FIELD_CONVENTION, pos))
    if not (u.discipline_sort_key('100') < u.discipline_sort_key('60H') < u.discipline_sort_key('HJ') < u.discipline_sort_key('SP')
            < u.discipline_sort_key('4x100') < u.discipline_sort_key('DEC')):
        bad.append(('group-order', 'track < hurdles < jumps < throws < relays < other'))
    # sorter
    for _ in range(300):
        items = []
        for i in range(rnd.randrange(0, 12)):
            r = rnd.random()
            if r < 0.15:
                items.append(dict(id=i))
            elif r < 0.25:
                items.append(dict(id=i, discipline=None))
            else:
                items.append(dict(id=i, discipline=rnd.choice(ks)))
        n += 1
        try:
            out = u.sort_by_discipline(list(items))
        except Exception as e:
            bad.append(('sorter-raises', type(e).__name__, [x.get('discipline') for x in items]))
            break
        kk = [u.discipline_sort_key(x.get('discipline')) for x in out]
        if sorted(map(id, out)) != sorted(map(id, items)) or kk != sorted(kk):
            bad.append(('sorter', [x.get('discipline') for x in items], [x.get('discipline') for x in out]))
            break
    return n, bad


def _work(job):
    if job[0] == 'chunk':
        return ('chunk',) + chunk(job[1])
    if job[0] == 'shapes':
        r = unit_shapes(job[1])
        r['job'] = 'shapes'
        return r
    if job[0] == 'sorter':
        r = unit_sorter(job[1])
        r['job'] = 'sorter'
        return r
    if job[0] == 'matcher':
        from props import codeshapes as CS
        return ('matcher',) + CS.selfcheck_matcher(job[1])
    return ('pairs',) + pairs_and_sorter(job[1], job[2])


# ---------------------------------------------------------------------------- deductive: the functions on every shape
_ORACLE = {}


def _opat(rx):
    from pyvc import symre
    if rx not in _ORACLE:
        _ORACLE[rx] = symre.SymRe(re.compile(rx))
    return _ORACLE[rx]


def _digits(cells):
    """z3 Int value of a run of ASCII-digit cells"""
    from pyvc import sstr as S
    return S.SStr((' ',))._digits_value(list(cells)) if cells else z3.IntVal(0)


def _decimal(sub):
    """(numerator, denominator) of a digits[.digits] string of cells"""
    from pyvc import sstr as S
    cells = list(S.cells_of(sub))
    if '.' in [c for c in cells if isinstance(c, str)]:
        i = [k for k, c in enumerate(cells) if isinstance(c, str) and c == '.'][0]
        ip, fp = cells[:i], cells[i + 1:]
    else:
        ip, fp = cells, []
    return _digits(ip) * 10 ** len(fp) + _digits(fp), 10 ** len(fp)


def sym_expected_group(P, s):
    """the sort group the statement assigns, from the event-code families (forks on the symbolic matches)"""
    from pyvc.builtins_sym import sym_in
    if P['PAT_THROWS'].match(s):
        return 4
    if P['PAT_JUMPS'].match(s):
        return 3
    if P['PAT_RELAYS'].match(s):
        return 5
    if P['PAT_HURDLES'].match(s):
        return 2
    if P['PAT_TRACK'].match(s):
        return 2 if sym_in(s.upper(), ('SC', 'SH', 'LH')) else 1
    return 6


def sym_leg(P, s):
    """(legs, numerator, denominator, unit) of a relay with numeric legs, else None"""
    from pyvc import sstr as S
    m = P['PAT_RELAYS'].match(s)
    if not m or m.group(3) is None:
        return None
    num, den = _decimal(m.group(3))
    suf = S.cells_of(m.group(2))[len(S.cells_of(m.group(3))):]
    unit = 1
    if suf:
        x = S.mk(suf).upper()
        unit = 1000 if x == 'K' else 1609 if x == 'M' else 1
    return _digits(S.cells_of(m.group(1))), num, den, unit


def sym_expected_distance(P, s, group):
    """z3 constraint on the distance component d of the key (a function d -> BoolRef), or None where the statement leaves it open"""
    from pyvc import sstr as S
    if group in (1, 2):
        if _opat(r'^[mM][iI][lL][eE]').match(s):
            return lambda d: d == 1609
        m = _opat(r'^(\d)[mM][iI][lL][eE]').match(s) or _opat(r'^([2345])[mM][tT]$').match(s)
        if m:
            v = _digits(S.cells_of(m.group(1)))
            return lambda d: d == 1609 * v
        m = _opat(r'^(\d+)').match(s)
        if m:
            v = _digits(S.cells_of(m.group(1)))
            return lambda d: d == v
        return None
    if group in (3, 4):
        # a field code sorts at the position of its event in the conventional order, whatever weight or spelling follows
        from pyvc.builtins_sym import sym_in
        order = codes().FIELD_SORT_ORDER
        du = s.upper()
        for n in (4, 3, 2):
            if len(du) >= n and sym_in(du[:n], order):
                pos = [i for i, e in enumerate(order) if bool(du[:n] == e)][0]
                return lambda d: d == pos
        return None
    if group == 5:
        leg = sym_leg(P, s)
        if leg is None:
            return None
        legs, num, den, unit = leg
        if den == 1 and unit == 1:
            return lambda d: d == num
        # whole metres of the leg; the binary product may fall one short
        return lambda d: z3.And(d * den <= unit * num, d * den > unit * num - 2 * den)
    return None


_NS = {}


def _namespace():
    from props import codeshapes as CS
    from pyvc import symre
    if 'ns' not in _NS:
        ns = CS.Namespace(['get_distance', 'discipline_sort_key', 'text_discipline_sort_key', 'get_duration_event_time'])
        # modular step: inside text_discipline_sort_key the call discipline_sort_key(d) returns the value already obtained for
        # the same argument object on this path (the function is a function of its argument: frame obligation below)
        from pyvc.core import Ctx
        inner = ns['discipline_sort_key']

        def dsk_once(d):
            memo = Ctx.current.__dict__.setdefault('dsk_memo', {})
            if id(d) not in memo:
                memo[id(d)] = (d, inner(d))
            return memo[id(d)][1]
        ns.globals['discipline_sort_key'] = dsk_once
        ns.dsk = dsk_once
        a = real_module('athlib.athlon_score')
        agm = real_module('athlib.wma.agegrader')
        un = instrument(a.unit_name, shadows=symre.shadows_for(a))
        kd = instrument(agm.AgeGrader.event_code_to_kind, shadows=symre.shadows_for(agm))
        _NS['ns'] = (ns, un, kd, CS.sym_patterns())
    return _NS['ns']


def unit_shapes(job):
    """the seven functions on the symbolic string "any content of this shape", for a list of shapes"""
    from pyvc import sstr as S, unit as U
    from pyvc.core import ctx
    from pyvc.values import zint, SInt
    from pyvc.builtins_sym import sym_eq, sym_format, zbool
    from props import codeshapes as CS
    ns, un_f, kd_f, P = _namespace()
    res_all = None
    for fam, shape in job:
        def run():
            c = ctx()
            s = S.SStr.fresh('s', shape)
            c.nonrobust_int = 'choose'        # int() of a binary product next to an integer: either neighbour (the contracts allow one short)

            def call(name, f, *a):
                try:
                    return True, f(*a)
                except Exception as e:
                    from pyvc.core import proxy_leak, OutOfSubset
                    if proxy_leak(e):
                        raise OutOfSubset('a proxy reached code outside the encoding: %s' % str(e)[:120])
                    c.oblige('%s/returns-a-value' % name, False, 'raises', meta=dict(exc=type(e).__name__))
                    return False, None
            ok, k = call('discipline_sort_key', ns.dsk, s)
            g = sym_expected_group(P, s)
            if ok:
                c.oblige('discipline_sort_key/returns-a-value', True, 'raises')
                shape_ok = isinstance(k, tuple) and len(k) == 3 and isinstance(k[0], (int, SInt)) and not isinstance(k[0], bool) \
                    and isinstance(k[1], (int, SInt)) and not isinstance(k[1], bool) and k[2] is s
                c.oblige('discipline_sort_key/key-is-(group, distance>=0, code)', zbool(shape_ok) if not shape_ok else zint(k[1]) >= 0, 'post')
                if shape_ok:
                    c.oblige('discipline_sort_key/group-of-the-family', zint(k[0]) == g, 'post', meta=dict(expected=g))
                    e = sym_expected_distance(P, s, g)
                    if e is not None:
                        c.oblige('discipline_sort_key/distance-component', e(zint(k[1])), 'post')
                ok2, t = call('text_discipline_sort_key', ns['text_discipline_sort_key'], s)
                if ok2:
                    c.oblige('text_discipline_sort_key/renders-the-key', zbool(sym_eq(t, sym_format('%d_%05d_%s', k))) if shape_ok else z3.BoolVal(False), 'post')
            ok, dist = call('get_distance', ns['get_distance'], s)
            if ok:
                good = dist is None or (isinstance(dist, (int, SInt)) and not isinstance(dist, bool))
                c.oblige('get_distance/none-or-whole-metres>=0', (zint(dist) >= 0) if (good and dist is not None) else z3.BoolVal(good), 'post')
                leg = sym_leg(P, s) if g == 5 else None
                if leg is not None:
                    legs, num, den, unit = leg
                    if not good or dist is None:
                        c.oblige('get_distance/relay=legs-x-leg', False, 'post')
                    elif den == 1 and unit == 1:
                        c.oblige('get_distance/relay=legs-x-leg', zint(dist) == legs * num, 'post')
                    else:
                        c.oblige('get_distance/relay=legs-x-leg', z3.And(zint(dist) * den <= legs * unit * num,
                                                                       z3.Or(legs == 0, zint(dist) * den > legs * (unit * num - 2 * den))), 'post')
            ok, dur = call('get_duration_event_time', ns['get_duration_event_time'], s)
            if ok:
                isdur = bool(P['PAT_RACES_FOR_DISTANCE'].match(s))
                c.oblige('get_duration_event_time/a-time-exactly-for-duration-events', (dur is not None) == isdur, 'post')
            ok, un = call('unit_name', un_f, s)
            if ok:
                c.oblige('unit_name/metres-or-seconds', isinstance(un, str) and un in ('metres', 'seconds'), 'post')
            ok, kd = call('event_code_to_kind', kd_f, s)
            if ok:
                c.oblige('event_code_to_kind/a-kind', isinstance(kd, str), 'post')
            return None

        r = U.verify('functions[%s]' % CS.show(shape), run, None, want_sample=(res_all is None))
        for x in r['results']:
            x['ctx'] = dict(shape=[c if isinstance(c, str) else list(c.r) for c in shape])
        if res_all is None:
            res_all = r
        else:
            res_all['results'] += r['results']
            res_all['paths'] += r['paths']
            res_all['wall'] += r['wall']
            res_all['assumptions'] = sorted(set(res_all['assumptions']) | set(r['assumptions']))
            for k, v in r['stats'].items():
                if isinstance(v, int):
                    res_all['stats'][k] = res_all['stats'].get(k, 0) + v
    res_all['unit'] = 'functions-on-shapes[%d]' % len(job)
    res_all['nshapes'] = len(job)
    return res_all


def conc_shape(r):
    """the counter-model as a code; judged by the run-time contract on the real functions"""
    from pyvc import sstr as S, shapes as SH
    shape = [c if isinstance(c, str) else S.CC(c) for c in r['ctx']['shape']]
    s = SH.concretise(shape, r.get('model') or {})
    w = check_code(s) if codes().PAT_EVENT_CODE.match(s) else None
    return dict(call='event code %r' % s, observed=w or 'the run-time contract holds', input=['code', s]), bool(w)


def unit_sorter(job):
    """sort_by_discipline against the CONTRACT of discipline_sort_key (a stub: a missing discipline gets (6, 0, '?'), a code X its
    symbolic key (gX, dX, X)): for every list of up to three records - dicts and objects, with the discipline A or B (two arbitrary
    distinct codes whose keys may tie in group and distance), None, or no such field at all - the sorter returns a permutation
    of the records, non-decreasing in the key, and raises nothing."""
    import itertools
    from pyvc import unit as U
    from pyvc.core import ctx
    from pyvc.values import SInt, zint
    u = utils()
    lo, hi = job

    class Rec(object):
        pass
    kinds = ['dictA', 'dictB', 'dictmissing', 'dictnone', 'objA', 'objB', 'objmissing']
    combos = [c for n in range(0, 4) for c in itertools.product(kinds, repeat=n)][lo:hi]
    res_all = None
    for combo in combos:
        def run():
            c = ctx()
            keys = {}
            for x in 'AB':
                g, d = z3.Int('g' + x), z3.Int('d' + x)
                c.declare_input('g' + x, g)
                c.declare_input('d' + x, d)
                c.assume(z3.And(g >= 1, g <= 6, d >= 0))
                keys[x] = (SInt(g), SInt(d), x)

            def stub(disc):
                if not disc:
                    return 6, 0, '?'
                return keys[disc]
            def text_stub(disc):
                from pyvc.builtins_sym import sym_format
                return sym_format('%d_%05d_%s', stub(disc))      # contract of text_discipline_sort_key: renders the key
            f = instrument(u.sort_by_discipline, shadows={'discipline_sort_key': stub, 'text_discipline_sort_key': text_stub})
            items, want = [], []
            for kd in combo:
                if kd.startswith('dict'):
                    it = {'id': len(items)}
                    if kd[4:] in ('A', 'B'):
                        it['discipline'] = kd[4:]
                    elif kd == 'dictnone':
                        it['discipline'] = None
                else:
                    it = Rec()
                    if kd[3:] in ('A', 'B'):
                        it.discipline = kd[3:]
                items.append(it)
                want.append(keys[kd[-1]] if kd[-1] in 'AB' else (6, 0, '?'))
            try:
                out = f(list(items))
            except Exception as e:
                from pyvc.core import proxy_leak, OutOfSubset
                if proxy_leak(e):
                    raise OutOfSubset('a proxy reached code outside the encoding: %s' % str(e)[:120])
                c.oblige('sort_by_discipline/returns-a-value', False, 'raises', meta=dict(exc=type(e).__name__, records=list(combo)))
                return None
            c.oblige('sort_by_discipline/returns-a-value', True, 'raises')
            perm = isinstance(out, list) and sorted(map(id, out)) == sorted(map(id, items))
            c.oblige('sort_by_discipline/permutation-of-the-records', bool(perm), 'post', meta=dict(records=list(combo)))
            if perm:
                kk = [want[[id(x) for x in items].index(id(o))] for o in out]
                for a, b in zip(kk, kk[1:]):
                    le = z3.Or(zint(a[0]) < zint(b[0]), z3.And(zint(a[0]) == zint(b[0]),
                               z3.Or(zint(a[1]) < zint(b[1]), z3.And(zint(a[1]) == zint(b[1]), z3.BoolVal(a[2] <= b[2])))))
                    c.oblige('sort_by_discipline/non-decreasing-in-the-key', le, 'post', meta=dict(records=list(combo)))
            return None
        r = U.verify('sorter[%s]' % ','.join(combo), run, None, want_sample=False)
        for x in r['results']:
            x['ctx'] = dict(records=list(combo))
        if res_all is None:
            res_all = r
        else:
            res_all['results'] += r['results']
            res_all['paths'] += r['paths']
            res_all['wall'] += r['wall']
    res_all['unit'] = 'sorter[%d:%d]' % (lo, hi)
    res_all['fns'] = [instrument(u.sort_by_discipline).describe()]
    return res_all


def conc_sorter(r):
    """the counter-model as a list of records with real codes whose keys realise the model's order"""
    u = utils()
    m = r.get('model') or {}
    recs = r['ctx']['records']
    # two real codes whose keys realise the model's (group, distance) where the vocabulary has such a code
    def code_for(g, d, default):
        c = codes()
        cand = None
        if isinstance(g, int) and isinstance(d, int):
            if g == 1:
                cand = str(d)
            elif g == 2 and 10 <= d <= 9999:
                cand = '%dH' % d
            elif g == 5:
                cand = '4x%d' % d
            elif g in (3, 4) and 0 <= d < len(c.FIELD_SORT_ORDER):
                cand = c.FIELD_SORT_ORDER[d]
            elif g == 6:
                cand = 'DEC'
        try:
            if cand and c.PAT_EVENT_CODE.match(cand) and u.discipline_sort_key(cand)[:2] == (g, d):
                return cand
        except Exception:
            pass
        return default
    tie = m.get('gA') == m.get('gB') and m.get('dA') == m.get('dB')
    A = code_for(m.get('gA'), m.get('dA'), '100')
    B = A if tie else code_for(m.get('gB'), m.get('dB'), '200' if A != '200' else '100')

    class Rec(object):
        pass
    items = []
    for kd in recs:
        val = {'A': A, 'B': B}.get(kd[-1])
        if kd.startswith('dict'):
            it = {'id': len(items)}
            if val is not None:
                it['discipline'] = val
            elif kd == 'dictnone':
                it['discipline'] = None
        else:
            it = Rec()
            if val is not None:
                it.discipline = val
        items.append(it)
    try:
        out = u.sort_by_discipline(list(items))
        kk = [u.discipline_sort_key(x.get('discipline') if isinstance(x, dict) else getattr(x, 'discipline', None)) for x in out]
        bad = sorted(map(id, out)) != sorted(map(id, items)) or kk != sorted(kk)
        obs = 'order %r' % (kk,)
    except Exception as e:
        bad, obs = True, 'raises %s' % type(e).__name__
    return dict(call='sort_by_discipline(records %r with codes A=%r B=%r)' % (recs, A, B), observed=obs, input=['sorter', recs, A, B]), bad


def format_order_lemma(run):
    """text key order = tuple order: for keys (g, d, tail) with one-digit g and 0 <= d < 100000, '%d_%05d_%s' compares like the
    tuple (symbolic g, d; tails of up to two arbitrary characters) - with the per-shape obligation "the text key renders the
    key" this carries the clause to every pair of codes"""
    from pyvc import sstr as S, unit as U
    from pyvc.core import ctx
    from pyvc.values import mkint, zbool
    from pyvc.builtins_sym import sym_format
    out = []
    for la in (0, 1, 2):
        for lb in (0, 1, 2):
            def runl():
                c = ctx()
                vs = []
                for n in ('g1', 'd1', 'g2', 'd2'):
                    v = z3.Int(n)
                    c.declare_input(n, v)
                    vs.append(v)
                g1, d1, g2, d2 = vs
                c.assume(z3.And(g1 >= 0, g1 <= 9, g2 >= 0, g2 <= 9, d1 >= 0, d1 < 100000, d2 >= 0, d2 < 100000))
                a = S.SStr.fresh('a', [S.ANYCHAR] * la) if la else ''
                b = S.SStr.fresh('b', [S.ANYCHAR] * lb) if lb else ''
                ta = sym_format('%d_%05d_%s', (mkint(g1), mkint(d1), a)).force()
                tb = sym_format('%d_%05d_%s', (mkint(g2), mkint(d2), b)).force()
                tail_lt = zbool(a < b) if (la or lb) else z3.BoolVal(False)
                tup_lt = z3.Or(g1 < g2, z3.And(g1 == g2, z3.Or(d1 < d2, z3.And(d1 == d2, tail_lt))))
                c.oblige('lemma/text-key-order-is-tuple-order', zbool(ta < tb) == tup_lt, 'lemma')
            out.append(U.verify('format-order[%d,%d]' % (la, lb), runl, None, want_sample=False))
    return out


# ---------------------------------------------------------------------------- deductive: regular-language obligations
def ci(word):
    """case-insensitive literal as z3 regex"""
    parts = []
    for ch in word:
        if ch.lower() != ch.upper():
            parts.append(z3.Union(z3.Re(z3.StringVal(ch.lower())), z3.Re(z3.StringVal(ch.upper()))))
        else:
            parts.append(z3.Re(z3.StringVal(ch)))
    return z3.Concat(*parts) if len(parts) > 1 else parts[0]


def regex_obligations(run):
    c = codes()
    full = z3.Full(z3.ReSort(z3.StringSort()))
    # 1. classifier chain of event_code_to_kind covers the accepted language
    AG = real_module('athlib.wma.agegrader').AgeGrader
    agm = real_module('athlib.wma.agegrader')
    patnames = [n for n in dir(agm) if n.startswith('PAT_')]
    f = instrument(AG.event_code_to_kind, shadows={n: SymPattern(getattr(agm, n), n) for n in patnames})
    run.add_function(f)

    def runf():
        return f(SOpaqueStr.fresh('code'))
    paths, stats = explore(runf)
    run.paths += len(paths)
    matched = []
    for p in paths:
        pos = [n for k, n in p.notes if k == 'match']
        if p.outcome == 'ret' and pos:
            matched.append(pos[-1])
    union = R._union(R.lang(getattr(agm, n)) for n in sorted(set(matched))) if matched else z3.Empty(z3.ReSort(z3.StringSort()))
    v, w = R.subset(R.lang(c.PAT_EVENT_CODE), union)
    _rec(run, 'event_code_to_kind/every-accepted-code-is-classified', v, w, 'AgeGrader.event_code_to_kind(%r)',
         lambda s: _raises(AG.event_code_to_kind, s))
    # 2. field codes have a listed prefix in FIELD_SORT_ORDER
    pref = R._union(z3.Concat(ci(e), full) for e in c.FIELD_SORT_ORDER if 2 <= len(e) <= 4)
    v, w = R.subset(z3.Union(R.lang(c.PAT_THROWS), R.lang(c.PAT_JUMPS)), pref)
    _rec(run, 'discipline_sort_key/every-field-code-has-a-position-in-FIELD_SORT_ORDER', v, w, 'discipline_sort_key(%r)',
         lambda s: _raises(utils().discipline_sort_key, s) or utils().discipline_sort_key(s)[1] >= len(c.FIELD_SORT_ORDER))
    # 3. relays: the leg text of a relay with a numeric leg is a distance code get_distance understands
    # (digits, optional decimals, optional h/H/M/K) - shape lemma on the pattern's own group
    run.sample(dict(obligation='L(PAT_EVENT_CODE) subseteq union of the classifier chain', chain=sorted(set(matched))))


def _raises(f, s):
    try:
        f(s)
        return False
    except Exception:
        return True


def _rec(run, name, v, w, callfmt, bad_on_real):
    if v == 'unsat':
        run.record(name, 'language-inclusion', 'proved', 'z3-regex', 0.0, 'regex')
    elif v == 'sat':
        w = R.unescape(w)
        run.record(name, 'language-inclusion', 'refuted', 'z3-regex', 0.0, 'regex')
        bad = bool(bad_on_real(w))
        rep = dict(call=callfmt % w, witness=w, observed='raises / undefined' if bad else 'fine', input=['code', w])
        if bad:
            run.violation(name, rep, True)
        else:
            run.spurious_model(name, rep)
    else:
        run.record(name, 'language-inclusion', 'unknown', 'z3-regex', 0.0, 'regex', 'solver unknown')


def replay(rep):
    if rep['input'][0] == 'sorter':
        r, bad = conc_sorter(dict(ctx=dict(records=rep['input'][1]), model=rep.get('model')))
        print('replay %s: %s -> %s' % (rep['obligation'], r['call'], r['observed']))
        print('VIOLATION reproduced' if bad else 'not reproduced on this tree')
        return 1 if bad else 0
    s = rep['input'][1]
    w = check_code(s) if codes().PAT_EVENT_CODE.match(s) else 'not an event code'
    print('replay %s: %r -> %r' % (rep['obligation'], s, w))
    bad = bool(w) and w != 'not an event code'
    print('VIOLATION reproduced' if bad else 'not reproduced on this tree')
    return 1 if bad else 0


def main(tier, seed):
    run = report.Run(PROP, tier, seed)
    run.expected_min_obligations = 3000
    run.level_claim = 'other'
    run.explanation = __doc__
    run.assume('re semantics as in C04 (translator validated there)', 'z3 regex solver',
               'bounded part: language enumerated from the syntax tree with repeats bounded by min+1 and one-at-a-time class variation',
               'reading: relays are ordered by leg distance; bare SC/SH/LH sort with the hurdles; steeplechase NNNNSC sorts with the hurdles')
    u = utils()
    for n in ('discipline_sort_key', 'text_discipline_sort_key', 'sort_by_discipline', 'get_distance', 'get_duration_event_time'):
        run.add_function(instrument(getattr(u, n)))
    run.add_function(instrument(real_module('athlib.athlon_score').unit_name))
    regex_obligations(run)
    from pyvc.frames import frame_obligations
    frame_obligations(run, [u.discipline_sort_key, u.text_discipline_sort_key, u.sort_by_discipline, u.get_distance, u.get_duration_event_time,
                            real_module('athlib.athlon_score').unit_name, real_module('athlib.wma.agegrader').AgeGrader.event_code_to_kind])
    lang = language()
    step = 4000
    J = [('chunk', lang[i:i + step]) for i in range(0, len(lang), step)] + [('pairs', seed, lang)]
    # symbolic: the seven functions on every shape of the language (all contents of a shape at once)
    from props import codeshapes as CS
    from pyvc import unit as U
    shp = CS.shape_sets(tier)
    njobs = max(1, min(96, len(shp) // 20))
    J += [('shapes', shp[i::njobs]) for i in range(njobs)]        # interleaved: the expensive families are spread over the jobs
    ncomb = sum(7 ** n for n in range(0, 4))
    J += [('sorter', (i, min(i + 25, ncomb))) for i in range(0, ncomb, 25)]
    rnd = random.Random(seed)
    probe = [rnd.choice(lang) for _ in range(400)]
    probe += [''.join(rnd.choice('xQ!_-0Z# \n9.') if rnd.random() < 0.15 else ch for ch in s) for s in probe[:200]] + ['100\n', '', '\n', ' 100', '4x100\n\n']
    J += [('matcher', probe[i::4]) for i in range(4)]
    results = report.pool_map(_work, J)
    for lr in format_order_lemma(run):
        U.absorb(run, lr)
    n = 0
    allbad = []
    nshape = 0
    for res in results:
        if isinstance(res, dict) and '_crash' in res:
            run.checker_error(res['_crash'])
            continue
        if isinstance(res, dict):
            nshape += res.get('nshapes', 0)

            def on_refuted(r, _res):
                if 'records' in r.get('ctx', {}):
                    rep, bad = conc_sorter(r)
                    rep = dict(rep, model=r.get('model'), unit=_res['unit'], solver='z3 sat')
                    if bad:
                        if sum(1 for v in run.violations if v['obligation'] == r['name']) < 6:
                            run.violation(r['name'], rep, True)
                    else:
                        run.spurious_model(r['name'], rep)
                    return
                rep, bad = conc_shape(r)
                rep = dict(rep, model=r.get('model'), unit=_res['unit'], solver='z3 sat', shape=CS.show([c if isinstance(c, str) else __import__('pyvc.sstr').sstr.CC(c) for c in r['ctx']['shape']]))
                if bad:
                    e = run.match_known(r['name'], dict(what=rep['observed'], code=rep['input'][1]))
                    if e:
                        run.known_finding(e)
                    elif sum(1 for v in run.violations if v['obligation'] == r['name']) < 6:
                        run.violation(r['name'], rep, True)       # at most six replay files per obligation name; all are counted as refuted
                else:
                    run.spurious_model(r['name'], rep)
            U.absorb(run, res, on_refuted)
            continue
        if res[0] == 'matcher':
            ok = not res[2]
            run.record('symbolic-matcher-agrees-with-re/%d-comparisons' % res[1], 'ground', 'proved' if ok else 'unknown', 'ground-evaluation', 0.0, 'matcher',
                       None if ok else 'the symbolic matcher disagrees with re: %r' % (res[2][:2],))
            if not ok:
                run.checker_error('symbolic regex matcher disagrees with re: %r' % (res[2][:3],))
            continue
        if res[0] == 'chunk':
            n += res[1]
            allbad += res[2]
        else:
            n += res[1]
            for b in res[2]:
                run.record('ordering/%s' % b[0], 'ground', 'refuted', 'ground-evaluation', 0.0, 'pairs')
                run.violation('ordering/%s' % b[0], dict(call=repr(b[:3]), observed=repr(b[3:]), input=['code', str(b[1])]), True)
            if not res[2]:
                for nm in ('text-key-order', 'field-order', 'group-order', 'sorter'):
                    run.record('ordering/%s' % nm, 'ground', 'proved', 'ground-evaluation', 0.0, 'pairs')
    classes = {}
    for s, w in allbad:
        classes.setdefault(w, []).append(s)
    run.record('contracts-hold-on-the-enumerated-language', 'ground', 'refuted' if allbad else 'proved', 'ground-evaluation', 0.0, 'language')
    for w, ss in sorted(classes.items(), key=lambda kv: -len(kv[1]))[:8]:
        e = run.match_known('contracts-hold-on-the-enumerated-language', dict(what=w, code=ss[0]))
        if e:
            run.known_finding(e)
        else:
            run.violation('contracts-hold-on-the-enumerated-language', dict(call='event code %r (and %d more)' % (ss[0], len(ss) - 1), observed=w,
                                                                            more=ss[:10], input=['code', ss[0]]), True)
    if not allbad and not any(v['obligation'].startswith(('ordering/', 'contracts-hold')) for v in run.violations):
        # a function that has left the modelled subset on this tree (in-subset undecided) falls back on the run-time contracts
        # over the enumerated language, which held: bounded, level other
        run.standin_covers('functions?*in-subset')
        run.standin_covers('sorter?*in-subset')
    run.extra['shapes_explored'] = nshape
    for d in _namespace()[0].describe() + [_namespace()[1].describe(), _namespace()[2].describe()]:
        run.add_function(d)
    run.bounded.append(dict(what='run-time contracts of the seven functions on the language of PAT_EVENT_CODE enumerated from its syntax tree',
                            bound='%d codes (repeats <= min+1, every class member once, both cases) + 200000 random key pairs + 300 lists' % len(lang),
                            evaluations=n, distinct_nontrivial=len(lang), decides='exception-freedom / grouping / ordering clauses (bounded)'))
    return run.finish()
