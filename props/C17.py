"""C17 - implement weights and weight-specific codes stay inside the vocabulary.

Under contract: athlib.implements.get_implement_weight, get_specific_event_code (explored on symbolic masters
labels 'V%02d' % a: shape-typed strings, Python's lexicographic str comparison modelled character by character),
and, ground, every event-code key of the library's own tables against check_event_code / normalize_event_code."""
import re
import sys

import z3

from pyvc import report, unit as U
from pyvc.core import ctx
from pyvc.values import SInt, mkbool, zbool, sym_int, And
from pyvc.builtins_sym import sym_mod, s_str
from pyvc.instrument import instrument
from pyvc.sstr import SStr
from pyvc.util import real_module

PROP = 'C17'
EVENTS = ['SP', 'DT', 'HT', 'JT', 'WT']
AMAX = 10 ** 6
LIB_LABELS = ['U9', 'U11', 'U13', 'U15', 'U17', 'U20', 'U23', 'SEN']      # + V35.. produced as 'V%02d'
NO_TABLE_ENTRY_OK = ('U9', 'U11')   # reading (DESIGN §6): no implement is defined below U13; refusing with ValueError is allowed


def _impl():
    return real_module('athlib.implements')


def instrument_with_helpers(func, shadows=None):
    """re-compile `func` and, into the same namespace, every other plain function of its module (helpers it may call must see the
    proxies through the same rewrites); returns the Instrumented of `func`"""
    import types
    mod = real_module(func.__module__)
    inst = instrument(func, shadows=shadows)
    for n, v in vars(mod).items():
        if isinstance(v, types.FunctionType) and v.__module__ == mod.__name__ and v is not func and n not in (shadows or {}) \
                and n not in ('get_implement_weight', 'get_specific_event_code'):
            try:
                instrument(v, share_globals=inst)
            except BaseException:
                pass
    return inst


def _label(a):
    s = sym_mod('V%02d', (a,))
    return s.force() if hasattr(s, 'force') else s


def unit_masters(args):
    ev, g = args
    f = instrument_with_helpers(_impl().get_implement_weight)

    def run():
        c = ctx()
        k = sym_int('band', 7, AMAX // 5)        # age band a = 5k >= 35
        a = 5 * k
        c.extra = a
        w1 = f(ev, g, _label(a))
        w2 = f(ev, g, _label(a + 5))
        return w1, w2

    def post(p, c):
        if p.outcome == 'exc':
            c.oblige('get_implement_weight/no-exception', False, 'raises', meta=dict(exc=type(p.value).__name__))
            return
        w1, w2 = p.value
        ok1 = isinstance(w1, str) and w1 != ''
        c.oblige('get_implement_weight/masters-weight-defined', ok1 and isinstance(w2, str) and w2 != '', 'post')
        if ok1 and isinstance(w2, str) and w2 != '':
            c.oblige('get_implement_weight/masters-never-heavier-with-age', float(w2) <= float(w1), 'relational')

    res = U.verify('get_implement_weight[%s,%s]' % (ev, g), run, post)
    res['fn'] = f.describe()
    return res


def _code_ok(code, ev, weight_text):
    """spec of the built code, evaluated on concrete strings with the real checker/normaliser"""
    import athlib
    from athlib.codes import PAT_THROWS
    if not isinstance(code, str):
        return False, 'not a string'
    if not athlib.check_event_code(code):
        return False, 'not accepted by check_event_code'
    if not PAT_THROWS.match(code):
        return False, 'not a throws code'
    try:
        if athlib.normalize_event_code(code) != code:
            return False, 'not its own normal form (%r)' % athlib.normalize_event_code(code)
    except ValueError:
        return False, 'normalize_event_code refuses it'
    m = re.match(r'^%s(\d+(?:\.\d+)?)(K?)$' % ev, code)
    if not m:
        return False, 'shape'
    if float(m.group(1)) != float(weight_text):
        return False, 'weight %s differs from the table weight %s' % (m.group(1), weight_text)
    unit_kg = m.group(2) == 'K'
    if unit_kg != (ev != 'JT'):
        return False, 'unit suffix'
    return True, ''


def unit_specific(args):
    ev, g = args
    im = _impl()
    fw = instrument_with_helpers(im.get_implement_weight)
    f = instrument(im.get_specific_event_code, shadows={'get_implement_weight': fw.fn})

    def run():
        c = ctx()
        k = sym_int('band', 7, AMAX // 5)
        lab = _label(5 * k)
        c.extra = lab
        return f(ev, g, lab), fw(ev, g, lab)

    def post(p, c):
        if p.outcome == 'exc':
            c.oblige('get_specific_event_code/masters-no-exception', False, 'raises', meta=dict(exc=type(p.value).__name__))
            return
        code, w = p.value
        ok, why = _code_ok(code, ev, w) if isinstance(w, str) and w else (False, 'no weight')
        c.oblige('get_specific_event_code/valid-normalised-throws-code-with-table-weight', ok, 'post', meta=dict(why=why, code=repr(code)))

    res = U.verify('get_specific_event_code[%s,%s]' % (ev, g), run, post)
    res['fn'] = f.describe()
    return res


def unit_passthrough(args):
    """non-throw codes pass through unchanged: for an arbitrary text that is none of the five generic codes"""
    from pyvc.strings import SOpaqueStr
    im = _impl()
    f = instrument(im.get_specific_event_code)

    def run():
        c = ctx()
        s = SOpaqueStr.fresh('code')
        for e in EVENTS:
            c.assume(s.t != z3.StringVal(e))
        c.extra = s
        return f(s, 'M', 'SEN')

    def post(p, c):
        if p.outcome == 'exc':
            c.oblige('get_specific_event_code/other-codes-no-exception', False, 'raises', meta=dict(exc=type(p.value).__name__))
            return
        c.oblige('get_specific_event_code/other-codes-unchanged', p.value is c.extra, 'post')

    res = U.verify('get_specific_event_code[other]', run, post)
    res['fn'] = f.describe()
    return res


def table_weights():
    """every weight text get_implement_weight can return (string constants of its return statements)"""
    import ast, inspect, textwrap
    tree = ast.parse(textwrap.dedent(inspect.getsource(_impl().get_implement_weight)))
    out = set()
    for n in ast.walk(tree):
        if isinstance(n, ast.Return) and isinstance(n.value, ast.Constant) and isinstance(n.value.value, str) and n.value.value:
            out.add(n.value.value)
    return sorted(out)


def unit_modular(args):
    """get_specific_event_code against the CONTRACT of its callee, for an ARBITRARY age-group label (any text) and gender text:
    the implement table is consulted exactly once, with the caller's own event, gender and label, and the code is built from
    the weight it reports (whatever weight of the table that is).  Together with the ground/masters obligations on
    get_implement_weight this gives the clause for every label, not only those the library produces."""
    ev, = args
    from pyvc.strings import SOpaqueStr
    im = _impl()
    # the weights the table reports for this event (over both genders and every label the library produces, masters to V120):
    # a subset of the string constants returned by get_implement_weight
    W = sorted(set(w for g in 'MF' for lab in LIB_LABELS + ['V%02d' % a for a in range(35, 125, 5)] + ['U14', 'U16', 'U18']
                   for w in [im.get_implement_weight(ev, g, lab)] if w) & set(table_weights()))
    calls = []

    def stub(e, g, lab):
        w = W[ctx().choose(len(W), 'weight')]
        calls.append((e, g, lab, w))
        return w
    f = instrument(im.get_specific_event_code, shadows={'get_implement_weight': stub})

    def run():
        c = ctx()
        del calls[:]
        lab = SOpaqueStr.fresh('label')
        g = SOpaqueStr.fresh('gender')
        c.extra = (g, lab)
        c.called = True
        return f(ev, g, lab), list(calls)

    def post(p, c):
        if p.outcome == 'exc':
            c.oblige('get_specific_event_code/any-label-no-exception-when-the-table-has-a-weight', False, 'raises', meta=dict(exc=type(p.value).__name__))
            return
        code, cl = p.value
        g, lab = c.extra
        same = len(cl) == 1 and cl[0][0] == ev and cl[0][1] is g and cl[0][2] is lab
        if len(cl) == 1 and not same and isinstance(cl[0][0], str) and cl[0][0] == ev:
            # the same texts passed as other objects are fine: compare values
            from pyvc.builtins_sym import sym_eq
            from pyvc.values import zbool
            same = z3.And(zbool(sym_eq(cl[0][1], g)), zbool(sym_eq(cl[0][2], lab)))
        c.oblige('get_specific_event_code/table-consulted-once-with-the-callers-event-gender-label', same, 'post',
                 meta=dict(calls=repr(cl)[:120]))
        if len(cl) == 1:
            ok, why = _code_ok(code, ev, cl[0][3]) if isinstance(code, str) else (False, 'symbolic code')
            c.oblige('get_specific_event_code/code-built-from-the-reported-weight', ok, 'post', meta=dict(code=repr(code)[:40], weight=cl[0][3], why=why))

    res = U.verify('get_specific_event_code[%s, any gender, any label]' % ev, run, post)
    res['fn'] = f.describe()
    return res


UNITS = {'masters': unit_masters, 'specific': unit_specific, 'pass': unit_passthrough, 'modular': unit_modular}


def _work(job):
    r = UNITS[job[0]](job[1])
    r['job'] = job
    return r


# ---------------------------------------------------------------------------- replay
def concretise(job, model):
    kind, args = job
    im = _impl()
    if kind in ('masters', 'specific'):
        ev, g = args
        a = 5 * int(model['band'])
        lab = 'V%02d' % a
        rep = dict(model=model, job=[kind, list(args)])
        if kind == 'masters':
            w1 = im.get_implement_weight(ev, g, lab)
            w2 = im.get_implement_weight(ev, g, 'V%02d' % (a + 5))
            rep.update(call='get_implement_weight(%r,%r,%r) then %r' % (ev, g, lab, 'V%02d' % (a + 5)), observed=[w1, w2],
                       required='both defined, second not heavier')
            bad = (not w1) or (not w2) or float(w2) > float(w1)
            return rep, bad
        try:
            code = im.get_specific_event_code(ev, g, lab)
            w = im.get_implement_weight(ev, g, lab)
            ok, why = _code_ok(code, ev, w) if w else (False, 'no weight')
            obs = [code, w, why]
        except Exception as e:
            ok, obs = False, 'raises %s' % type(e).__name__
        rep.update(call='get_specific_event_code(%r,%r,%r)' % (ev, g, lab), observed=obs, required='a valid normalised throws code carrying the table weight')
        return rep, not ok
    if kind == 'modular':
        ev, = args
        lab, g = model.get('label', ''), model.get('gender', '')
        rep = dict(model=model, job=[kind, list(args)], call='get_specific_event_code(%r,%r,%r)' % (ev, g, lab))
        try:
            w = im.get_implement_weight(ev, g, lab)
        except Exception as e:
            w = None
        if not w:
            return dict(rep, observed='the table reports no weight for this label', required='-'), False
        try:
            code = im.get_specific_event_code(ev, g, lab)
            ok, why = _code_ok(code, ev, w)
            obs = [code, w, why]
        except Exception as e:
            ok, obs = False, 'raises %s' % type(e).__name__
        return dict(rep, observed=obs, required='a valid normalised throws code carrying the table weight %s' % w), not ok
    if kind == 'pass':
        s = model.get('code', '')
        try:
            r = im.get_specific_event_code(s, 'M', 'SEN')
        except Exception as e:
            r = 'raises %s' % type(e).__name__
        return dict(model=model, job=[kind, []], call='get_specific_event_code(%r,"M","SEN")' % s, observed=r, required=s), r != s
    return dict(model=model), False


def replay(rep):
    if rep.get('ground'):
        bad = _ground_one(rep['ground'])
        print('replay %s -> %s' % (rep['ground'], bad))
        print('VIOLATION reproduced' if bad else 'not reproduced on this tree')
        return 1 if bad else 0
    job = (rep['job'][0], tuple(rep['job'][1]))
    r, bad = concretise(job, rep['model'])
    print('replay %s: %s\n observed=%r\n required=%r' % (rep['obligation'], r.get('call'), r.get('observed'), r.get('required')))
    print('VIOLATION reproduced' if bad else 'not reproduced on this tree')
    return 1 if bad else 0


# ---------------------------------------------------------------------------- ground obligations
def table_keys():
    """(table, key) for every event-code key used by the library's own scoring and age-grading tables"""
    out = []
    ty = real_module('athlib.tyrving_score')._tyrvingTables
    for g, t in ty.items():
        out += [('tyrving[%s]' % g, k) for k in t]
    qk = real_module('athlib.qkids_score')._qkidsTables
    for ct, t in qk.items():
        out += [('qkids[%s]' % ct, k) for k in t]
    out += [('hungarian', r[2]) for r in real_module('athlib.hungarian_score').FACTORS]
    out += [('sportshall', k) for k in real_module('athlib.sportshall_score').RAWDATA[0][1:]]
    for k in real_module('athlib.bulgarian_score').scores:
        m = re.match(r'^(U\d+)([MFX])(.*)$', k)
        out.append(('bulgarian', m.group(3) if m else k))
    am = real_module('athlib.athlon_score')
    out += [('athlon', o['event_code']) for o in am._scoring_table]
    # ... and the index the scorer builds from it on first use (keys 'G-CODE')
    try:
        am._scoring_objects_create()
        out += [('athlon-index', str(k).split('-', 1)[-1]) for k in (am._scoring_objects or {})]
    except Exception:
        pass
    from athlib.wma.agegrader import AgeGrader, AthlonsAgeGrader
    for y in ('2015', '2023'):
        d = AgeGrader(y).get_data()
        for g in 'mf':
            out += [('wma-%s[%s]' % (y, g), r[0]) for r in d[g]]
    d = AthlonsAgeGrader().get_data()
    for g in 'mf':
        out += [('wma-athlons[%s]' % g, r[0]) for r in d[g]]
    seen, uniq = set(), []
    for t in out:
        if t not in seen:
            seen.add(t)
            uniq.append(t)
    return uniq


def _ground_one(g):
    import athlib
    kind = g[0]
    if kind == 'key':
        return not (isinstance(g[2], str) and athlib.check_event_code(g[2]))
    if kind == 'label':
        _, ev, gender, lab = g
        im = _impl()
        try:
            code = im.get_specific_event_code(ev, gender, lab)
        except ValueError:
            return lab not in NO_TABLE_ENTRY_OK
        except Exception:
            return True
        w = im.get_implement_weight(ev, gender, lab)
        ok, why = _code_ok(code, ev, w) if w else (False, '')
        return not ok
    return False


def masters_ground(run):
    """the real get_implement_weight along the masters bands the library can produce and well beyond (V35..V150 in fives): defined,
    never heavier than in the band before - the ground twin of the symbolic masters clauses"""
    im = _impl()
    for ev in EVENTS:
        for g in 'MF':
            prev = None
            bad = None
            for k in range(35, 155, 5):
                lab = 'V%02d' % k
                try:
                    w = float(im.get_implement_weight(ev, g, lab))
                except Exception as e:
                    bad = (lab, 'raises %s' % type(e).__name__)
                    break
                if prev is not None and w > prev[1]:
                    bad = (lab, '%s throws %s but the younger %s throws %s' % (lab, w, prev[0], prev[1]))
                    break
                prev = (lab, w)
            name = 'masters-implements-never-heavier/%s-%s/V35..V150' % (ev, g)
            run.record(name, 'ground', 'refuted' if bad else 'proved', 'ground-evaluation', 0.0, 'masters')
            if bad:
                run.violation(name, dict(ground=['label', ev, g, bad[0]], call='get_implement_weight(%r,%r,%r)' % (ev, g, bad[0]), observed=bad[1],
                                         required='not heavier than the band before'), True)


def exercise_scorers():
    """use every scorer with good and with mistyped codes (a forgotten unit, a stray digit, white space): the tables must carry
    the same keys afterwards - a key filed under whatever the caller typed would not be an event code"""
    import athlib
    calls = []
    junk = ['SP7.26', 'DT1.5', 'HT 6', 'HJ1', 'JT8OO', '100 m', '1OO', 'SP 7.26 k g', 'xx', '', 'DT1.5KK', 'LJ.', '4x1OO']
    good = ['100', 'SP', 'HJ', 'JT', 'SP7.26K', 'JT800', '800', '110H', 'DT1.5K']
    for code in good + junk:
        calls += [(athlib.athlon_score, ('M', code, 10.5)), (athlib.athlon_score, ('F', code, 10.5, 40)),
                  (athlib.athlon_performance_needed, ('M', code, 800)), (athlib.hungarian_score, ('M', 'OUT', code, 10.5)),
                  (athlib.tyrving_score, ('M', 15, code, 12.5)), (athlib.qkids_score, ('QKSEC', code, 12.5)),
                  (athlib.sportshall_score, (code, '12.5')), (athlib.bulgarian_score, ('U16', 'M', code, 12.5)),
                  (athlib.wma_age_factor, ('m', 50, code)), (athlib.wma_world_best, ('m', code)), (athlib.wma_athlon_age_factor, ('M', 50, code))]
    n = 0
    import io, contextlib
    for f, a in calls:
        n += 1
        try:
            with contextlib.redirect_stdout(io.StringIO()):
                f(*a)
        except Exception:
            pass
    return n


def ground(run):
    masters_ground(run)
    before = set(table_keys())
    ncalls = exercise_scorers()
    after = table_keys()
    new = [t for t in after if t not in before]
    name = 'table-keys-are-the-same-after-use/%d-calls-with-good-and-mistyped-codes' % ncalls
    run.record(name, 'ground', 'refuted' if new else 'proved', 'ground-evaluation', 0.0, 'tables')
    for tab, k in after:
        bad = _ground_one(('key', tab, k))
        name = 'table-key-accepted/%s/%s' % (tab, k)
        if not bad:
            run.record(name, 'ground', 'proved', 'ground-evaluation', 0.0, 'tables')
            continue
        run.record(name, 'ground', 'refuted', 'ground-evaluation', 0.0, 'tables')
        e = run.match_known('table-key-accepted/*', dict(table=tab, key=k))
        if e:
            run.known_finding(e)
        else:
            run.violation(name, dict(ground=['key', tab, k], call='check_event_code(%r)' % (k,), observed=None, required='a match'), True)
    for ev in EVENTS:
        for g in 'MF':
            for lab in LIB_LABELS:
                bad = _ground_one(('label', ev, g, lab))
                name = 'get_specific_event_code/library-label/%s/%s/%s' % (ev, g, lab)
                run.record(name, 'ground', 'refuted' if bad else 'proved', 'ground-evaluation', 0.0, 'labels')
                if bad:
                    run.violation(name, dict(ground=['label', ev, g, lab], call='get_specific_event_code(%r,%r,%r)' % (ev, g, lab)), True)


OTHER_LABELS = ['M%d' % a for a in range(35, 115, 5)] + ['W%d' % a for a in range(35, 115, 5)] + ['V%d' % a for a in (5, 30, 34, 36, 99, 101, 200)] + \
    ['U12', 'U14', 'U16', 'U18', 'U19', 'U21', 'U10', 'sen', 'Sen', 'SEN ', ' SEN', 'v50', 'V050', 'V', 'U', 'X', '', 'MASTER', 'OPEN', 'JUN', 'W', 'M', 'Z99', '35', 'V35+']


def ground_other(run, seed):
    """bounded: arbitrary other labels (code and table must agree whenever the table reports a weight) and the pass-through
    clause on every accepted event code that is not one of the five generic throws"""
    import random
    from pyvc import langgen as G
    im = _impl()
    rnd = random.Random(seed)
    n = 0
    bad = None
    for ev in EVENTS:
        for g in ('M', 'F', 'm', 'X', ''):
            for lab in OTHER_LABELS + [''.join(rnd.choice('UVMWSEN0123456789 ') for _ in range(rnd.randrange(1, 5))) for _ in range(30)]:
                n += 1
                try:
                    w = im.get_implement_weight(ev, g, lab)
                except Exception:
                    w = None
                if not w:
                    continue
                try:
                    code = im.get_specific_event_code(ev, g, lab)
                    ok, why = _code_ok(code, ev, w)
                    obs = [code, w, why]
                except Exception as e:
                    ok, obs = False, 'raises %s' % type(e).__name__
                if not ok and bad is None:
                    bad = ('standin/other-labels-code-carries-the-table-weight', dict(call='get_specific_event_code(%r,%r,%r)' % (ev, g, lab), observed=obs,
                                                                                       model=dict(label=lab, gender=g), job=['modular', [ev]]))
    lang = G.strings(real_module('athlib.codes').PAT_EVENT_CODE, 1)
    bad2 = None
    for code in lang:
        if code in EVENTS:
            continue
        for g, lab in (('M', 'SEN'), ('F', 'V50'), ('F', 'U13')):
            n += 1
            try:
                r = im.get_specific_event_code(code, g, lab)
            except Exception as e:
                r = 'raises %s' % type(e).__name__
            if r != code and bad2 is None:
                bad2 = ('standin/other-codes-pass-through-unchanged', dict(call='get_specific_event_code(%r,%r,%r)' % (code, g, lab), observed=r, required=code,
                                                                           model=dict(code=code), job=['pass', []]))
    for b in (bad, bad2):
        if b:
            run.violation(b[0], b[1], True)
    run.bounded.append(dict(what='other labels (WMA M/W bands, lower case, junk) x gender texts; pass-through on the enumerated event-code language',
                            bound='%d calls' % n, evaluations=n, distinct_nontrivial=n, decides='second line; undecided obligations'))


def crosscheck(run, seed):
    """encoder cross-check: instrumented get_implement_weight on concrete labels == the real one"""
    import random
    from pyvc.core import concrete_ctx
    im = _impl()
    f = instrument_with_helpers(im.get_implement_weight)
    rnd = random.Random(seed)
    labs = LIB_LABELS + ['V%02d' % a for a in range(35, 130, 5)] + ['U14', 'U16', 'U18', 'X', '', 'V', 'V8', 'v80', 'V080'] + \
        ['V%02d' % rnd.randrange(0, 2000) for _ in range(40)]
    n = 0
    with concrete_ctx():
        for ev in EVENTS + ['LJ']:
            for g in ('M', 'F', 'X'):
                for lab in labs:
                    n += 1
                    if f(ev, g, lab) != im.get_implement_weight(ev, g, lab):
                        run.checker_error('instrumented get_implement_weight differs on %r' % ((ev, g, lab),))
                        return
    run.bounded.append(dict(what='instrumented vs real get_implement_weight on concrete labels', bound='%d calls' % n, evaluations=n,
                            distinct_nontrivial=n, decides='nothing (validates the encoder)'))


def main(tier, seed):
    run = report.Run(PROP, tier, seed)
    run.expected_min_obligations = 100
    run.explanation = ('masters clauses: symbolic age band (35..10^6 in fives), label built by the real format as a shape-typed string, real '
                       'functions explored path by path, z3; labels the library produces and all table keys: ground evaluation (finite, complete)')
    run.assume('pyvc proxies/rewrites (str comparison = code-point lexicographic order; % formatting of ints)', 'z3 soundness',
               'masters band labels are "V%02d" % (5k), 35 <= 5k <= 10^6',
               'reading: U9/U11 have no implement in the table; ValueError is a permitted refusal there (DESIGN §6)')
    from pyvc.frames import frame_obligations
    frame_obligations(run, [_impl().get_implement_weight, _impl().get_specific_event_code])
    # the scorers only BUILD their tables (a single publish of a complete object): none of them files anything in a table in use
    import athlib as _a
    frame_obligations(run, [real_module('athlib.athlon_score').score, real_module('athlib.athlon_score').performance,
                            real_module('athlib.hungarian_score').score, real_module('athlib.tyrving_score').tyrving_score,
                            real_module('athlib.qkids_score').qkids_score, real_module('athlib.sportshall_score').sportshall_score,
                            real_module('athlib.bulgarian_score').score])
    J = [('masters', (ev, g)) for ev in EVENTS for g in 'MF'] + [('specific', (ev, g)) for ev in EVENTS for g in 'MF'] + [('pass', ())] + \
        [('modular', (ev,)) for ev in EVENTS]
    results = report.pool_map(_work, J)

    def on_refuted(res):
        def h(r, _):
            rep, bad = concretise(res['job'], r.get('model') or {})
            rep['solver'] = 'z3 sat'
            rep['unit'] = res['unit']
            if bad:
                e = run.match_known(r['name'], dict(rep.get('model') or {}, event=res['job'][1][0] if res['job'][1] else None))
                if e:
                    run.known_finding(e)
                else:
                    run.violation(r['name'], rep, True)
            else:
                run.spurious_model(r['name'], rep)
        return h
    for res in results:
        if '_crash' in res:
            U.absorb(run, res)
            continue
        run.add_function(res['fn'])
        U.absorb(run, res, on_refuted(res))
    ground(run)
    crosscheck(run, seed)
    ground_other(run, seed)
    return run.finish()
