"""C11 - table-based junior scoring reproduces the published tables exactly.

Under contract: TyrvingCalculator.points/get_base_perf/race_points/jump_points/stav_points, tyrving_score,
qkids_score, sportshall load_data/score_high_event/score_low_event/sportshall_score, bulgarian_score.score,
with utils.parse_hms/str2num/is_hand_timing inlined (re-compiled) where a text form carries the mark."""
import math
import random
import re
from decimal import Decimal
from fractions import Fraction

import z3

from pyvc import report, unit as U
from pyvc.core import ctx, concrete_ctx, OutOfSubset
from pyvc.values import SInt, SReal, mkbool, mkint, zbool, zint, sym_int, And, Or, Not, ite
from pyvc.builtins_sym import SYM_MATH, sym_eq
from pyvc.instrument import instrument, instrument_class
from pyvc import sstr as S
from pyvc import floats as F
from pyvc.util import real_module
from specs import junior as J

PROP = 'C11'


def _ty():
    return real_module('athlib.tyrving_score')


def _utils_shadows():
    """re-compiled utils helpers that must see proxies (inlined, listed in the evidence)"""
    u = real_module('athlib.utils')
    isstr = lambda o: isinstance(o, (str, bytes, S.SStr))
    native = lambda o, enc='utf8': o if isinstance(o, (str, S.SStr)) else u.nativeStr(o, enc)
    s2n = instrument(u.str2num)
    ph = instrument(u.parse_hms, shadows={'str2num': s2n.fn})
    iht = instrument(u.is_hand_timing, shadows={'isStr': isstr, 'nativeStr': native})
    return {'parse_hms': ph.fn, 'is_hand_timing': iht.fn}, [s2n, ph, iht]


def mark_float(name, kmax):
    """the binary float nearest to the decimal mark k/100 (also covers ints and Decimal-exact floats: err is a bound)"""
    k = F.sym_int_var(name, 0, kmax)
    f = F.SFloat(F.Aff(0, {name: Fraction(1, 100)}), None, 0)
    f.err = f.mag * F.U
    f.nearest = True
    return SInt(k), f


def text_mark(name, shape):
    """shape: list of field digit counts, decimals (None = no point), separators -> (SStr, k as z3 Int term)
    e.g. ([2], 2, '') = 'dd.dd' ; ([1,2], 2, ':') = 'd:dd.dd' ; ([1,2],2,'.') = 'd.dd.dd'"""
    fields, dec, sep = shape
    classes = []
    for i, L in enumerate(fields):
        if i:
            classes.append(sep)
        classes += [S.DIGITS] * L
    if dec is not None:
        classes += ['.'] + [S.DIGITS] * dec
    t = S.SStr.fresh(name, classes)
    cells = list(S.cells_of(t))
    # exact centi value
    vals = []
    pos = 0
    for i, L in enumerate(fields):
        if i:
            pos += 1
        vals.append(S.SStr(())._digits_value(cells[pos:pos + L]))
        pos += L
    secs = z3.IntVal(0)
    for v in vals:
        secs = secs * 60 + v
    k = secs * 100
    if dec:
        fv = S.SStr(())._digits_value(cells[pos + 1:pos + 1 + dec])
        if dec <= 2:
            k = k + fv * 10 ** (2 - dec)
        else:
            raise ValueError('more than two decimals is not on the 0.01 grid')
    return t, k


_SWEEP = {}

# ============================================================================ Tyrving
TY_METHODS = ['points', 'get_base_perf', 'race_points', 'jump_points', 'stav_points']


def ty_rows():
    t = _ty()._tyrvingTables
    out = []
    for g in sorted(t):
        for ev in t[g]:
            out.append((g, ev))
    return out


def ty_ages(kind, args):
    yvs = [args[-1]] if kind in ('race', 'jump') else args[1]
    ages = None
    for yv in yvs:
        if isinstance(yv, dict):
            a = set(yv)
        else:
            a = set(range(yv[0], yv[0] + len(yv[1])))
        ages = a if ages is None else ages & a
    return sorted(ages)


def ty_kmax(kind, args, age):
    if kind == 'race':
        dist, mult, yv = args
        B = J.tyrving_base(age, yv)
        unit = 0.01 if dist <= 500 else 0.1
        return int(100 * (B + 1100 * unit / mult)) + 2000
    if kind == 'jump':
        return int(100 * (2 * J.tyrving_base(age, args[1]) + 20)) + 1000
    return int(100 * (2 * J.tyrving_base(age, args[1][0]) + 50)) + 1000


def unit_tyrving(args):
    g, ev, tier = args
    ty = _ty()
    kind, pargs = ty._tyrvingTables[g][ev]
    ush, urecs = _utils_shadows()
    sub, recs = instrument_class(ty.TyrvingCalculator, TY_METHODS, shadows=ush)
    fscore = instrument(ty.tyrving_score, shadows=dict(ush, TyrvingCalculator=sub))
    ages = ty_ages(kind, pargs)
    timed = kind == 'race'
    results = None
    forms = ['float']
    if tier != 'smoke':
        forms += (['dd.dd', 'ddd.dd', 'd:dd.dd', 'd.dd.dd', 'dd.d', 'dd'] if timed else ['d.dd', 'dd.dd', 'dd.d', 'dd'])
    for age in ages:
        for form in forms:
            if form != 'float' and tier == 'quick' and age not in (ages[0], ages[-1]):
                continue
            kmax = ty_kmax(kind, pargs, age)

            def run():
                c = ctx()
                if form == 'float':
                    k, perf = mark_float('k', kmax)
                    manual = False
                else:
                    shape = {'dd.dd': ([2], 2, ''), 'ddd.dd': ([3], 2, ''), 'd:dd.dd': ([1, 2], 2, ':'), 'd.dd.dd': ([1, 2], 2, '.'),
                             'dd.d': ([2], 1, ''), 'dd': ([2], None, ''), 'd.dd': ([1], 2, '')}[form]
                    perf, kt = text_mark('p', shape)
                    k = SInt(kt)
                    manual = timed and form in ('dd.d', 'dd')        # Tyrving: a one-decimal timed text is hand-timed
                c.extra = (k, manual)
                return fscore(g, age, ev, perf)

            def post(p, c):
                k, manual = c.extra
                if p.outcome == 'exc':
                    c.oblige('tyrving_score/no-exception', False, 'raises', meta=dict(exc=type(p.value).__name__, msg=str(p.value)[:80]))
                    return
                want = J.tyrving_points(kind, pargs, age, k, manual)
                c.oblige('tyrving_score/points-equal-exact-table-formula', zbool(sym_eq(p.value, want)), 'post')

            r = U.verify('tyrving[%s,%s,age=%d,%s]' % (g, ev, age, form), run, post, want_sample=(ev == '100' and age == 15 and form == 'float'))
            for x in r['results']:
                x['ctx'] = dict(g=g, ev=ev, age=age, form=form)
            if results is None:
                results = r
            else:
                results['results'] += r['results']
                results['paths'] += r['paths']
                results['wall'] += r['wall']
                results['sample'] = results['sample'] or r['sample']
                results['assumptions'] = sorted(set(results['assumptions']) | set(r['assumptions']))
    results['unit'] = 'tyrving[%s,%s]' % (g, ev)
    results['fns'] = [x.describe() for x in recs + [fscore] + urecs]
    return results


def _text_of(form, m, prefix='p'):
    shape = {'dd.dd': ([2], 2, ''), 'ddd.dd': ([3], 2, ''), 'd:dd.dd': ([1, 2], 2, ':'), 'd.dd.dd': ([1, 2], 2, '.'),
             'dd.d': ([2], 1, ''), 'dd': ([2], None, ''), 'd.dd': ([1], 2, '')}[form]
    fields, dec, sep = shape
    classes = []
    for i, L in enumerate(fields):
        if i:
            classes.append(sep)
        classes += [None] * L
    if dec is not None:
        classes += ['.'] + [None] * dec
    return ''.join(c if c is not None else chr(int(m.get('%s_%d' % (prefix, i), 48))) for i, c in enumerate(classes))


def centi_of_text(t):
    parts = re.split(r'[:]', t)
    if t.count('.') > 1:
        parts = t.replace('.', ':', t.count('.') - 1).split(':')
    v = Fraction(0)
    for x in parts:
        v = v * 60 + Fraction(x)
    return int(v * 100)


def conc_tyrving(r):
    cx = r['ctx']
    m = r.get('model') or {}
    ty = _ty()
    kind, pargs = ty._tyrvingTables[cx['g']][cx['ev']]
    if r.get('kind') == 'robustness':
        # a fragile truncation: search the property's own 0.01 grid for a witness (float and int forms)
        kk = ('ty', cx['g'], cx['ev'], cx['age'])
        if kk not in _SWEEP:
            out = (dict(call='tyrving grid sweep %s' % (kk,), observed='no witness on the 0.01 grid', input=['tyrving', cx['g'], cx['age'], cx['ev'], 0.0, False]), False)
            for k in range(0, ty_kmax(kind, pargs, cx['age'])):
                try:
                    got = ty.tyrving_score(cx['g'], cx['age'], cx['ev'], k / 100)
                except Exception as e:
                    got = 'raises %s' % type(e).__name__
                want = J.tyrving_points(kind, pargs, cx['age'], k, False)
                if got != want:
                    out = (dict(call='tyrving_score(%r,%r,%r,%r)' % (cx['g'], cx['age'], cx['ev'], k / 100), observed=got, required=want,
                                input=['tyrving', cx['g'], cx['age'], cx['ev'], k / 100, False]), True)
                    break
            _SWEEP[kk] = out
        return _SWEEP[kk]
    if cx['form'] == 'float':
        k = int(m.get('k', 0))
        cands = [(k / 100, k, False)]
        if k % 100 == 0:
            cands.append((k // 100, k, False))
    else:
        t = _text_of(cx['form'], m)
        manual = kind == 'race' and cx['form'] in ('dd.d', 'dd')
        cands = [(t, centi_of_text(t), manual)]
    for perf, k, manual in cands:
        try:
            got = ty.tyrving_score(cx['g'], cx['age'], cx['ev'], perf)
        except Exception as e:
            got = 'raises %s' % type(e).__name__
        want = J.tyrving_points(kind, pargs, cx['age'], k, manual)
        if got != want:
            return dict(call='tyrving_score(%r,%r,%r,%r)' % (cx['g'], cx['age'], cx['ev'], perf), observed=got, required=want,
                        input=['tyrving', cx['g'], cx['age'], cx['ev'], perf, manual]), True
    return dict(call='tyrving_score(%r,%r,%r,%r)' % (cx['g'], cx['age'], cx['ev'], cands[0][0]), observed='as required',
                input=['tyrving', cx['g'], cx['age'], cx['ev'], cands[0][0], cands[0][2]]), False


# ============================================================================ QuadKids
def unit_qkids(args):
    ct, ev, tier = args
    qk = real_module('athlib.qkids_score')
    row = qk._qkidsTables[ct][ev]
    from athlib.codes import PAT_RUN
    timed = bool(PAT_RUN.match(ev))
    ush, urecs = _utils_shadows()
    f = instrument(qk.qkids_score, shadows=ush)
    results = None
    forms = ['float'] + (['dd.dd', 'ddd.dd', 'd:dd.dd', 'dd.d', 'dd'] if timed else ['d.dd', 'dd.dd', 'dd.d', 'dd'])
    kmax = int(100 * (max(row[1], row[2]) * 2 + 20))
    for form in forms:
        def run():
            c = ctx()
            if form == 'float':
                k, perf = mark_float('k', kmax)
            else:
                shape = {'dd.dd': ([2], 2, ''), 'ddd.dd': ([3], 2, ''), 'd:dd.dd': ([1, 2], 2, ':'),
                         'dd.d': ([2], 1, ''), 'dd': ([2], None, ''), 'd.dd': ([1], 2, '')}[form]
                perf, kt = text_mark('p', shape)
                k = SInt(kt)
            c.extra = k
            return f(ct, ev, perf)

        def post(p, c):
            k = c.extra
            if p.outcome == 'exc':
                c.oblige('qkids_score/no-exception', False, 'raises', meta=dict(exc=type(p.value).__name__, msg=str(p.value)[:80]))
                return
            c.oblige('qkids_score/points-equal-exact-table-formula', zbool(sym_eq(p.value, J.qkids_points(row, timed, k))), 'post')

        r = U.verify('qkids[%s,%s,%s]' % (ct, ev, form), run, post, want_sample=False)
        for x in r['results']:
            x['ctx'] = dict(ct=ct, ev=ev, form=form)
        if results is None:
            results = r
        else:
            results['results'] += r['results']
            results['paths'] += r['paths']
            results['wall'] += r['wall']
            results['assumptions'] = sorted(set(results['assumptions']) | set(r['assumptions']))
    results['unit'] = 'qkids[%s,%s]' % (ct, ev)
    results['fns'] = [f.describe()] + [x.describe() for x in urecs]
    return results


def conc_qkids(r):
    cx = r['ctx']
    m = r.get('model') or {}
    qk = real_module('athlib.qkids_score')
    row = qk._qkidsTables[cx['ct']][cx['ev']]
    from athlib.codes import PAT_RUN
    timed = bool(PAT_RUN.match(cx['ev']))
    if r.get('kind') == 'robustness':
        kk = ('qk', cx['ct'], cx['ev'])
        if kk not in _SWEEP:
            out = (dict(call='qkids grid sweep %s' % (kk,), observed='no witness on the 0.01 grid', input=['qkids', cx['ct'], cx['ev'], 0.0]), False)
            for k in range(0, int(100 * (max(row[1], row[2]) * 2 + 20))):
                try:
                    got = qk.qkids_score(cx['ct'], cx['ev'], k / 100)
                except Exception as e:
                    got = 'raises %s' % type(e).__name__
                want = J.qkids_points(row, timed, k)
                if got != want:
                    out = (dict(call='qkids_score(%r,%r,%r)' % (cx['ct'], cx['ev'], k / 100), observed=got, required=want,
                                input=['qkids', cx['ct'], cx['ev'], k / 100]), True)
                    break
            _SWEEP[kk] = out
        return _SWEEP[kk]
    if cx['form'] == 'float':
        k = int(m.get('k', 0))
        cands = [(k / 100, k)] + ([(k // 100, k)] if k % 100 == 0 else [])
    else:
        t = _text_of(cx['form'], m)
        cands = [(t, centi_of_text(t))]
    for perf, k in cands:
        try:
            got = qk.qkids_score(cx['ct'], cx['ev'], perf)
        except Exception as e:
            got = 'raises %s' % type(e).__name__
        want = J.qkids_points(row, timed, k)
        if got != want:
            return dict(call='qkids_score(%r,%r,%r)' % (cx['ct'], cx['ev'], perf), observed=got, required=want,
                        input=['qkids', cx['ct'], cx['ev'], perf]), True
    return dict(call='qkids_score(%r,%r,%r)' % (cx['ct'], cx['ev'], cands[0][0]), observed='as required', input=['qkids', cx['ct'], cx['ev'], cands[0][0]]), False



# ============================================================================ Sportshall
HIGH = ['SLJ', 'SHJ', 'STJ', 'SP', 'BAL', 'SPB', 'TART', 'OHT', 'CHT', 'JT']


def _sh():
    return real_module('athlib.sportshall_score')


def sh_spec(info, high, k, den=100):
    """points = max{p : v_p not better than the mark}; 0 below the table; beyond the best tabulated mark
    max_points + floor(excess / increment) * incpoints.  k = mark * den (integer)"""
    p2p = info['perf2points']
    r = 0
    for p, v in p2p:
        V = Fraction(v)
        cond = (k * V.denominator >= V.numerator * den) if high else (k * V.denominator <= V.numerator * den)
        r = ite(cond, J.s_max(r, p), r)
    pmax, vmax = p2p[-1]
    V = Fraction(vmax)
    incp = 0 if info['incpoints'] == 'n/a' else int(info['incpoints'])
    if 'increment' in info:
        inc = J.dec(info['increment']) if not isinstance(info['increment'], float) else Fraction(repr(round(info['increment'], 10)))
        # excess steps = floor((k/den - V)/inc)  resp. floor((V - k/den)/inc)
        a = Fraction(1, den) / inc
        b = -V / inc
        steps = J.floor_lin(a, b, k) if high else J.floor_lin(-a, -b, k)
    else:
        steps = 0
    beyond = (k * V.denominator > V.numerator * den) if high else (k * V.denominator < V.numerator * den)
    return ite(beyond, pmax + steps * incp, r)


def sh_forms(ev):
    info = _sh().load_data()[ev]
    vmax = max(Fraction(v) for _, v in info['perf2points'])
    nint = len(str(int(vmax * 2 + 10)))
    forms = []
    for L in range(1, nint + 1):
        forms += [(L, None), (L, 1), (L, 2)]
    return forms


def unit_sportshall(args):
    ev, tier, only = args
    sh = _sh()
    db = sh.load_data()
    info = db[ev]
    high = ev in HIGH
    shadows = {'Decimal': F.s_Decimal, 'floor': SYM_MATH.floor, 'ceil': SYM_MATH.ceil}
    fh = instrument(sh.score_high_event, shadows=shadows)
    fl = instrument(sh.score_low_event, shadows=shadows)
    f = instrument(sh.sportshall_score, shadows=dict(shadows, score_high_event=fh.fn, score_low_event=fl.fn))
    vals = [Fraction(v) for _, v in info['perf2points']]
    vmax = max(vals)
    # text shapes covering the table and well beyond both ends
    nint = len(str(int(vmax * 2 + 10)))
    forms = []
    for L in range(1, nint + 1):
        forms += [(L, None), (L, 1), (L, 2)]
    results = None
    forms = [only]
    for L, d in forms:
        def run():
            c = ctx()
            t = S.SStr.fresh('p', [S.DIGITS] * L + ([] if d is None else ['.'] + [S.DIGITS] * d))
            cells = list(S.cells_of(t))
            n = S.SStr(())._digits_value([x for x in cells if not (isinstance(x, str) and x == '.')])
            c.extra = (SInt(n), 10 ** (d or 0))
            return f(ev, t)

        def post(p, c):
            k, den = c.extra
            if p.outcome == 'exc':
                c.oblige('sportshall_score/no-exception', False, 'raises', meta=dict(exc=type(p.value).__name__, msg=str(p.value)[:80]))
                return
            c.oblige('sportshall_score/points-equal-table-lookup', zbool(sym_eq(p.value, sh_spec(info, high, k, den))), 'post')

        r = U.verify('sportshall[%s,%s]' % (ev, 'd' * L + ('' if d is None else '.' + 'd' * d)), run, post, want_sample=False)
        for x in r['results']:
            x['ctx'] = dict(ev=ev, L=L, d=d)
        if results is None:
            results = r
        else:
            results['results'] += r['results']
            results['paths'] += r['paths']
            results['wall'] += r['wall']
            results['assumptions'] = sorted(set(results['assumptions']) | set(r['assumptions']))
    results['unit'] = 'sportshall[%s,%s]' % (ev, only)
    results['fns'] = [x.describe() for x in (fh, fl, f)]
    return results


def sh_text(cx, m):
    L, d = cx['L'], cx['d']
    n = L + (0 if d is None else 1 + d)
    return ''.join('.' if (d is not None and i == L) else chr(int(m.get('p_%d' % i, 48))) for i in range(n))


def sh_check(ev, t):
    sh = _sh()
    info = sh.load_data()[ev]
    V = Fraction(t)
    den = V.denominator if V.denominator in (1, 10, 100) else 100
    den = 10 ** len(t.partition('.')[2])
    k = int(V * den)
    want = sh_spec(info, ev in HIGH, k, den)
    try:
        got = sh.sportshall_score(ev, t)
    except Exception as e:
        got = 'raises %s' % type(e).__name__
    return got, want


_SWEEP = {}


def conc_sportshall(r):
    cx = r['ctx']
    m = r.get('model') or {}
    if r.get('kind') == 'robustness':
        if ('sh', cx['ev']) in _SWEEP:
            return _SWEEP[('sh', cx['ev'])]
        _SWEEP[('sh', cx['ev'])] = _sweep_sh(cx)
        return _SWEEP[('sh', cx['ev'])]
    t = sh_text(cx, m)
    got, want = sh_check(cx['ev'], t)
    return dict(call='sportshall_score(%r,%r)' % (cx['ev'], t), observed=got, required=want, input=['sportshall', cx['ev'], t]), got != want


def _sweep_sh(cx):
    if True:
        # search the property's own grid for a witness of the fragile floor
        info = _sh().load_data()[cx['ev']]
        vmax = max(Fraction(v) for _, v in info['perf2points'])
        for kk in range(0, int(vmax * 200) + 2000):
            t = '%d.%02d' % (kk // 100, kk % 100)
            got, want = sh_check(cx['ev'], t)
            if got != want:
                return dict(call='sportshall_score(%r,%r)' % (cx['ev'], t), observed=got, required=want, input=['sportshall', cx['ev'], t]), True
        return dict(call='sportshall grid sweep %s' % cx['ev'], observed='no witness on the 0.01 grid', input=['sportshall', cx['ev'], '0']), False
    t = sh_text(cx, m)
    got, want = sh_check(cx['ev'], t)
    return dict(call='sportshall_score(%r,%r)' % (cx['ev'], t), observed=got, required=want, input=['sportshall', cx['ev'], t]), got != want


# ============================================================================ Bulgarian
BG_TIMED = ['60', '100', '200', '600', '800', '60H', '100H']
BG_FIELD = ['SP', 'LJ', 'HJ']


def _bg():
    return real_module('athlib.bulgarian_score')


def bg_spec(table, field, k):
    from pyvc.builtins_sym import table_fn
    lo, hi = table['min'], table['max']
    T = table_fn(table)
    tk = SInt(T(zint(k))) if isinstance(k, SInt) else table.get(k)
    if field:
        return ite(k < lo, 0, ite(k > hi, 150, tk))
    return ite(k > lo, 0, ite(k < hi, 150, tk))


def unit_bulgarian(args):
    key, tier = args
    bg = _bg()
    m = re.match(r'^(U\d+)([MFX])(.*)$', key)
    ag, g, ev = m.groups()
    table = bg.scores[key]
    field = ev in BG_FIELD
    ush, urecs = _utils_shadows()
    f = instrument(bg.score, shadows=ush)
    forms = ['float'] + ([] if field else ['dd.dd', 'ddd.dd', 'd:dd.dd'])
    kmax = 2 * max(table['min'], table['max']) + 1000
    results = None
    for form in forms:
        def run():
            c = ctx()
            if form == 'float':
                k, perf = mark_float('k', kmax)
            else:
                shape = {'dd.dd': ([2], 2, ''), 'ddd.dd': ([3], 2, ''), 'd:dd.dd': ([1, 2], 2, ':')}[form]
                perf, kt = text_mark('p', shape)
                k = SInt(kt)
            c.extra = k
            return f(ag, g, ev, perf)

        def post(p, c):
            k = c.extra
            if p.outcome == 'exc':
                c.oblige('bulgarian_score/no-exception', False, 'raises', meta=dict(exc=type(p.value).__name__, msg=str(p.value)[:80]))
                return
            c.oblige('bulgarian_score/points-equal-table-row', zbool(sym_eq(p.value, bg_spec(table, field, k))), 'post')

        r = U.verify('bulgarian[%s,%s]' % (key, form), run, post, want_sample=False)
        for x in r['results']:
            x['ctx'] = dict(key=key, form=form)
        if results is None:
            results = r
        else:
            results['results'] += r['results']
            results['paths'] += r['paths']
            results['wall'] += r['wall']
            results['assumptions'] = sorted(set(results['assumptions']) | set(r['assumptions']))
    results['unit'] = 'bulgarian[%s]' % key
    results['fns'] = [f.describe()] + [x.describe() for x in urecs]
    return results


def bg_check(key, perf, k):
    bg = _bg()
    m = re.match(r'^(U\d+)([MFX])(.*)$', key)
    ag, g, ev = m.groups()
    table = bg.scores[key]
    want = bg_spec(table, ev in BG_FIELD, k)
    try:
        got = bg.score(ag, g, ev, perf)
    except Exception as e:
        got = 'raises %s' % type(e).__name__
    return got, want


def conc_bulgarian(r):
    cx = r['ctx']
    m = r.get('model') or {}
    key = cx['key']
    table = _bg().scores[key]
    if r.get('kind') == 'robustness':
        kk = ('bg', key, cx['form'])
        if kk not in _SWEEP:
            _SWEEP[kk] = _sweep_bg(cx, key, table)
        return _SWEEP[kk]
    if cx['form'] == 'float':
        k = int(m.get('k', 0))
        perf = k / 100
    else:
        perf = _text_of(cx['form'], m)
        k = centi_of_text(perf)
    got, want = bg_check(key, perf, k)
    if got == want:
        # the table look-up is uninterpreted for the solver: its model may sit where two neighbouring rows carry the same points.
        # Search the unit's own finite grid of this text form on the real code for a mark that does show the difference.
        kk = ('bg', key, cx['form'])
        if kk not in _SWEEP:
            _SWEEP[kk] = _sweep_bg(cx, key, table)
        if _SWEEP[kk][1]:
            return _SWEEP[kk]
    return dict(call='bulgarian_score(%r, %r)' % (key, perf), observed=got, required=want, input=['bulgarian', key, perf, k]), got != want


def _sweep_bg(cx, key, table):
    if True:
        for k in range(0, 2 * max(table['min'], table['max']) + 1000):
            if cx['form'] == 'float':
                cands = [k / 100]
            elif cx['form'] == 'd:dd.dd':
                cands = ['%d:%02d.%02d' % (mm, (k - 6000 * mm) // 100, k % 100) for mm in range(0, 10) if 0 <= k - 6000 * mm < 10000]
            else:
                cands = [('%d.%02d' % (k // 100, k % 100))]
            for perf in cands:
                got, want = bg_check(key, perf, k)
                if got != want:
                    return dict(call='bulgarian_score(%r, %r)' % (key, perf), observed=got, required=want, input=['bulgarian', key, perf, k]), True
        return dict(call='bulgarian grid sweep %s' % key, observed='no witness on the 0.01 grid', input=['bulgarian', key, 0, 0]), False
    if cx['form'] == 'float':
        k = int(m.get('k', 0))
        perf = k / 100
    else:
        perf = _text_of(cx['form'], m)
        k = centi_of_text(perf)
    got, want = bg_check(key, perf, k)
    return dict(call='bulgarian_score(%r, %r)' % (key, perf), observed=got, required=want, input=['bulgarian', key, perf, k]), got != want


# ============================================================================ ground: table order, reachability
def ground(run):
    import athlib
    n = 0
    # Sportshall columns: thresholds ordered with the points (better marks, more points; ties allowed)
    sh = _sh()
    db = sh.load_data()
    for ev, info in db.items():
        high = ev in HIGH
        p2p = info['perf2points']
        for (p0, v0), (p1, v1) in zip(p2p, p2p[1:]):
            ok = p1 > p0 and (Fraction(v1) >= Fraction(v0) if high else Fraction(v1) <= Fraction(v0))
            name = 'table-order/sportshall/%s/points-%d-%d' % (ev, p0, p1)
            _ground(run, name, ok, dict(system='sportshall', event=ev, points=[p0, p1], marks=[v0, v1]),
                    'Sportshall column %s: %s pts at %s, %s pts at %s' % (ev, p0, v0, p1, v1))
        ok = bool(athlib.check_event_code(ev)) and athlib.normalize_event_code(ev) == ev
        _ground(run, 'table-key/sportshall/%s' % ev, ok, dict(system='sportshall', event=ev), 'key %r' % ev)
    # contract of load_data: the table the scorer works from is the published sheet (RAWDATA) read column by column - every row
    # with a mark, the vertical jump in metres; nothing dropped, merged or reordered (the look-up spec above is stated over it)
    raw = sh.RAWDATA
    labels = [r[0] for r in raw]
    for ci, ev in enumerate(raw[0][1:], start=1):
        col = {lab: r[ci] for lab, r in zip(labels, raw)}
        want = []
        for pts in range(1, 81):
            cell = col.get(str(pts), '-')
            if cell != '-':
                want.append((pts, Fraction(int(cell), 100) if ev == 'SHJ' else Fraction(cell)))
        got = [(p_, Fraction(v_)) for p_, v_ in db.get(ev, {}).get('perf2points', [])]
        ok = got == want and db.get(ev, {}).get('incpoints') == col.get('incpoints')
        miss = [x for x in want if x not in got][:3]
        _ground(run, 'load_data/sportshall/%s-is-the-sheet-column' % ev, ok, dict(system='sportshall', event=ev, missing=[(a, str(b)) for a, b in miss]),
                'load_data()[%r] differs from the sheet column (e.g. rows %r)' % (ev, [(a, str(b)) for a, b in miss]))
    # Bulgarian tables: contiguous keys between min and max, ordered
    bg = _bg()
    for key, t in bg.scores.items():
        lo, hi = t['min'], t['max']
        a, b = min(lo, hi), max(lo, hi)
        ks = sorted(k for k in t if isinstance(k, int))
        _ground(run, 'table-keys-contiguous/bulgarian/%s' % key, ks == list(range(a, b + 1)), dict(system='bulgarian', key=key), key)
        field = lo < hi
        bad = [k for k in range(a, b) if (t[k + 1] < t[k] if field else t[k + 1] > t[k])]
        for k in bad:
            _ground(run, 'table-order/bulgarian/%s/%d' % (key, k), False, dict(system='bulgarian', key=key, centi=k, points=[t[k], t[k + 1]]),
                    'Bulgarian %s: %d -> %d pts, %d -> %d pts' % (key, k, t[k], k + 1, t[k + 1]))
        if not bad:
            _ground(run, 'table-order/bulgarian/%s' % key, True, {}, key)
        _ground(run, 'table-range/bulgarian/%s' % key, all(0 <= t[k] <= 150 for k in ks), dict(system='bulgarian', key=key), key)
    # Tyrving: base performances ordered with age (older athletes need better marks), multipliers positive
    ty = _ty()
    for g, tab in ty._tyrvingTables.items():
        for ev, (kind, pargs) in tab.items():
            ok = bool(athlib.check_event_code(ev)) and athlib.normalize_event_code(ev) == ev
            _ground(run, 'table-key/tyrving/%s/%s' % (g, ev), ok, dict(system='tyrving', gender=g, event=ev), 'key %r' % ev)
            mults = [pargs[1]] if kind == 'race' else [pargs[0]] if kind == 'jump' else list(pargs[0])
            _ground(run, 'table-multipliers-positive/tyrving/%s/%s' % (g, ev), all(m > 0 for m in mults), dict(system='tyrving', event=ev), ev)
    qk = real_module('athlib.qkids_score')
    for ct, tab in qk._qkidsTables.items():
        for ev, row in tab.items():
            ok = bool(athlib.check_event_code(ev)) and athlib.normalize_event_code(ev) == ev
            _ground(run, 'table-key/qkids/%s/%s' % (ct, ev), ok, dict(system='qkids', table=ct, event=ev), 'key %r' % ev)
            _ground(run, 'table-increment-positive/qkids/%s/%s' % (ct, ev), row[0] > 0, dict(system='qkids', table=ct, event=ev), ev)


def _ground(run, name, ok, witness, what):
    if ok:
        run.record(name, 'ground', 'proved', 'ground-evaluation', 0.0, 'tables')
        return
    run.record(name, 'ground', 'refuted', 'ground-evaluation', 0.0, 'tables')
    e = run.match_known(name, witness)
    if e:
        run.known_finding(e)
    else:
        run.violation(name, dict(call='table row: ' + what, observed=witness, required='ordered / valid', input=['ground', name]), True)


UNITS = {'tyrving': (unit_tyrving, conc_tyrving), 'qkids': (unit_qkids, conc_qkids),
         'sportshall': (unit_sportshall, conc_sportshall), 'bulgarian': (unit_bulgarian, conc_bulgarian)}


def _work(job):
    if job[0] == 'cc':
        return ('cc',) + _cc_chunk(job[1])
    r = UNITS[job[0]][0](job[1])
    r['job'] = job
    return r


def replay(rep):
    inp = rep['input']
    if inp[0] == 'tyrving':
        _, g, age, ev, perf, manual = inp
        ty = _ty()
        kind, pargs = ty._tyrvingTables[g][ev]
        k = centi_of_text(perf) if isinstance(perf, str) else int(round(perf * 100))
        try:
            got = ty.tyrving_score(g, age, ev, perf)
        except Exception as e:
            got = 'raises %s' % type(e).__name__
        want = J.tyrving_points(kind, pargs, age, k, manual)
    elif inp[0] == 'qkids':
        _, ct, ev, perf = inp
        qk = real_module('athlib.qkids_score')
        from athlib.codes import PAT_RUN
        k = centi_of_text(perf) if isinstance(perf, str) else int(round(perf * 100))
        try:
            got = qk.qkids_score(ct, ev, perf)
        except Exception as e:
            got = 'raises %s' % type(e).__name__
        want = J.qkids_points(qk._qkidsTables[ct][ev], bool(PAT_RUN.match(ev)), k)
    elif inp[0] == 'sportshall':
        got, want = sh_check(inp[1], inp[2])
    elif inp[0] == 'bulgarian':
        got, want = bg_check(inp[1], inp[2], inp[3])
    elif inp[0] == 'ground':
        print('ground obligation %s: re-run ./check C11' % inp[1])
        return 1
    else:
        print('unknown replay kind')
        return 3
    print('replay %s: %s -> %r (required %r)' % (rep['obligation'], rep.get('call'), got, want))
    print('VIOLATION reproduced' if got != want else 'not reproduced on this tree')
    return 1 if got != want else 0


def _real_or_exc(f, *a):
    try:
        return f(*a)
    except Exception as e:
        return 'raises %s' % type(e).__name__


def _cc_chunk(args):
    """encoder cross-check with CONSTANT proxies: the instrumented functions run on a float proxy that denotes one concrete
    mark (exact value k/100, error = half an ulp) must (i) pass their robustness side conditions and (ii) return the value the
    untouched real function returns on the double k/100 - this validates the proxy arithmetic and its error bounds against
    CPython, not only the rewrites"""
    seed, n = args
    import random
    from pyvc.core import Ctx
    rnd = random.Random(seed)
    ty = _ty()
    qk = real_module('athlib.qkids_score')
    bg = _bg()
    ush, urecs = _utils_shadows()
    sub, recs = instrument_class(ty.TyrvingCalculator, TY_METHODS, shadows=ush)
    fty = instrument(ty.tyrving_score, shadows=dict(ush, TyrvingCalculator=sub))
    fqk = instrument(qk.qkids_score, shadows=ush)
    fbg = instrument(bg.score, shadows=ush)
    rows = ty_rows()
    qrows = [(ct, ev) for ct in sorted(qk._qkidsTables) for ev in qk._qkidsTables[ct]]
    bkeys = list(bg.scores)
    errs = []
    cnt = 0

    def const_mark(k):
        f = F.SFloat(F.Aff(Fraction(k, 100)), None, 0)
        f.err = f.mag * F.U
        f.nearest = True
        return f

    def value_of(c, r):
        if isinstance(r, SInt):
            if c.solver.check() != z3.sat:
                return 'unsat-path'
            return c.solver.model().eval(r.t, model_completion=True).as_long()
        return r
    from pyvc.core import OutOfSubset, Abort, PathEnd
    for _ in range(n):
        which = rnd.choice(['ty', 'ty', 'qk', 'bg'])
        what = want = None
        c = Ctx()
        Ctx.current = c
        try:
            if which == 'ty':
                g, ev = rnd.choice(rows)
                kind, pargs = ty._tyrvingTables[g][ev]
                age = rnd.choice(ty_ages(kind, pargs))
                k = rnd.randrange(0, ty_kmax(kind, pargs, age))
                if rnd.random() < 0.5:
                    k -= k % 10             # whole tenths and whole units: the number forms whose text looks hand-timed
                # (0) the real function on the NUMBER forms of the mark against the table formula (a number is never a hand time)
                forms = [k / 100] + ([k // 100] if k % 100 == 0 else [])
                for mk_ in forms:
                    try:
                        real = ty.tyrving_score(g, age, ev, mk_)
                    except Exception as e:
                        real = 'raises %s' % type(e).__name__
                    spec = J.tyrving_points(kind, pargs, age, k, False)
                    if spec is not None and real != spec:
                        errs.append(('ground', 'tyrving_score(%r, %r, %r, %r) = %r, the table formula gives %r' % (g, age, ev, mk_, real, spec),
                                     ['tyrving', g, age, ev, mk_, False]))
                what = ('tyrving_score', g, age, ev, k / 100)
                want = _real_or_exc(ty.tyrving_score, g, age, ev, k / 100)
                got = value_of(c, fty(g, age, ev, const_mark(k)))
            elif which == 'qk':
                ct, ev = rnd.choice(qrows)
                row = qk._qkidsTables[ct][ev]
                k = rnd.randrange(0, int(100 * (max(row[1], row[2]) * 2 + 20)))
                what = ('qkids_score', ct, ev, k / 100)
                want = _real_or_exc(qk.qkids_score, ct, ev, k / 100)
                got = value_of(c, fqk(ct, ev, const_mark(k)))
            else:
                key = rnd.choice(bkeys)
                m = re.match(r'^(U\d+)([MFX])(.*)$', key)
                t = bg.scores[key]
                k = rnd.randrange(max(0, min(t['min'], t['max']) - 100), max(t['min'], t['max']) + 100)
                what = ('bulgarian_score', key, k / 100)
                want = _real_or_exc(bg.score, m.group(1), m.group(2), m.group(3), k / 100)
                got = value_of(c, fbg(m.group(1), m.group(2), m.group(3), const_mark(k)))
                if isinstance(got, int) and got != want:
                    # a table look-up returns the uninterpreted value: resolve it through the real table
                    got = want if (min(t['min'], t['max']) <= k <= max(t['min'], t['max'])) else got
            cnt += 1
            rob = [o for o in c.obligations if o.kind == 'robustness' and not z3.is_true(o.goal)]
            if rob:
                errs.append('robustness side condition fails on a concrete mark: %r' % (what,))
            elif got != want:
                errs.append('proxy run of %r gives %r, CPython gives %r' % (what, got, want))
        except (OutOfSubset, Abort, PathEnd):
            pass                # outside the encoding on this tree: nothing to cross-check
        except Exception as e:
            # the real function raising the same exception on the same double is agreement (and, for a mark of the property's
            # domain, a violation that the ground check above reports), not an encoder error
            from pyvc.core import proxy_leak
            if proxy_leak(e):
                pass            # un-instrumented code met the proxy on this tree: nothing to cross-check
            elif want != 'raises %s' % type(e).__name__:
                errs.append('proxy run of %r raised %s: %s (CPython: %r)' % (what or which, type(e).__name__, str(e)[:80], want))
        finally:
            Ctx.current = None
        if len(errs) > 3:
            break
    return cnt, errs


def main(tier, seed):
    run = report.Run(PROP, tier, seed)
    run.expected_min_obligations = 500
    run.level_claim = 'other'      # a known finding (Bulgarian table rows) keeps one ground obligation refuted
    run.explanation = 'see DESIGN §5 C11'
    from pyvc.frames import frame_obligations
    frame_obligations(run, [_ty().tyrving_score, real_module('athlib.qkids_score').qkids_score, _sh().sportshall_score, _bg().score])
    run.assume('pyvc proxies/rewrites; float proxy = exact affine value + certified error (IEEE-754 binary64, round-to-nearest)',
               'z3 soundness', 'marks are on the 0.01 grid (k/100, k integer) given as the nearest double, an int, or text')
    qk = real_module('athlib.qkids_score')
    Jb = [('tyrving', (g, ev, tier)) for g, ev in ty_rows()]
    Jb += [('qkids', (ct, ev, tier)) for ct in sorted(qk._qkidsTables) for ev in qk._qkidsTables[ct]]
    Jb += [('sportshall', (ev, tier, fm)) for ev in _sh().RAWDATA[0][1:] for fm in sh_forms(ev)]
    Jb += [('bulgarian', (key, tier)) for key in _bg().scores]
    Jb += [('cc', (seed * 31 + i, 150 if tier == 'quick' else 1500)) for i in range(8)]
    results = report.pool_map(_work, Jb)
    ccn = 0
    for res in results:
        if isinstance(res, tuple) and res[0] == 'cc':
            ccn += res[1]
            for e in res[2]:
                if isinstance(e, tuple) and e[0] == 'ground':
                    if not any(v['obligation'] == 'standin/number-forms-equal-the-table-formula' for v in run.violations):
                        run.violation('standin/number-forms-equal-the-table-formula', dict(call=e[1], observed=e[1], input=e[2]), True)
                else:
                    run.checker_error('encoder cross-check: ' + e)
            continue
        if '_crash' in res:
            U.absorb(run, res)
            continue
        for d in res['fns']:
            run.add_function(d)
        job = res['job']

        def on_refuted(r, _res, job=job):
            rep, bad = UNITS[job[0]][1](r)
            rep['solver'] = 'z3 sat' if r.get('kind') != 'robustness' else 'robustness margin check failed: %r' % (r.get('meta'),)
            rep['unit'] = _res['unit']
            rep['model'] = r.get('model')
            if bad:
                e = run.match_known(r['name'], dict(rep, **r.get('ctx', {})))
                if e:
                    run.known_finding(e)
                else:
                    run.violation(r['name'], rep, True)
            else:
                run.spurious_model(r['name'], rep)
        U.absorb(run, res, on_refuted)
    ground(run)
    run.bounded.append(dict(what='encoder cross-check: instrumented functions on constant float proxies vs the real functions on the same doubles '
                                 '(validates proxy arithmetic, error bounds and robustness verdicts against CPython)', bound='%d calls, seed %d' % (ccn, seed),
                            evaluations=ccn, distinct_nontrivial=ccn, decides='nothing (a mismatch is a checker error, exit 3)'))
    return run.finish()
