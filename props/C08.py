"""C08 - high jump: replaying the log or the card, in any jumping order, rebuilds it.

Symbolic (C02 harness): for every public mutator, on a symbolic pre-state, for EVERY order of ranked_jumpers among the
athletes (the only state that is not observable): an accepted call appends exactly itself to the log, a refused call
appends nothing and changes nothing, and the post-state equals the rule machine's step - a function of the observable
pre-state and the argument only.  Hence (induction over the log) replaying the log reproduces the observables.
Jumping order: a z3 lemma on the abstract rule machine (to which the real class is proved equal step by step): two
adjacent trials of different athletes commute - both orders accepted, same complete state - for any state satisfying
the invariant, N = 2, 3; adjacent transpositions generate every interleaving that keeps each athlete's own order.
from_actions itself is under contract for a log of ANY length (loop cut with a ghost counter: every logged action replayed
exactly once, in order, with its own value, on one fresh instance, never leaving early).
Bounded (labelled so): on random competition prefixes of the real class - from_actions replay (second line), the to_matrix /
from_matrix round trip (explicit pass marks aside), `trials`, and (as a second line for the lemma) per-height
interleavings of the athletes' trial sequences: all accepted, same cards, state and places."""
import itertools
import random
from decimal import Decimal

from pyvc import report, unit as U
from pyvc.util import real_module
from props import hjcommon as HC, C02, C03
from specs import highjump as SP

PROP = 'C08'


def observe(c):
    return dict(state=c.state, heights=[str(h) for h in c.heights],
                jumpers=sorted([dict(bib=str(j.bib), card=list(j.attempts_by_height), best=str(j.highest_cleared), place=j.place) for j in c.jumpers],
                               key=lambda d: d['bib']), trials=[(str(t[0]), str(t[1]), t[2]) for t in c.trials])


def strip_pass(o):
    """explicit pass marks aside: a card cell '-' is a skipped height; trailing empty cells dropped"""
    o = dict(o, jumpers=[dict(j) for j in o['jumpers']])
    for j in o['jumpers']:
        card = [c.replace('-', '') for c in j['card']]
        while card and card[-1] == '':
            card.pop()
        j['card'] = card
    o.pop('trials', None)
    return o


def per_height_blocks(actions):
    """log -> [(bar, [trial calls...])]"""
    blocks = []
    for a, v in actions:
        if a == 'add_jumper':
            continue
        if a == 'set_bar_height':
            blocks.append((v, []))
        elif blocks:
            blocks[-1][1].append((a, v))
    return blocks


def interleavings(calls, rnd, limit):
    """orders of `calls` that keep each athlete's own sequence"""
    by = {}
    for a, b in calls:
        by.setdefault(b, []).append((a, b))
    seqs = list(by.values())
    total = 1
    import math
    n = sum(len(s) for s in seqs)
    total = math.factorial(n)
    for s in seqs:
        total //= math.factorial(len(s))
    if total <= limit:
        def rec(idx):
            if all(i == len(s) for i, s in zip(idx, seqs)):
                yield []
                return
            for k, s in enumerate(seqs):
                if idx[k] < len(s):
                    nxt = list(idx)
                    nxt[k] += 1
                    for rest in rec(nxt):
                        yield [s[idx[k]]] + rest
        for o in rec([0] * len(seqs)):
            yield o
    else:
        for _ in range(limit):
            idx = [0] * len(seqs)
            out = []
            while any(i < len(s) for i, s in zip(idx, seqs)):
                k = rnd.choice([k for k, s in enumerate(seqs) if idx[k] < len(s)])
                out.append(seqs[k][idx[k]])
                idx[k] += 1
            yield out


def check_competition(c, N, rnd):
    hj = real_module('athlib.highjump')
    RVc = C02.RV()
    o = observe(c)
    # 1. log replay
    r = c.from_actions()
    if observe(r) != o:
        return 'replaying the action log gives a different competition', dict(original=o, replayed=observe(r))
    # 2. card export / import
    m = c.to_matrix(keys=['bib', 'order'])
    try:
        r2 = hj.HighJumpCompetition.from_matrix(m)
        o2 = observe(r2)
    except Exception as e:
        return 'importing the exported card raised %s' % type(e).__name__, dict(matrix=m)
    if strip_pass(o2) != strip_pass(o):
        return 'exporting and importing the card gives a different competition', dict(original=strip_pass(o), imported=strip_pass(o2), matrix=m)
    # 3. jumping order
    blocks = per_height_blocks(c.actions)
    bibs = [j.bib for j in c.jumpers]
    for trial in range(6):
        x = hj.HighJumpCompetition()
        for b in bibs:
            x.add_jumper(bib=b)
        ok = True
        for bar, calls in blocks:
            x.set_bar_height(bar)
            orders = list(interleavings(calls, rnd, 6))
            order = orders[rnd.randrange(len(orders))] if orders else []
            for a, b in order:
                try:
                    getattr(x, a)(b)
                except RVc:
                    return 'an interleaving that keeps each athlete\'s own sequence was refused', dict(bar=str(bar), order=order, log=[(a, str(v)) for a, v in c.actions])
        ox = observe(x)
        ox.pop('trials')
        oo = dict(o)
        oo.pop('trials')
        if ox != oo:
            return 'a different jumping order gives a different result', dict(original=oo, reordered=ox, log=[(a, str(v)) for a, v in x.actions])
    return None, None


def standin_chunk(args):
    seed, n, N = args
    rnd = random.Random(seed)
    hj = real_module('athlib.highjump')
    RVc = C02.RV()
    bad = []
    cnt = 0
    for _ in range(n):
        c, hist = C03.random_competition(rnd, N, hj, RVc)
        # also a random prefix of it
        for cut in (len(c.actions), rnd.randrange(N, len(c.actions) + 1)):
            # the prefix is rebuilt by applying the logged calls directly (not through from_actions, which is under test)
            p = hj.HighJumpCompetition()
            for a, v in c.actions[:cut]:
                if isinstance(v, dict):
                    getattr(p, a)(**v)
                else:
                    getattr(p, a)(v)
            cnt += 1
            try:
                w, d = check_competition(p, N, rnd)
            except Exception as e:       # the code under test raised while replaying / exporting / re-ordering
                w, d = 'replaying or re-importing raised %s: %s' % (type(e).__name__, str(e)[:80]), None
            if w:
                bad.append((N, [(a, str(v) if a == 'set_bar_height' else v) for a, v in p.actions if a != 'add_jumper'], w, d))
                break
        if len(bad) >= 2:
            break
    return cnt, bad


def replay(rep):
    if rep['input'][0] == 'prefix':
        _, N, hist = rep['input']
        c = C03.run_hist(N, [tuple(x) for x in hist])
        try:
            w, d = check_competition(c, N, random.Random(1))
        except Exception as e:
            w = 'raised %s' % type(e).__name__
        print('replay %s: %d athletes, %d calls -> %r' % (rep['obligation'], N, len(hist), w))
        print('VIOLATION reproduced' if w else 'not reproduced on this tree')
        return 1 if w else 0
    return C02.replay(rep)


def unit_swap(args):
    """jumping-order independence as a lemma on the abstract rule machine (which the C02 obligations prove equal, step by
    step, to the real class): for athletes a != b, marks p, q and ANY machine state satisfying the invariant, if p(a); q(b)
    is accepted then q(b); p(a) is accepted and both orders end in the same complete state.  Adjacent transpositions generate
    every interleaving that keeps each athlete's own order, so all of them are accepted and agree.  Also: the fork-free encoding
    with a symbolic state used here coincides with specs/highjump.step_rank for every concrete state; hypotheses are satisfiable."""
    import itertools
    import z3
    from specs import highjump_z3 as Z
    from pyvc.core import Obligation, discharge, smt2_of
    N, = args

    def mkj(nm):
        return SP.JV(nxA=z3.Array(nm + '_nx', z3.IntSort(), z3.IntSort()), tmA=z3.Array(nm + '_tm', z3.IntSort(), z3.IntSort()), n=z3.Int(nm + '_n'),
                     best=z3.Real(nm + '_best'), best_idx=z3.Int(nm + '_bi'), out=z3.Bool(nm + '_out'), done=z3.Bool(nm + '_done'),
                     lim=z3.Int(nm + '_lim'), cf=z3.Int(nm + '_cf'), place=z3.Int(nm + '_pl'))
    js = [mkj('j%d' % k) for k in range(N)]
    ps = [z3.Function('ps%d' % k, z3.IntSort(), z3.IntSort()) for k in range(N)]
    s, H, bar = z3.Int('s'), z3.Int('H'), z3.Real('bar')
    cs = [H >= 1, z3.And(s >= 1, s <= 3)]
    for v in js:
        cs += [SP.inv_jumper(v, H), v.place >= 1, v.best >= 0, z3.Implies(v.best_idx < 0, v.best == 0),
               z3.Implies(z3.Or(s == 1, s == 3), z3.And(v.best <= bar, z3.Implies(v.best == bar, v.done), v.lim == 3))]
    cs.append(z3.Implies(s == 3, z3.Sum([z3.If(v.out, 0, 1) for v in js]) == 1))
    inv = z3.And(*cs)
    inputs = {'s': s, 'H': H, 'bar': bar}
    for k, v in enumerate(js):
        for f in ('n', 'best', 'best_idx', 'out', 'done', 'lim', 'cf', 'place'):
            inputs['j%d_%s' % (k, f)] = getattr(v, f)
    out = []
    sample = None
    for a, b in itertools.combinations(range(N), 2):
        for p, q in itertools.product('ox-r', repeat=2):
            l1, s1, j1 = Z.trial(s, H, bar, js, ps, a, p)
            l2, s2, j2 = Z.trial(s1, H, bar, j1, ps, b, q)
            m1, t1, k1 = Z.trial(s, H, bar, js, ps, b, q)
            m2, t2, k2 = Z.trial(t1, H, bar, k1, ps, a, p)
            goal = z3.And(m1, m2, s2 == t2, *[Z.same_view(x, y, H) for x, y in zip(j2, k2)])
            ob = Obligation('rule-machine/adjacent-trials-of-different-athletes-commute[%s then %s]' % (p, q), 'lemma', [inv, l1, l2], goal)
            r = discharge(ob, inputs, 60000)
            r.pop('_z3model', None)
            r.pop('_solver', None)
            r['ctx'] = dict(m='swap', N=N, state='any', bi=None)
            out.append(r)
            if sample is None and r['verdict'] == 'proved' and N == 2:
                sm = smt2_of(ob)
                if len(sm) < 12000:
                    sample = dict(unit='swap lemma N=2', obligation=ob.name, verdict='unsat', smt2=sm)
            sol = z3.Solver()
            sol.set('timeout', 20000)
            sol.add(inv, l1, l2)
            cv = sol.check()
            out.append(dict(name='rule-machine/swap-lemma-hypotheses-satisfiable[%s then %s]' % (p, q), kind='cover', backend='z3', time=0.0, model=None,
                            verdict='proved' if cv == z3.sat else ('unknown' if cv == z3.unknown else 'refuted'), ctx=dict(m='swap', N=N, state='any', bi=None)))
    # consistency of the symbolic-state encoding with specs/highjump.step_rank
    for st in ('started', 'jumpoff', 'won'):
        cases, fin = SP.step_rank(st, js, ps, H)
        s2, fin2 = Z.rank(z3.IntVal(Z.S[st]), js, ps, H)
        goal = z3.And(*([z3.Implies(c, s2 == Z.S[nm]) for c, nm in cases] + [Z.same_view(x, y, H) for x, y in zip(fin, fin2)]))
        r = discharge(Obligation('rule-machine/symbolic-state-encoding-equals-step_rank[%s]' % st, 'lemma', [z3.And(*[SP.inv_jumper(v, H) for v in js]), H >= 1], goal), inputs, 60000)
        r.pop('_z3model', None)
        r.pop('_solver', None)
        r['ctx'] = dict(m='swap', N=N, state=st, bi=None)
        out.append(r)
    return dict(unit='jumping-order lemma on the rule machine[N=%d]' % N, paths=1, stats={}, outcomes={}, assumptions=[], sample=sample, wall=0.0, fns=[], results=out)


def unit_from_actions(args):
    """from_actions against its contract, for a log of ANY length (loop cut with an invariant over a ghost counter): on a fresh
    instance of the receiver's class every logged action is replayed exactly once, in order, with its own value (a dict as
    keyword arguments, anything else as the single argument); the loop never leaves early; that instance is returned.
    With log exactness and per-call determinism (the other units) this makes replay equality an induction over the log."""
    import z3
    from pyvc.core import ctx
    from pyvc.instrument import instrument
    from pyvc.values import Sym
    hj = real_module('athlib.highjump')

    class Tok(object):
        def __init__(self, what):
            self.what = what

    class Spy(object):
        made = []

        def __init__(self):
            self.count = 0            # python int or z3 Int: number of replayed calls
            self.last = None
            Spy.made.append(self)

        def __getattr__(self, name):
            # any observable of the competition being rebuilt may have any value (the replay must not depend on it)
            if name.startswith('__'):
                raise AttributeError(name)
            from pyvc.values import SBool
            return SBool(ctx().fresh('observable_' + name, 'bool'))

    def s_getattr(o, name, *d):
        if isinstance(o, Spy):
            def rec(*a, **k):
                o.count = o.count + 1
                o.last = (name, a, k)
            return rec
        return getattr(o, name, *d)
    st = {}

    def loop_inv(n, when, loc):
        c = ctx()
        if when == 'break':
            c.notes.append(('early',))
            return
        h = loc.get('hj')
        ok = isinstance(h, Spy) and len(Spy.made) == 1 and h is Spy.made[0]
        c.oblige('from_actions/replays-on-one-fresh-instance/%s' % when, bool(ok), 'invariant')
        if not ok:
            return
        if when == 'entry':
            c.oblige('from_actions/invariant(calls replayed = actions consumed)/entry', h.count == 0, 'invariant')
        else:
            a, v = st['item']
            good = isinstance(h.last, tuple) and h.last[0] is a and ((h.last[1] == () and set(h.last[2]) == set(v) and all(h.last[2][kk] is v[kk] for kk in v))
                                                                     if isinstance(v, dict) else (len(h.last[1]) == 1 and h.last[1][0] is v and h.last[2] == {}))
            c.oblige('from_actions/each-action-is-replayed-with-its-own-value', bool(good), 'invariant')
            c.oblige('from_actions/invariant(calls replayed = actions consumed)/preserve', h.count == st['k'] + 1, 'invariant')

    def loop_havoc(n, loc):
        c = ctx()
        k = c.fresh('consumed')
        c.assume(k >= 0)
        st['k'] = k
        loc['hj'].count = k          # invariant assumed: as many calls replayed as actions consumed
        loc['hj'].last = None
        return (Tok('a'), Tok('v'), None)

    def loop_more(n):
        c = ctx()
        return c.decide(c.fresh('more_actions', 'bool'))

    def loop_item(n, it):
        c = ctx()
        want = st['arg'] if st['arg'] is not None else st['recv'].actions
        c.oblige('from_actions/iterates-over-the-given-log-or-its-own', it is want, 'post')
        a = Tok('name')
        v = {'k': Tok('value')} if c.choose(2, 'value_kind') == 0 else Tok('value')
        st['item'] = (a, v)
        return (a, v)
    raw = hj.HighJumpCompetition.__dict__['from_actions']
    f = instrument(raw, shadows={'getattr': s_getattr, '__loop_inv': loop_inv, '__loop_havoc': loop_havoc, '__loop_more': loop_more, '__loop_item': loop_item},
                   loop_cuts={1: dict(havoc=['a', 'v', 'm'], kind='for')})

    class Recv(object):
        pass

    def run():
        c = ctx()
        Spy.made = []
        r = Recv()
        r.__class__ = type('R', (object,), {})
        recv = type('Recv', (object,), {'__class__': property(lambda self: Spy), 'actions': Tok('own-log')})()
        c.called = True
        which = c.choose(2, 'explicit_or_own_log')
        st['arg'] = Tok('given-log') if which == 0 else None
        st['recv'] = recv
        return f.fn(recv, st['arg'])

    def post(p, c):
        if p.outcome == 'cut':
            return
        if p.outcome == 'exc':
            c.oblige('from_actions/no-exception', False, 'raises', meta=dict(exc=type(p.value).__name__, msg=str(p.value)[:80]))
            return
        h = p.value
        ok = isinstance(h, Spy) and len(Spy.made) == 1 and h is Spy.made[0]
        c.oblige('from_actions/returns-the-replayed-instance', bool(ok), 'post')
        # the loop was left because the log was exhausted, not by a break / early return: then calls replayed = consumed = len(log)
        left_early = any(isinstance(n, tuple) and n and n[0] == 'early' for n in c.notes)
        c.oblige('from_actions/every-logged-action-is-replayed', ok and h.last is None and not left_early, 'post')

    res = U.verify('from_actions[any log]', run, post, want_sample=True)
    res['fns'] = [f.describe()]
    for x in res['results']:
        x['ctx'] = dict(m='from_actions', N=0, state='scheduled', bi=None)
    return res


def _work(job):
    if job[0] == 'fromactions':
        r = unit_from_actions(job[1])
        r['job'] = job
        return r
    if job[0] == 'swap':
        r = unit_swap(job[1])
        r['job'] = job
        return r
    if job[0] == 'standin':
        return ('standin', standin_chunk(job[1]))
    r = C02.UNITS[job[0]](job[1])
    r['job'] = job
    return r


def main(tier, seed):
    run = report.Run(PROP, tier, seed)
    run.expected_min_obligations = 500
    run.level_claim = 'other'
    run.explanation = __doc__
    run.assume('pyvc proxies/rewrites; heap = real objects with proxy fields', 'z3 soundness', 'N athletes fixed per instance',
               'induction over the log: replay equality follows from log exactness + per-call determinism (meta-argument)',
               'the card round trip (to_matrix / from_matrix) is checked by the bounded stand-in only; from_actions is under contract for a log of any length '
               '(loop cut, ghost counter); the interleaving clause rests on the swap lemma over the rule machine')
    J = []
    for N in (1, 2):
        for state in SP.STATES:
            J.append(('bar', (N, state)))
            J.append(('add', (N, state, False)))
            for m in HC.TRIALS:
                for perm in HC.perms(N):
                    for bi in range(N):
                        J.append(('trial', (m, N, state, bi, perm)))
    for perm in HC.perms(3):
        J.append(('trial', ('failed', 3, 'started', 1, perm)))
    J += [('swap', (2,)), ('swap', (3,)), ('fromactions', ())]
    n_each = 400 if tier == 'quick' else 6000
    J += [('standin', (seed * 1000 + i, n_each // 8, N)) for i in range(8) for N in (2, 3)]
    results = report.pool_map(_work, J)
    cache = {}
    cnt = 0
    for res in results:
        if isinstance(res, tuple):
            n, bad = res[1]
            cnt += n
            for N, hist, w, d in bad[:1]:
                run.violation('standin/replay-card-and-jumping-order', dict(call='%d athletes, history %r' % (N, hist), observed=w, detail=d,
                                                                            input=['prefix', N, hist]), True)
            continue
        if '_crash' in res:
            U.absorb(run, res)
            continue
        for d in res['fns']:
            run.add_function(d)

        def on_refuted(r, _res):
            key = r['name']
            if key.startswith('from_actions/'):
                # the contract of from_actions failed: look for a competition prefix on the real class whose replay differs
                if key not in cache:
                    w = None
                    for N in (2, 3):
                        n_, bad_ = standin_chunk((seed * 77 + N, 150, N))
                        if bad_:
                            w = bad_[0]
                            break
                    cache[key] = w
                w = cache[key]
                if w:
                    run.violation(key, dict(call='%d athletes, history %r' % (w[0], w[1]), observed=w[2], detail=w[3], input=['prefix', w[0], w[1]],
                                            unit=_res['unit'], solver='z3 sat', meta=r.get('meta')), True)
                else:
                    run.violation(key, dict(call='from_actions (contract)', observed='no differing replay among 300 random prefixes', unit=_res['unit'],
                                            solver='z3 sat', meta=r.get('meta'), input=None), False)
                return
            if key not in cache:
                cache[key] = C02.concretise(r)
            rep, bad = cache[key]
            run.violation(r['name'], dict(rep, model=r.get('model'), unit=_res['unit'], solver='z3 sat', meta=r.get('meta')), bad)
        U.absorb(run, res, on_refuted)
    run.bounded.append(dict(what='random competition prefixes on the real class: from_actions replay, to_matrix/from_matrix round trip, trials, '
                                 'per-height interleavings (all if <= 6 else 6 random, 6 rounds)', bound='%d prefixes, seed %d' % (cnt, seed),
                            evaluations=cnt, distinct_nontrivial=cnt, decides='the replay / card / jumping-order clauses (bounded)'))
    return run.finish()
