"""Shared harness for the high-jump properties C02 / C03 / C08: real Jumper / HighJumpCompetition instances (made with
__new__) whose fields hold symbolic proxies; per-method obligations against the abstract rule machine."""
import itertools
from decimal import Decimal

import z3

from pyvc.core import ctx, OutOfSubset, PathEnd
from pyvc.values import SInt, SBool, SReal, mkbool, zbool, zint, zreal
from pyvc.instrument import instrument
from pyvc import hj as H
from pyvc.util import real_module
from specs import highjump as SP

J_METHODS = ['_set_jump_array', 'has_retired', 'ranking_key', 'place', 'cleared', 'failed', 'passed', 'retired']
C_METHODS = ['add_jumper', 'set_bar_height', 'check_started', 'cleared', 'failed', 'passed', 'retired', 'remaining', 'eliminated',
             '_rankj', '_rank', 'trials', 'is_finished', 'is_running']
BIBS = ['A', 'B', 'C', 'D']
TRIALS = {'cleared': 'o', 'failed': 'x', 'passed': '-', 'retired': 'r'}


def _hj():
    return real_module('athlib.highjump')


def build_classes():
    hj = _hj()
    recs = []

    # ---- the padding loop of _set_jump_array is cut by a quantified invariant --------------------------------------
    def loop_inv(n, when, loc):
        c = ctx()
        atts, hc = loc['atts'], loc['height_count']
        g = c.hj_ghost[id(atts)]
        nx0, tm0, n0 = g
        i = z3.Int('li')
        inv = z3.And(atts.n >= n0, z3.Or(atts.n <= zint(hc), atts.n == n0),
                     z3.ForAll([i], z3.Implies(z3.And(i >= 0, i < n0), z3.And(z3.Select(atts.nxA, i) == z3.Select(nx0, i),
                                                                               z3.Select(atts.tmA, i) == z3.Select(tm0, i)))),
                     z3.ForAll([i], z3.Implies(z3.And(i >= n0, i < atts.n), z3.And(z3.Select(atts.nxA, i) == 0, z3.Select(atts.tmA, i) == 0))))
        c.oblige('Jumper._set_jump_array/padding-loop-invariant/%s' % when, inv, 'invariant')

    def loop_havoc(n, loc):
        c = ctx()
        atts, hc = loc['atts'], loc['height_count']
        if not hasattr(c, 'hj_ghost'):
            c.hj_ghost = {}
        c.hj_ghost[id(atts)] = atts.snapshot()
        nx0, tm0, n0 = atts.snapshot()
        k = c.fresh('padlen')
        i = z3.Int('li')
        # arbitrary iteration state satisfying the invariant, written without quantifiers: the arrays are the entry
        # arrays below n0 and empty cells above (lambda arrays), the length is any k with n0 <= k <= max(n0, height_count)
        nx1 = z3.Lambda([i], z3.If(i < n0, z3.Select(nx0, i), 0))
        tm1 = z3.Lambda([i], z3.If(i < n0, z3.Select(tm0, i), 0))
        c.assume(z3.And(k >= n0, z3.Or(k <= zint(hc), k == n0)))
        atts.nxA, atts.tmA, atts.n = nx1, tm1, k
        return ()

    jd = {}
    for n in J_METHODS:
        raw = hj.Jumper.__dict__[n]
        extra = {}
        if n == '_set_jump_array':
            def li(n_, when, loc):
                # entry check happens before the havoc: remember the entry snapshot first
                c = ctx()
                if not hasattr(c, 'hj_ghost'):
                    c.hj_ghost = {}
                if when == 'entry':
                    c.hj_ghost[id(loc['atts'])] = loc['atts'].snapshot()
                loop_inv(n_, when, loc)
            inst = instrument(raw, shadows={'__loop_inv': li, '__loop_havoc': loop_havoc}, loop_cuts={1: dict(havoc=[])})
        else:
            inst = instrument(raw)
        recs.append(inst)
        jd[n] = property(inst.fn) if isinstance(raw, property) else inst.fn
    JSub = type('Jumper', (hj.Jumper,), jd)
    cd = {}
    for n in C_METHODS:
        raw = hj.HighJumpCompetition.__dict__[n]
        inst = instrument(raw, shadows={'Jumper': JSub})
        recs.append(inst)
        cd[n] = property(inst.fn) if isinstance(raw, property) else inst.fn
    CSub = type('HighJumpCompetition', (hj.HighJumpCompetition,), cd)
    return JSub, CSub, recs


JFIELDS = ['_place', 'highest_cleared', 'highest_cleared_index', 'eliminated', 'dismissed', 'round_lim', 'consecutive_failures']


J_REPR = {'_place', 'attempts_by_height', 'bib', 'category', 'consecutive_failures', 'dismissed', 'eliminated', 'first_name', 'gender',
          'highest_cleared', 'highest_cleared_index', 'last_name', 'order', 'round_lim', 'team'}
C_REPR = {'actions', 'bar_height', 'heights', 'in_jump_off', 'jumpers', 'jumpers_by_bib', 'ranked_jumpers', 'state', 'verbose'}
_repr_ok = {}


def check_representation(JSub, CSub):
    """the class invariant and the abstraction function are stated over these instance fields; on a tree whose classes keep
    their state differently (a field removed, renamed or turned into a derived property) the data-structure contract does
    not apply as written: the symbolic units are then OUTSIDE the encoding (undecided), and only the stand-in through the
    public API decides.  Fields ADDED by a change are found by the run itself (the symbolic objects do not have them)."""
    k = (JSub.__mro__[1], CSub.__mro__[1])
    if k not in _repr_ok:
        why = None
        try:
            jr = set(vars(k[0](bib='A')))
            cr = set(vars(k[1]()))
            if J_REPR - jr:
                why = 'Jumper no longer stores %s' % sorted(J_REPR - jr)
            elif C_REPR - cr:
                why = 'HighJumpCompetition no longer stores %s' % sorted(C_REPR - cr)
        except Exception as e:
            why = 'cannot instantiate the real classes: %s' % type(e).__name__
        _repr_ok[k] = why
    if _repr_ok[k]:
        raise OutOfSubset('representation differs from the one the data-structure contract is stated over: %s' % _repr_ok[k])


def mk_state(JSub, CSub, N, state, perm):
    """symbolic pre-state: N athletes, competition in `state`, ranked_jumpers in the order `perm`"""
    check_representation(JSub, CSub)
    c = ctx()
    js = []
    for k in range(N):
        nm = 'j%s' % BIBS[k]
        j = JSub.__new__(JSub)
        j.order = k + 1
        j.bib = BIBS[k]
        j.first_name, j.last_name, j.team, j.gender, j.category = 'unknown', 'athlete', 'GUEST', 'M', 'OPEN'
        j._place = SInt(c.declare_input(nm + '_place', z3.Int(nm + '_place')))
        card = H.SCard(nm + '_card')
        c.declare_input(nm + '_card_len', card.n)
        j.attempts_by_height = card
        j.highest_cleared = SReal(c.declare_input(nm + '_best', z3.Real(nm + '_best')))
        j.highest_cleared_index = SInt(c.declare_input(nm + '_bestidx', z3.Int(nm + '_bestidx')))
        j.eliminated = SBool(c.declare_input(nm + '_out', z3.Bool(nm + '_out')))
        j.dismissed = SBool(c.declare_input(nm + '_done', z3.Bool(nm + '_done')))
        j.round_lim = SInt(c.declare_input(nm + '_lim', z3.Int(nm + '_lim')))
        j.consecutive_failures = SInt(c.declare_input(nm + '_cf', z3.Int(nm + '_cf')))
        c.declare_input(nm + '_last_nx', z3.Select(card.nxA, card.n - 1))
        c.declare_input(nm + '_last_tm', z3.Select(card.tmA, card.n - 1))
        js.append(j)
    comp = CSub.__new__(CSub)
    comp.jumpers = list(js)
    comp.jumpers_by_bib = {j.bib: j for j in js}
    comp.ranked_jumpers = [js[i] for i in perm]
    comp.heights = H.SHeights()
    c.declare_input('H', comp.heights.n)
    c.declare_input('bar', comp.heights.lastv)
    comp.bar_height = SReal(z3.Real('bar_height'))
    c.declare_input('bar_height', comp.bar_height.t)
    comp.in_jump_off = False
    comp.actions = H.SLog()
    comp.verbose = 0
    comp.state = state
    return comp, js


def jview(j):
    card = j.attempts_by_height
    return SP.JV(nxA=card.nxA, tmA=card.tmA, n=card.n, best=zreal(j.highest_cleared), best_idx=zint(j.highest_cleared_index),
                 out=zbool(j.eliminated), done=zbool(j.dismissed), lim=zint(j.round_lim), cf=zint(j.consecutive_failures),
                 place=zint(j._place))


def inv_comp(comp, js, state):
    """invariant of the competition (with the local invariants of the athletes)"""
    Hn = comp.heights.n
    bar = comp.heights.lastv
    cs = [Hn >= 0, (Hn == 0) if state == 'scheduled' else (Hn >= 1)]
    cs.append(z3.Implies(Hn >= 1, zreal(comp.bar_height) == bar))
    if state == 'scheduled':
        cs.append(zreal(comp.bar_height) == 0)
    vs = [jview(j) for j in js]
    for v in vs:
        cs.append(SP.inv_jumper(v, Hn))
        cs.append(v.place >= 1)
        cs.append(v.best >= 0)
        cs.append(z3.Implies(v.best_idx < 0, v.best == 0))
        if state in ('started', 'won'):
            # outside a jump-off the bar only rises: nobody's best exceeds it, and whoever holds it is done with it
            cs.append(z3.And(v.best <= bar, z3.Implies(v.best == bar, v.done)))
            cs.append(v.lim == 3)
        if state == 'scheduled':
            cs.append(z3.And(v.n == 0, z3.Not(v.out), z3.Not(v.done), v.lim == 3, v.cf == 0, v.best_idx == -1))
        if state in ('drawn',):
            cs.append(v.out)
    if state == 'finished':
        cs.append(z3.Sum([z3.If(v.out, 0, 1) for v in vs]) <= 1 if len(vs) > 1 else z3.BoolVal(True))
    if state == 'won':
        cs.append((z3.Sum([z3.If(v.out, 0, 1) for v in vs]) if len(vs) > 1 else z3.If(vs[0].out, 0, 1)) == 1)
    return z3.And(*cs)


def snapshot(comp, js):
    snap = dict(state=comp.state, heights=comp.heights.snapshot(), bar_height=zreal(comp.bar_height), nact=len(comp.actions.appended),
                ranked=[id(x) for x in comp.ranked_jumpers], njumpers=len(comp.jumpers), by_bib=dict(comp.jumpers_by_bib), js=[])
    for j in js:
        snap['js'].append(dict(card=j.attempts_by_height.snapshot(), fields={f: getattr(j, f) for f in JFIELDS}))
    return snap


def frame_unchanged(comp, js, snap, ignore_rank_order=False):
    """z3 condition: every observable field of every object equals the snapshot; python-level parts as a bool"""
    py_ok = (comp.state == snap['state'] and len(comp.actions.appended) == snap['nact'] and len(comp.jumpers) == snap['njumpers']
             and comp.jumpers_by_bib == snap['by_bib'] and len(comp.heights.appended) == snap['heights'][2]
             and (ignore_rank_order or [id(x) for x in comp.ranked_jumpers] == snap['ranked']))
    cs = [comp.heights.n == snap['heights'][0], comp.heights.lastv == snap['heights'][1], zreal(comp.bar_height) == snap['bar_height']]
    for j, s in zip(js, snap['js']):
        cs.append(j.attempts_by_height.same_as(s['card']))
        for f in JFIELDS:
            a, b = getattr(j, f), s['fields'][f]
            if isinstance(b, SBool):
                cs.append(zbool(a) == b.t)
            elif isinstance(b, SReal):
                cs.append(zreal(a) == b.t)
            else:
                cs.append(zint(a) == zint(b))
    return py_ok, z3.And(*cs)


def perms(N):
    return list(itertools.permutations(range(N)))
