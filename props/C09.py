"""C09 - performance-needed is the exact inverse of the combined-events score.

Under contract: athlon_score.performance (score through C01's contract: points = exact formula on the centi-mark; the
real score() is also evaluated on the returned mark and on the next-worse grid mark of every obligation).
The inverse power (s/A)**(1/X) has no SMT theory; the postcondition
    S(k) >= max(s,0)   and   S(k -/+ 1) < s   (s >= 1),   k = centi-mark of performance(g, e, s)
is a ground obligation per (row, target), complete for the stated domain (every row x every integer target
-10..1500), checked in exact integer arithmetic (P^q <= A^q t^p).  Structural clauses (no exception, unknown
pair -> None, negative targets behave as 0, result on the 0.01 grid) are explored symbolically on the real code."""
from fractions import Fraction

import z3

from pyvc import report, unit as U
from pyvc.core import ctx
from pyvc.values import SInt, sym_int, zbool
from pyvc.builtins_sym import SYM_MATH
from pyvc.instrument import instrument
from pyvc import floats as F
from pyvc.util import real_module
from specs import athlon as SP
from props.C01 import kind_of, unknown_pairs

PROP = 'C09'
TARGETS = range(-10, 1501)


def _a():
    return real_module('athlib.athlon_score')


def official_row(o):
    from specs.athlon_table import OFFICIAL
    w = OFFICIAL.get((o['gender'], o['event_code']))
    if w:
        return SP.Row(float(w[0]), float(w[1]), float(w[2]), kind_of(o['event_code']))
    return SP.Row(o['A'], o['Z'], o['X'], kind_of(o['event_code']))


def centi(x):
    """(k, on_grid): the centi-mark of a returned performance"""
    k = round(x * 100)
    return k, abs(x * 100 - k) < 1e-6


def check_target(o, s):
    """returns (ok, detail) for one ground obligation"""
    a = _a()
    g, ev = o['gender'], o['event_code']
    R = official_row(o)
    try:
        perf = a.performance(g, ev, s)
    except Exception as e:
        return False, dict(observed='raises %s' % type(e).__name__)
    if perf is None or isinstance(perf, bool) or not isinstance(perf, (int, float)):
        return False, dict(observed=repr(perf))
    k, on = centi(perf)
    if not on:
        return False, dict(observed=perf, why='not on the 0.01 grid')
    need = max(s, 0)
    sk = R.points_exact(k)
    worse = k - 1 if R.kind != 'track' else k + 1
    sw = R.points_exact(worse)
    # the real scorer on the reported mark, too (the statement is about scoring it)
    try:
        got = a.score(g, ev, perf)
    except Exception as e:
        return False, dict(observed=perf, why='score(%r) of the returned mark raises %s' % (perf, type(e).__name__), target=s)
    if isinstance(got, bool) or not isinstance(got, int):
        return False, dict(observed=perf, why='score(%r) of the returned mark is %r, not a number of points' % (perf, got), target=s)
    # ... and on the next-worse mark of the 0.01 grid: the statement is about what the scorer returns for it
    gw = None
    if s >= 1 and worse >= 0:
        try:
            gw = a.score(g, ev, worse / 100)
        except Exception as e:
            return False, dict(observed=perf, why='score(%r) of the next-worse mark raises %s' % (worse / 100, type(e).__name__), target=s)
        if isinstance(gw, bool) or not isinstance(gw, int):
            return False, dict(observed=perf, why='score(%r) of the next-worse mark is %r, not a number of points' % (worse / 100, gw), target=s)
    ok = sk >= need and got >= need and (s < 1 or (sw < s and (gw is None or gw < s)))
    return ok, dict(observed=perf, centi=k, scores=sk, real_score=got, next_worse=worse / 100, next_worse_scores=sw, next_worse_real_score=gw, target=s)


def chunk(args):
    i, = args
    o = _a()._scoring_table[i]
    bad = []
    n = 0
    for s in TARGETS:
        n += 1
        ok, d = check_target(o, s)
        if not ok:
            bad.append((s, d))
    # negative targets behave as zero
    a = _a()
    def _p(s):
        try:
            return a.performance(o['gender'], o['event_code'], s)
        except Exception as e:
            return 'raises %s' % type(e).__name__
    neg = [s for s in range(-10, 0) if _p(s) != _p(0)]
    return i, n, bad, neg


def unit_struct(args):
    """symbolic: performance() never raises for a scored pair and any integer target; unknown pair -> None"""
    i, = args
    a = _a()
    o = a._scoring_table[i]
    f = instrument(a.performance, shadows={'math': SYM_MATH})
    c1 = instrument(a._scoring_objects_create, share_globals=f)
    c2 = instrument(a.scoring_key, share_globals=f)

    def run():
        s = F.sym_int_var('score', -10 ** 6, 10 ** 6)
        return f(o['gender'], o['event_code'], SInt(s))

    def post(p, c):
        if p.outcome == 'exc':
            c.oblige('performance/no-exception', False, 'raises', meta=dict(exc=type(p.value).__name__, msg=str(p.value)[:60]))
            return
        c.oblige('performance/returns-a-number', isinstance(p.value, (F.SOpaque, F.SFloat, int, float)) and p.value is not None, 'post')

    res = U.verify('performance[%s,%s]' % (o['gender'], o['event_code']), run, post, want_sample=(i == 1))
    res['fns'] = [x.describe() for x in (f, c1, c2)]
    return res


def _work(job):
    if job[0] == 'g':
        return ('g',) + chunk(job[1])
    r = unit_struct(job[1])
    r['job'] = job
    return r


def replay(rep):
    g, ev, s = rep['input']
    o = [x for x in _a()._scoring_table if x['gender'] == g and x['event_code'] == ev]
    if not o:
        try:
            got = _a().performance(g, ev, s)
        except Exception as e:
            got = 'raises %s' % type(e).__name__
        print('performance(%r,%r,%r) -> %r (required None)' % (g, ev, s, got))
        return 1 if got is not None else 0
    ok, d = check_target(o[0], s)
    print('replay %s: athlon_performance_needed(%r,%r,%r): %r' % (rep['obligation'], g, ev, s, d))
    print('not reproduced on this tree' if ok else 'VIOLATION reproduced')
    return 0 if ok else 1


def main(tier, seed):
    run = report.Run(PROP, tier, seed)
    run.expected_min_obligations = 48 * 1500
    run.level_claim = 'other'
    a = _a()
    n = len(a._scoring_table)
    run.explanation = ('ground-complete: one obligation per (row, target) over all %d rows x targets -10..1500, real performance() and score() '
                       'evaluated, inequalities checked in exact integer arithmetic; structural clauses explored symbolically. Reported as '
                       'ground-evaluated (level other), not SMT-proved.' % n)
    from pyvc.frames import frame_obligations
    frame_obligations(run, [a.performance, a.score])
    run.assume('exact integer characterisation of the formula (specs/athlon.py) with the pinned official coefficients',
               'targets <= 0: the "strictly less" half is vacuous (no score is below 0)', 'pyvc proxies (structural exploration)')
    results = report.pool_map(_work, [('g', (i,)) for i in range(n)] + [('s', (i,)) for i in range(n)])
    tot = 0
    nbad = 0
    for res in results:
        if isinstance(res, dict) and '_crash' in res:
            U.absorb(run, res)
            continue
        if isinstance(res, tuple):
            _, i, cnt, bad, neg = res
            o = a._scoring_table[i]
            tot += cnt
            badset = dict(bad)
            for s in TARGETS:
                name = 'performance-is-least-mark-reaching-target/%s-%s/%d' % (o['gender'], o['event_code'], s)
                if s in badset:
                    run.record(name, 'ground', 'refuted', 'ground-evaluation', 0.0, 'targets')
                    e = run.match_known(name, dict(gender=o['gender'], event=o['event_code'], target=s, **{k: v for k, v in badset[s].items() if k != 'target'}))
                    if e:
                        run.known_finding(e)
                    else:
                        nbad += 1
                        if nbad <= 40:
                            run.violation(name, dict(call='athlon_performance_needed(%r,%r,%r)' % (o['gender'], o['event_code'], s),
                                                     observed=badset[s], required='scores >= target, next worse mark scores < target',
                                                     input=[o['gender'], o['event_code'], s]), True)
                else:
                    run.record(name, 'ground', 'proved', 'ground-evaluation', 0.0, 'targets')
            name = 'performance/negative-targets-behave-as-zero/%s-%s' % (o['gender'], o['event_code'])
            run.record(name, 'ground', 'refuted' if neg else 'proved', 'ground-evaluation', 0.0, 'targets')
            if neg:
                run.violation(name, dict(call='athlon_performance_needed(%r,%r,%r)' % (o['gender'], o['event_code'], neg[0]),
                                         observed='differs from target 0', input=[o['gender'], o['event_code'], neg[0]]), True)
            continue
        for d in res['fns']:
            run.add_function(d)
        U.absorb(run, res)
    for g, ev in unknown_pairs():
        for tgt in (500, 1, 0, -1, -10, 1500):           # "no mark at all" whatever the target, negative and zero included
            try:
                got = a.performance(g, ev, tgt)
            except Exception as e:
                got = 'raises %s' % type(e).__name__
            name = 'performance/unknown-pair-gives-None/%s-%s/%d' % (g, ev, tgt)
            run.record(name, 'ground', 'proved' if got is None else 'refuted', 'ground-evaluation', 0.0, 'unknown')
            if got is not None:
                run.violation(name, dict(call='athlon_performance_needed(%r,%r,%r)' % (g, ev, tgt), observed=got, required=None, input=[g, ev, tgt]), True)
    run.extra['exhaustive'] = True
    run.extra['targets_evaluated'] = tot
    return run.finish()
