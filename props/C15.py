"""C15 - WMA interpolation between distances is order-preserving.

Under contract: AgeGrader.find_row_by_distance, the distance-interpolation branch of calculate_factor, the speed
interpolation of world_best (utils.get_distance by contract: the symbolic whole-metre distance of the queried code;
the real function on the tabulated codes).

For a symbolic whole-metre distance d in [20 m, 400 km] (one exploration per table x gender x age sample): the real
code never raises; whenever two rows adjacent in the table's running section bracket d in the table's own distance
column, the factor lies between their factors and the open best between their bests (z3, linear / nonlinear real
arithmetic over d), the best is increasing in d inside the bracket (relational instance of the path's own term), and
beyond either end the end row is used.  Reading: "nearest shorter and longer tabulated events" are the rows adjacent in
the table that bracket the distance in the table's distance column (the running section lists track then road rows)."""
from fractions import Fraction

import z3

from pyvc import report, unit as U
from pyvc.core import ctx
from pyvc.values import SInt, zbool, zint
from pyvc.instrument import instrument
from pyvc import floats as F
from pyvc import sstr as S
from pyvc.util import real_module
from props.C14 import ag_sub

PROP = 'C15'
TOKEN = '123456789'            # the queried (non-tabulated) code; get_distance(TOKEN) is the symbolic distance
DMIN, DMAX = 20, 400000
AGES = [10, 30, 47.5, 80, 100]
TOL = Fraction(1, 10 ** 9)


def _ag():
    return real_module('athlib.wma.agegrader')


def running_rows(table):
    i0 = [i for i, r in enumerate(table) if r[0] == '50'][0]
    return i0, table[i0:]


def scan_brackets(rr):
    """(i, lower bound, upper bound): row i is the first in table order whose distance column is >= d exactly when
    lower < d_km <= upper; the previous row is then the shorter neighbour"""
    out = []
    M = None
    for i, r in enumerate(rr):
        if i > 0 and (M is None or rr[i - 1][1] > M):
            M = rr[i - 1][1]
        if i > 0 and M < r[1]:
            out.append((i, M, r[1]))
    return out


def build(year):
    ag = _ag()
    u = real_module('athlib.utils')
    holder = {}

    def gd(x):
        if x == TOKEN:
            return holder['d']
        return u.get_distance(x)
    d, recs = {}, []
    for n in ['calculate_factor', 'find_row_by_event', 'find_row_by_distance', 'find_age', 'normalize_gender', 'event_code_to_kind',
              'world_best', 'calculate_age_grade']:
        raw = ag.AgeGrader.__dict__[n]
        inst = instrument(raw, shadows={'get_distance': gd})
        recs.append(inst)
        d[n] = staticmethod(inst.fn) if isinstance(raw, staticmethod) else inst.fn
    Sub = type('AgeGrader', (ag.AgeGrader,), d)
    return Sub(year), recs, holder


def unit_factor(args):
    year, g, age = args
    obj, recs, holder = build(year)
    table = obj.get_data()[g]
    i0, rr = running_rows(table)
    real = _ag().AgeGrader(year)
    facs = [real.calculate_factor(g, age, r[0]) for r in rr]

    def run():
        c = ctx()
        dv = F.sym_int_var('d', DMIN, DMAX)
        holder['d'] = SInt(dv)
        c.extra = dv
        c.called = True
        return obj.calculate_factor(g, age, TOKEN)

    def post(p, c):
        dv = c.extra
        if p.outcome == 'exc':
            c.oblige('calculate_factor/any-distance-is-answered', False, 'raises', meta=dict(exc=type(p.value).__name__, msg=str(p.value)[:60]))
            return
        r = p.value
        if isinstance(r, (int, float)) and not isinstance(r, bool):
            r = F.SFloat.const(r)
        if not isinstance(r, F.SFloat):
            c.oblige('calculate_factor/returns-a-number', False, 'post', meta=dict(result=repr(p.value)[:60]))
            return
        dk = z3.ToReal(dv) / 1000
        tol = z3.RealVal(str(TOL + r.err))
        # ends of the table
        c.oblige('calculate_factor/below-the-shortest-row-uses-it', z3.Implies(dk < z3.RealVal(repr(rr[0][1])), z3.And(r.t >= facs[0] - tol, r.t <= facs[0] + tol)), 'post')
        kmax = max(x[1] for x in rr)
        last = [i for i, x in enumerate(rr) if x[1] == kmax][-1]
        c.oblige('calculate_factor/beyond-the-longest-row-uses-it', z3.Implies(dk > z3.RealVal(repr(kmax)), z3.And(r.t >= facs[last] - tol, r.t <= facs[last] + tol)), 'post')
        # adjacent bracketing rows
        s = z3.Solver()
        s.set('timeout', 2000)
        s.add(*c.pc)
        for i, a, b in scan_brackets(rr):
            hyp = z3.And(dk > z3.RealVal(repr(a)), dk < z3.RealVal(repr(b)))
            if s.check(hyp) == z3.unsat:
                continue
            lo, hi = min(facs[i - 1], facs[i]), max(facs[i - 1], facs[i])
            c.oblige('calculate_factor/between-the-bracketing-rows', z3.Implies(hyp, z3.And(r.t >= z3.RealVal(repr(lo)) - tol, r.t <= z3.RealVal(repr(hi)) + tol)),
                     'post', meta=dict(rows=[rr[i - 1][0], rr[i][0]]))

    res = U.verify('calculate_factor[%s,%s,age=%s,any distance]' % (year, g, age), run, post, timeout_ms=20000,
                   want_sample=(year == '2023' and g == 'm' and age == 47.5))
    for x in res['results']:
        x['ctx'] = dict(year=year, g=g, age=age, fn='factor')
    res['fns'] = [x.describe() for x in recs]
    return res


def unit_best(args):
    year, g = args
    obj, recs, holder = build(year)
    table = obj.get_data()[g]
    i0, rr = running_rows(table)

    def run():
        c = ctx()
        dv = F.sym_int_var('d', DMIN, DMAX)
        holder['d'] = SInt(dv)
        c.extra = dv
        c.called = True
        return obj.world_best(g, TOKEN)

    def post(p, c):
        dv = c.extra
        if p.outcome == 'exc':
            c.oblige('world_best/any-distance-is-answered', False, 'raises', meta=dict(exc=type(p.value).__name__, msg=str(p.value)[:60]))
            return
        r = p.value
        if isinstance(r, (int, float)) and not isinstance(r, bool):
            r = F.SFloat.const(r)
        if not isinstance(r, F.SFloat):
            c.oblige('world_best/returns-a-number', False, 'post', meta=dict(result=repr(p.value)[:60]))
            return
        dk = z3.ToReal(dv) / 1000
        tol = z3.RealVal(str(TOL + r.err))
        c.notes.append(('best', r.t, r.err))       # for the cross-path obligations (built outside the path's context)
        c.oblige('world_best/positive', r.t > 0, 'post')
        s = z3.Solver()
        s.set('timeout', 2000)
        s.add(*c.pc)
        d2 = z3.Int('d2')
        c.declare_input('d2', d2)
        r2 = z3.substitute(r.t, (dv, d2))
        pc2 = [z3.substitute(x, (dv, d2)) for x in c.pc]
        for i, a, b in scan_brackets(rr):
            hyp = z3.And(dk > z3.RealVal(repr(a)), dk < z3.RealVal(repr(b)))
            if s.check(hyp) == z3.unsat:
                continue
            lo, hi = min(rr[i - 1][2], rr[i][2]), max(rr[i - 1][2], rr[i][2])
            c.oblige('world_best/between-the-bracketing-rows', z3.Implies(hyp, z3.And(r.t >= z3.RealVal(repr(lo)) - tol, r.t <= z3.RealVal(repr(hi)) + tol)),
                     'post', meta=dict(rows=[rr[i - 1][0], rr[i][0]]))
            hyp2 = z3.And(hyp, z3.ToReal(d2) / 1000 > z3.RealVal(repr(a)), z3.ToReal(d2) / 1000 < z3.RealVal(repr(b)), d2 > dv, *pc2)
            c.oblige('world_best/increases-with-distance-inside-the-bracket', z3.Implies(hyp2, r2 >= r.t - tol), 'relational',
                     meta=dict(rows=[rr[i - 1][0], rr[i][0]]))

    def cross(paths):
        """the best increases with the distance ACROSS the paths of world_best too: for two different paths i, j and distances
        d < d2 inside one bracket with d on path i and d2 on path j, best_j(d2) >= best_i(d)  (a branch of the code that
        answers some distances differently must still fit between its neighbours)"""
        from pyvc.core import Obligation, rename_apart
        dv = z3.Int('d')
        d2 = z3.Int('d2')
        info = []
        class _R(object):
            pass
        for p in paths:
            nb = [n for n in p.notes if isinstance(n, tuple) and n and n[0] == 'best']
            if not nb:
                continue
            r = _R()
            r.t, r.err = nb[-1][1], nb[-1][2]
            s = z3.Solver()
            s.set('timeout', 2000)
            s.add(*p.pc)
            live = [k for k, (i, a, b) in enumerate(scan_brackets(rr))
                    if s.check(z3.And(z3.ToReal(dv) / 1000 > z3.RealVal(repr(a)), z3.ToReal(dv) / 1000 < z3.RealVal(repr(b)))) != z3.unsat]
            info.append((p, r, set(live)))
        br = list(scan_brackets(rr))
        out = []
        for x, (pi, ri, li) in enumerate(info):
            for y, (pj, rj, lj) in enumerate(info):
                if x == y:
                    continue
                for k in sorted(li & lj):
                    i, a, b = br[k]
                    renamed = rename_apart(list(pj.pc) + [rj.t], keep=(), suffix='~2')
                    sub = (z3.Int('d~2'), d2)
                    pc2 = [z3.substitute(e, sub) for e in renamed[:-1]]
                    r2 = z3.substitute(renamed[-1], sub)
                    A, B = z3.RealVal(repr(a)), z3.RealVal(repr(b))
                    hyp = [z3.ToReal(dv) / 1000 > A, z3.ToReal(dv) / 1000 < B, z3.ToReal(d2) / 1000 > A, z3.ToReal(d2) / 1000 < B, d2 > dv]
                    tol = z3.RealVal(str(TOL + ri.err + rj.err))
                    ob = Obligation('world_best/increases-with-distance-across-code-paths', 'relational', list(pi.pc) + pc2 + hyp, r2 >= ri.t - tol,
                                    meta=dict(rows=[rr[i - 1][0], rr[i][0]]))
                    out.append((ob, {'d': dv, 'd2': d2}))
        return out

    res = U.verify('world_best[%s,%s,any distance]' % (year, g), run, post, timeout_ms=30000, want_sample=False, cross=cross)
    for x in res['results']:
        x['ctx'] = dict(year=year, g=g, age=None, fn='best')
    res['fns'] = [x.describe() for x in recs]
    return res


SPELL_SHAPES = [(i, f, suf) for suf in ('K', 'M') for i in (1, 2, 3) for f in (0, 1, 2)]


def spell_exact(text):
    """exact metres (a Fraction) of a road spelling N[.dd]K / N[.dd]M: kilometres x 1000, miles x 1609 (the library's mile)"""
    from fractions import Fraction
    return Fraction(text[:-1]) * (1000 if text[-1] == 'K' else 1609)


def unit_spell(args):
    """get_distance on the road spellings with symbolic digits: the whole metres of the spelled distance, at most one metre short
    (int() of a binary product may truncate just below an integer): x - 2 < r <= x.  With this contract the clauses proved for
    every whole-metre distance carry over to every spelling (calculate_factor / world_best read the code through get_distance)."""
    ni, nf, suf = args
    from pyvc.shapepat import ShapePat
    from specs import decimal_text as DT
    u = real_module('athlib.utils')
    cm = real_module('athlib.codes')
    gd = instrument(u.get_distance, shadows={'PAT_RELAYS': ShapePat(cm.PAT_RELAYS), 'PAT_LEADING_FLOAT': ShapePat(cm.PAT_LEADING_FLOAT),
                                             'PAT_LEADING_DIGITS': ShapePat(cm.PAT_LEADING_DIGITS)})
    classes = [S.DIGITS] * ni + ((['.'] + [S.DIGITS] * nf) if nf else []) + [suf]

    def run():
        s = S.SStr.fresh('s', classes)
        c = ctx()
        c.extra = s
        c.nonrobust_int = 'choose'
        c.called = True
        return gd.fn(s)

    def post(p, c):
        if p.outcome == 'exc':
            c.oblige('get_distance/road-spelling-is-measured', False, 'raises', meta=dict(exc=type(p.value).__name__))
            return
        r = p.value
        if isinstance(r, bool) or not isinstance(r, (int, SInt)):
            c.oblige('get_distance/road-spelling-is-measured', False, 'post', meta=dict(result=repr(r)[:60]))
            return
        cells = list(S.cells_of(c.extra))
        v = DT.digits_value(cells[:ni]) * (10 ** nf) + (DT.digits_value(cells[ni + 1:ni + 1 + nf]) if nf else 0)        # value * 10^nf
        scale = 1000 if suf == 'K' else 1609
        rt = r.t if isinstance(r, SInt) else z3.IntVal(r)
        den = 10 ** nf
        c.oblige('get_distance/road-spelling-is-its-whole-metres', z3.And(rt * den <= scale * v, rt * den > scale * v - 2 * den), 'post')

    res = U.verify('get_distance[%s]' % ''.join(x if isinstance(x, str) else 'd' for x in classes), run, post, timeout_ms=20000)
    for x in res['results']:
        x['ctx'] = dict(fn='spell', classes=[y if isinstance(y, str) else 'd' for y in classes], year=None, g=None, age=None)
    res['fns'] = [gd.describe()]
    return res


def conc_spell(r):
    cx = r['ctx']
    m = r.get('model') or {}
    for mm in [m] + list(r.get('alt_models') or []):
        t = ''.join(c if c != 'd' else chr(int(mm.get('s_%d' % i, 53))) for i, c in enumerate(cx['classes']))
        x = spell_exact(t)
        try:
            got = real_module('athlib.utils').get_distance(t)
            bad = not (isinstance(got, int) and not isinstance(got, bool) and x - 2 < got <= x)
            obs = got
        except Exception as e:
            bad, obs = True, 'raises %s' % type(e).__name__
        if bad:
            break
    return dict(call='get_distance(%r)' % t, observed=obs, required='whole metres of %s m (at most one short)' % x, input=[None, None, None, t, 'spell']), bad


def spec_check(year, g, age, d, fn, grader=None):
    """concrete clause check on the real code for a whole-metre distance (bare-number code)"""
    real = grader or _ag().AgeGrader(year)
    table = real.get_data()[g]
    i0, rr = running_rows(table)
    code = str(d)
    if any(r[0] == code for r in table):
        return True, 'tabulated'
    try:
        got = real.calculate_factor(g, age, code) if fn == 'factor' else real.world_best(g, code)
    except Exception as e:
        return False, 'raises %s' % type(e).__name__
    dk = d / 1000
    fresh = _ag().AgeGrader(year) if grader is None else real
    vals = [fresh.calculate_factor(g, age, r[0]) for r in rr] if fn == 'factor' else [r[2] for r in rr]
    for i, a, b in scan_brackets(rr):
        if a < dk < b:
            lo, hi = min(vals[i - 1], vals[i]), max(vals[i - 1], vals[i])
            if not (lo - 1e-9 <= got <= hi + 1e-9):
                return False, '%r not between %s=%r and %s=%r' % (got, rr[i - 1][0], vals[i - 1], rr[i][0], vals[i])
    if fn == 'best' and not got > 0:
        return False, 'best %r' % got
    return True, got


def conc(r):
    cx = r['ctx']
    if cx.get('fn') == 'spell':
        return conc_spell(r)
    m = r.get('model') or {}
    d = int(m.get('d', DMIN))
    cands = [d] + ([int(m['d2'])] if 'd2' in m else [])
    for dd in cands:
        ok, why = spec_check(cx['year'], cx['g'], cx['age'] if cx['age'] is not None else 40, dd, cx['fn'])
        if not ok:
            return dict(call='AgeGrader(%r).%s(%r, %s%r)' % (cx['year'], 'calculate_factor' if cx['fn'] == 'factor' else 'world_best', cx['g'],
                                                            ('%r, ' % cx['age']) if cx['fn'] == 'factor' else '', str(dd)),
                        observed=why, input=[cx['year'], cx['g'], cx['age'], dd, cx['fn']]), True
    if cx['fn'] == 'best' and 'd2' in m:
        real = _ag().AgeGrader(cx['year'])
        try:
            b1, b2 = real.world_best(cx['g'], str(d)), real.world_best(cx['g'], str(int(m['d2'])))
            if b2 < b1 - 1e-9:
                return dict(call='world_best(%r, %r) then %r' % (cx['g'], str(d), str(int(m['d2']))), observed=[b1, b2],
                            input=[cx['year'], cx['g'], None, d, 'best2', int(m['d2'])]), True
        except Exception:
            pass
    return dict(call='%s %r d=%d' % (cx['fn'], cx, d), observed='clause holds on the real code', input=[cx['year'], cx['g'], cx['age'], d, cx['fn']]), False


def ground_chunk(args):
    """second line on the real code: whole-metre distances (strided) and road spellings N[.dd]K / N[.dd]M"""
    year, g, seed = args
    import random
    rnd = random.Random(seed)
    real = _ag().AgeGrader(year)
    n = 0
    bad = []
    ds = list(range(20, 400, 7)) + list(range(400, 12000, 97)) + list(range(12000, 400000, 4999)) + [rnd.randrange(20, 400000) for _ in range(150)]
    table = real.get_data()[g]
    i0, rr = running_rows(table)
    for r in rr:                                        # the seams next to every tabulated distance
        k = int(round(r[1] * 1000))
        ds += [k - 2, k - 1, k, k + 1, k + 2, k + 3]
    for d in ds:
        if d < 20:
            continue
        for age in (40, 72.5):
            for fn in ('factor', 'best'):
                n += 1
                ok, why = spec_check(year, g, age, d, fn)
                if not ok:
                    bad.append((d, age, fn, why))
    # a tabulated event asked by its own code answers with ITS row (the bracketing rows the clauses speak of are the rows of the
    # data file): best and, at a tabulated age, factor, read from the file directly
    ages_t = real.get_data()['ages']
    for r in rr:
        n += 1
        try:
            b = real.world_best(g, r[0])
            if b != r[2]:
                bad.append((r[0], None, 'row', 'world_best(%r) = %r, the row of the data file says %r' % (r[0], b, r[2])))
            for ci in range(3, len(r)):
                if r[ci] is not None and ages_t[ci - 3] in (35, 50, 70):
                    f = real.calculate_factor(g, ages_t[ci - 3], r[0])
                    if abs(f - r[ci]) > 1e-12:
                        bad.append((r[0], ages_t[ci - 3], 'row', 'calculate_factor(%r, %r) = %r, the row of the data file says %r' % (r[0], ages_t[ci - 3], f, r[ci])))
        except Exception as e:
            bad.append((r[0], None, 'row', 'raises %s' % type(e).__name__))
    for q in [rnd.randrange(2, 39900) / 100 for _ in range(60)] + [0.05, 0.5, 1, 5.3, 11, 42.2, 210, 399.99]:
        for suf, scale in (('K', 1000), ('M', 1609)):
            if q * scale < 20 or q * scale > 400000 or q >= 1000:
                continue
            code = ('%.2f' % q).rstrip('0').rstrip('.') + suf
            if any(r[0] == code for r in table):
                continue
            n += 1
            try:
                f = real.calculate_factor(g, 50, code)
                b = real.world_best(g, code)
                x = int(spell_exact(code))
                same = [(real.calculate_factor(g, 50, str(dd)), real.world_best(g, str(dd))) for dd in (x, x - 1)]
                if not (f > 0 and b > 0):
                    bad.append((code, 50, 'spelling', (f, b)))
                elif (f, b) not in same:
                    bad.append((code, 50, 'spelling', 'factor/best %r differ from those of the same distance in metres %r' % ((f, b), same[0])))
            except Exception as e:
                bad.append((code, 50, 'spelling', 'raises %s' % type(e).__name__))
    return n, bad[:5]


def cross_chunk(args):
    """histories across the shared grader objects: the same odd distances asked of both table years, both genders and in
    alternation with tabulated events, in ONE process (a call must not depend on what was asked before)"""
    seed, = args
    import random
    rnd = random.Random(seed)
    n = 0
    bad = []
    ds = [199, 1001, 2400, 4828, 7000, 11000, 16091, 30001, 60000, 250000] + [rnd.randrange(20, 400000) for _ in range(40)]
    graders = {y: _ag().AgeGrader(y) for y in ('2015', '2023')}
    for d in ds:
        for order in (('2015', '2023'), ('2023', '2015')):
            for y in order:
                for g in 'mf':
                    for fn in ('best', 'factor'):
                        n += 1
                        ok, why = spec_check(y, g, 52, d, fn, grader=graders[y])
                        if not ok:
                            bad.append((d, 52, fn, 'after other calls on the shared graders: ' + str(why), y, g))
                    # interleave a tabulated look-up, as calculate_age_grade does
                    graders[y].calculate_factor(g, 40, '100')
                    n += 1
                    ok, why = spec_check(y, g, 52, d, 'factor', grader=graders[y])
                    if not ok:
                        bad.append((d, 52, 'factor', 'repeated after a tabulated look-up: ' + str(why), y, g))
    return n, bad[:4]


def _work(job):
    if job[0] == 'x':
        return ('cross', job[1], cross_chunk(job[1]))
    if job[0] == 's':
        r = unit_spell(job[1])
    elif job[0] == 'f':
        r = unit_factor(job[1])
    elif job[0] == 'b':
        r = unit_best(job[1])
    else:
        return ('ground', job[1], ground_chunk(job[1]))
    r['job'] = job
    return r


def replay(rep):
    inp = rep['input']
    if inp[4] == 'best2':
        real = _ag().AgeGrader(inp[0])
        b1, b2 = real.world_best(inp[1], str(inp[3])), real.world_best(inp[1], str(inp[5]))
        bad = b2 < b1 - 1e-9
        print('replay: world_best %r -> %r, %r -> %r' % (inp[3], b1, inp[5], b2))
    elif inp[4] == 'spell':
        x = spell_exact(inp[3])
        try:
            got = real_module('athlib.utils').get_distance(inp[3])
            bad = not (isinstance(got, int) and x - 2 < got <= x)
        except Exception as e:
            got, bad = 'raises %s' % type(e).__name__, True
        print('replay: get_distance(%r) -> %r, exact %s m' % (inp[3], got, x))
    elif inp[4] == 'row':
        real = _ag().AgeGrader(inp[0])
        row = [r for r in real.get_data()[inp[1]] if r[0] == inp[3]][0]
        try:
            b = real.world_best(inp[1], inp[3])
            bad = b != row[2]
            if inp[2] is not None:
                f = real.calculate_factor(inp[1], inp[2], inp[3])
                bad = bad or abs(f - row[3 + real.get_data()['ages'].index(inp[2])]) > 1e-12
        except Exception as e:
            b, bad = 'raises %s' % type(e).__name__, True
        print('replay: world_best(%r) -> %r, row %r' % (inp[3], b, row[:3]))
    elif inp[4] == 'spelling':
        real = _ag().AgeGrader(inp[0])
        try:
            f, b = real.calculate_factor(inp[1], 50, inp[3]), real.world_best(inp[1], inp[3])
            x = int(spell_exact(inp[3]))
            same = [(real.calculate_factor(inp[1], 50, str(dd)), real.world_best(inp[1], str(dd))) for dd in (x, x - 1)]
            bad = not (f > 0 and b > 0 and (f, b) in same)
        except Exception as e:
            f, bad = 'raises %s' % type(e).__name__, True
        print('replay: %r -> %r' % (inp[3], f))
    else:
        ok, why = spec_check(inp[0], inp[1], inp[2] if inp[2] is not None else 40, inp[3], inp[4])
        bad = not ok
        print('replay %s: %r -> %r' % (rep['obligation'], inp, why))
    print('VIOLATION reproduced' if bad else 'not reproduced on this tree')
    return 1 if bad else 0


def main(tier, seed):
    run = report.Run(PROP, tier, seed)
    run.expected_min_obligations = 500
    run.level_claim = 'other'
    run.explanation = __doc__
    run.assume('pyvc proxies/rewrites; float proxy (exact value + certified error)', 'z3 soundness (NRA for the open-best obligations)',
               'get_distance(queried code) = the symbolic whole-metre distance (its contract); the real get_distance on tabulated codes',
               'ages sampled: %r (the factor clause is proved per age; the bracketing argument does not depend on the age)' % (AGES,),
               'betweenness up to 1e-9 + the certified float error')
    from props.C14 import datafile_obligations
    datafile_obligations(run, ('2015', '2023'))          # the rows every clause below reads through get_data() are those of the data file
    J = []
    for year in ('2015', '2023'):
        for g in 'mf':
            for age in AGES:
                J.append(('f', (year, g, age)))
            J.append(('b', (year, g)))
            J.append(('g', (year, g, seed)))
    J.append(('x', (seed,)))
    J += [('s', sh) for sh in SPELL_SHAPES]
    results = report.pool_map(_work, J)
    gn = 0
    for res in results:
        if isinstance(res, dict) and '_crash' in res:
            U.absorb(run, res)
            continue
        if isinstance(res, tuple) and res[0] == 'cross':
            n, bad = res[2]
            gn += n
            for d, age, fn, why, y, g in bad[:2]:
                run.violation('standin/history-independence', dict(call='%s of %r on the shared AgeGrader(%r) %r' % (fn, str(d), y, g), observed=why,
                                                                   input=[y, g, age, d, fn]), True)
            continue
        if isinstance(res, tuple):
            _, key, (n, bad) = res
            gn += n
            for d, age, fn, why in bad[:3]:
                run.violation('standin/%s' % fn, dict(call='%s %r age=%r on AgeGrader(%r) %r' % (fn, d, age, key[0], key[1]), observed=why,
                                                      input=[key[0], key[1], age, d, fn if fn != 'spelling' else 'spelling']), True)
            continue
        for d_ in res['fns']:
            run.add_function(d_)

        def on_refuted(r, _res):
            rep, bad = conc(r)
            rep['model'] = r.get('model')
            rep['unit'] = _res['unit']
            rep['solver'] = 'z3 sat'
            rep['meta'] = r.get('meta')
            if bad:
                e = run.match_known(r['name'], dict(rep, **r.get('ctx', {})))
                if e:
                    run.known_finding(e)
                else:
                    run.violation(r['name'], rep, True)
            else:
                run.spurious_model(r['name'], rep)
        U.absorb(run, res, on_refuted)
    run.bounded.append(dict(what='real calculate_factor/world_best on strided whole-metre distances, the seams next to every tabulated distance, and '
                                 'random N[.dd]K / N[.dd]M spellings', bound='%d calls, seed %d' % (gn, seed), evaluations=gn, distinct_nontrivial=gn,
                            decides='second line; undecided obligations'))
    run.standin_covers('*/in-subset')
    return run.finish()
