"""C13 - UK age groups follow the rule cut-off dates for every birth and meeting date.

Functions under contract: athlib.uka.agegroups.prior_date, rule107_agegroups_trackandfield,
rule507_agegroups_crosscountry, calc_uka_age_group.  Dates are six symbolic integers with the
Gregorian validity predicate, years 1..9999: the proof is for every year, not a leap cycle."""
import datetime
import random
import sys

import z3

from pyvc import report, unit as U
from pyvc.core import ctx, concrete_ctx
from pyvc.values import SBool, SInt, mkbool, zbool, And, Or, Not, Implies, sym_int
from pyvc.builtins_sym import sym_eq, SFmt
from pyvc.instrument import instrument
from pyvc import dates as D
from pyvc.strings import SOpaqueStr
from specs import uka as S

PROP = 'C13'
GROUPS = ['U9', 'U11', 'U13', 'U15', 'U17', 'U20', 'SEN']


def _mod():
    import athlib.uka.agegroups as m
    return m


def prior_date_contract(match_date, cutoff_month, cutoff_day):
    """contract stub of prior_date (proved separately by unit_prior): requires (8,31) and year >= 2"""
    assert (cutoff_month, cutoff_day) == (8, 31)
    c = ctx()
    md = D.s_relativedelta._co(match_date)
    c.oblige('prior_date/requires-year>=2', md.y >= 2, 'callee-pre')
    y, m, d = S.prior_31_aug(_ymd(md))
    return D.SDate(D.zint(y), 8, 31)


def _inst(name, extra=None):
    m = _mod()
    sh = dict(D.DATE_SHADOWS)
    if name != 'prior_date':
        sh['prior_date'] = prior_date_contract
    if extra:
        sh.update(extra)
    return instrument(getattr(m, name), shadows=sh)


def _birth(form, name='born'):
    d = D.sym_date(name)
    if form == 'iso':
        return D.SIsoStr(d.y, d.m, d.d), d
    return d, d


def _ymd(d):
    return (SInt(d.y), SInt(d.m), SInt(d.d))


def _is_group(r):
    if isinstance(r, SFmt):
        return r.fmt == 'V%02d' and len(r.args) == 1
    return isinstance(r, str) and r in GROUPS


# ------------------------------------------------------------------------------ units
def unit_eq(args):
    fname, vets, underage, form = args
    f = _inst(fname)
    spec = S.tf_group if fname.startswith('rule107') else S.xc_group
    tf = fname.startswith('rule107')
    uname = '%s[vets=%s,underage=%s,birth=%s]' % (fname, vets, underage, form)

    def run():
        b, bd = _birth(form)
        m = D.sym_date('match', ymin=2)
        ctx().extra = (bd, m)
        return f(b, m, vets=vets, underage=underage)

    def post(p, c):
        bd, m = c.extra
        if p.outcome == 'exc':
            c.oblige('%s/total' % fname, False, 'raises', meta=dict(exc=type(p.value).__name__))
            return
        r = p.value
        c.oblige('%s/result-is-a-group' % fname, _is_group(r), 'post')
        want = spec(_ymd(bd), _ymd(m), vets=vets, underage=underage)
        goal = sym_eq(r, want)
        if tf:
            goal = Implies(mkbool(m.m <= 9), goal)
        c.oblige('%s/equals-rule-text' % fname, zbool(goal), 'post')

    res = U.verify(uname, run, post)
    res['fn'] = f.describe()
    res['args'] = args
    return res


def unit_monotone(args):
    fname, vets, underage = args
    f = _inst(fname)
    uname = '%s/monotone[vets=%s,underage=%s]' % (fname, vets, underage)

    def run():
        b1 = D.sym_date('born')        # the earlier birth date (older athlete)
        b2 = D.sym_date('born2')
        m = D.sym_date('match', ymin=2)
        ctx().assume(z3.Not(b2._lt(b1)))
        r1 = f(b1, m, vets=vets, underage=underage)
        r2 = f(b2, m, vets=vets, underage=underage)
        return r1, r2

    def post(p, c):
        if p.outcome == 'exc':
            c.oblige('%s/total' % fname, False, 'raises', meta=dict(exc=type(p.value).__name__))
            return
        r1, r2 = p.value
        c.oblige('%s/earlier-birth-never-younger-group' % fname, zbool(S.group_rank(r1) >= S.group_rank(r2)), 'relational')

    res = U.verify(uname, run, post)
    res['fn'] = f.describe()
    res['args'] = args
    return res


def unit_options(args):
    fname, = args
    f = _inst(fname)
    uname = '%s/options-frame' % fname

    def run():
        b = D.sym_date('born')
        m = D.sym_date('match', ymin=2)
        out = {}
        for vets in (True, False):
            for underage in (True, False):
                out[(vets, underage)] = f(b, m, vets=vets, underage=underage)
        return out

    def post(p, c):
        if p.outcome == 'exc':
            c.oblige('%s/total' % fname, False, 'raises', meta=dict(exc=type(p.value).__name__))
            return
        o = p.value
        isV = lambda r: isinstance(r, SFmt)
        for underage in (True, False):
            a, b = o[(True, underage)], o[(False, underage)]
            ok = Or(sym_eq(a, b), And(isV(a), sym_eq(b, 'SEN')))
            c.oblige('%s/vets-only-changes-masters' % fname, zbool(ok), 'frame')
        for vets in (True, False):
            a, b = o[(vets, True)], o[(vets, False)]
            ok = Or(sym_eq(a, b), And(sym_eq(a, 'U9'), sym_eq(b, 'U11')))
            c.oblige('%s/underage-only-changes-under-11' % fname, zbool(ok), 'frame')

    res = U.verify(uname, run, post)
    res['fn'] = f.describe()
    res['args'] = args
    return res


def unit_prior(args):
    f = _inst('prior_date')

    def run():
        m = D.sym_date('match', ymin=2)
        ctx().extra = m
        return f(m, 8, 31)

    def post(p, c):
        m = c.extra
        if p.outcome == 'exc':
            c.oblige('prior_date/total', False, 'raises', meta=dict(exc=type(p.value).__name__))
            return
        y, mo, d = S.prior_31_aug(_ymd(m))
        r = p.value
        c.oblige('prior_date/latest-31-aug-not-after', zbool(And(sym_eq(r.year, y), sym_eq(r.month, 8), sym_eq(r.day, 31))), 'post')
        c.oblige('prior_date/not-after-match', zbool(r <= m), 'post')

    res = U.verify('prior_date', run, post)
    res['fn'] = f.describe()
    res['args'] = args
    return res


class _Marker(object):
    def __init__(self, which, a, k):
        self.which, self.a, self.k = which, a, k


def unit_dispatch(args):
    stubs = {'rule107_agegroups_trackandfield': lambda *a, **k: _Marker('107', a, k),
             'rule507_agegroups_crosscountry': lambda *a, **k: _Marker('507', a, k)}
    f = _inst('calc_uka_age_group', stubs)
    cats = ['TF', 'ROAD', 'XC', 'ESAA', None]

    def run():
        c = ctx()
        i = c.choose(len(cats), 'cat')
        cat = cats[i]
        if cat is None:
            cat = SOpaqueStr.fresh('category')
            for k in cats[:-1]:
                c.assume(z3.Not(cat.t == z3.StringVal(k)))
        c.extra = cats[i]
        return f('B', 'M', cat, vets='V', underage='U')

    def post(p, c):
        cat = c.extra
        want = {'TF': '107', 'ROAD': '507', 'XC': '507'}.get(cat)
        if want:
            ok = (p.outcome == 'ret' and isinstance(p.value, _Marker) and p.value.which == want
                  and p.value.a == ('B', 'M') and p.value.k == dict(vets='V', underage='U'))
            c.oblige('calc_uka_age_group/dispatch-%s' % cat, ok, 'post')
        elif cat == 'ESAA':
            c.oblige('calc_uka_age_group/esaa-not-implemented', p.outcome == 'exc' and isinstance(p.value, NotImplementedError), 'raises')
        else:
            c.oblige('calc_uka_age_group/other-category-valueerror', p.outcome == 'exc' and isinstance(p.value, ValueError), 'raises')

    res = U.verify('calc_uka_age_group', run, post)
    res['fn'] = f.describe()
    res['args'] = args
    return res


UNITS = {'eq': unit_eq, 'mono': unit_monotone, 'opt': unit_options, 'prior': unit_prior, 'disp': unit_dispatch}


def _work(job):
    kind, args = job
    r = UNITS[kind](args)
    r['job'] = job
    return r


# ------------------------------------------------------------------------------ replay on the real code
def _real_call(fname, born, match, vets, underage, form):
    m = _mod()
    b = datetime.date(*born)
    md = datetime.date(*match)
    barg = b.isoformat() if form == 'iso' else b
    try:
        return ('ret', getattr(m, fname)(barg, md, vets=vets, underage=underage))
    except Exception as e:
        return ('exc', type(e).__name__)


def _spec_call(fname, born, match, vets, underage):
    spec = S.tf_group if fname.startswith('rule107') else S.xc_group
    return spec(tuple(born), tuple(match), vets=vets, underage=underage)


def _dates_of(model):
    g = lambda n: tuple(int(model[n + s]) for s in ('_y', '_m', '_d'))
    return g('born'), g('match'), (g('born2') if 'born2_y' in model else None)


def concretise(job, oname, model):
    """turn a counter-model into a replay record and run it on the untouched real code"""
    kind, args = job
    rep = dict(job=list(job), model=model, obligation=oname)
    try:
        if kind == 'eq':
            fname, vets, underage, form = args
            born, match, _ = _dates_of(model)
            obs = _real_call(fname, born, match, vets, underage, form)
            want = _spec_call(fname, born, match, vets, underage)
            rep.update(call='%s(%r, %r, vets=%r, underage=%r) [birth as %s]' % (fname, born, match, vets, underage, form),
                       observed=obs, required=want)
            bad = obs[0] != 'ret' or (obs[1] != want and (not fname.startswith('rule107') or match[1] <= 9)) \
                or (obs[0] == 'ret' and not (obs[1] in GROUPS or str(obs[1]).startswith('V')))
            return rep, bad
        if kind == 'mono':
            fname, vets, underage = args
            born, match, born2 = _dates_of(model)
            o1 = _real_call(fname, born, match, vets, underage, 'date')
            o2 = _real_call(fname, born2, match, vets, underage, 'date')
            rep.update(call='%s on births %r (earlier) and %r, match %r' % (fname, born, born2, match), observed=[o1, o2],
                       required='group of the earlier birth not younger')
            bad = o1[0] != 'ret' or o2[0] != 'ret' or S.group_rank(o1[1]) < S.group_rank(o2[1])
            return rep, bad
        if kind == 'opt':
            fname, = args
            born, match, _ = _dates_of(model)
            o = {(v, u): _real_call(fname, born, match, v, u, 'date') for v in (True, False) for u in (True, False)}
            rep.update(call='%s(%r,%r) under the four option settings' % (fname, born, match), observed={str(k): v for k, v in o.items()})
            bad = False
            for u in (True, False):
                a, b = o[(True, u)], o[(False, u)]
                bad |= not (a == b or (a[0] == 'ret' and b == ('ret', 'SEN') and str(a[1]).startswith('V')))
            for v in (True, False):
                a, b = o[(v, True)], o[(v, False)]
                bad |= not (a == b or (a == ('ret', 'U9') and b == ('ret', 'U11')))
            return rep, bad
        if kind == 'disp':
            # the dispatcher must hand the caller's own arguments and options to the rule of the category: search a boundary grid
            # for a call on which it answers differently from that rule called directly with the same options
            m = _mod()
            rules = {'TF': m.rule107_agegroups_trackandfield, 'ROAD': m.rule507_agegroups_crosscountry, 'XC': m.rule507_agegroups_crosscountry}
            def _c(f, *a, **k):
                try:
                    return ('ret', f(*a, **k))
                except Exception as e:
                    return ('exc', type(e).__name__)
            for match in ((2015, 1, 3), (2015, 6, 1), (2015, 9, 30), (2016, 2, 29)):
                md = datetime.date(*match)
                for age in (6, 7, 8, 9, 10, 11, 12, 14, 16, 19, 20, 21, 34, 35, 36, 44, 45, 70):
                    for dm, dd in ((1, 1), (8, 31), (9, 1), (12, 31), (match[1], min(match[2], 28))):
                        born = (match[0] - age, dm, dd)
                        b = datetime.date(*born)
                        for cat, rule in rules.items():
                            for v in (True, False):
                                for u in (True, False):
                                    got = _c(m.calc_uka_age_group, b, md, cat, vets=v, underage=u)
                                    want = _c(rule, b, md, vets=v, underage=u)
                                    if got != want:
                                        rep.update(call='calc_uka_age_group(%r, %r, %r, vets=%r, underage=%r)' % (born, match, cat, v, u), observed=got,
                                                   required='%s, the answer of %s called with the same options' % (want, rule.__name__))
                                        return rep, True
            rep.update(call='calc_uka_age_group on the boundary grid', observed='agrees with the rule functions on the grid')
            return rep, False
        if kind == 'prior':
            _, match, _ = (None, tuple(int(model['match' + s]) for s in ('_y', '_m', '_d')), None)
            try:
                r = _mod().prior_date(datetime.date(*match), 8, 31)
                obs = (r.year, r.month, r.day)
            except Exception as e:
                obs = type(e).__name__
            want = S.prior_31_aug(match)
            rep.update(call='prior_date(%r, 8, 31)' % (match,), observed=obs, required=want)
            return rep, obs != tuple(want)
    except Exception as e:
        rep['concretise_error'] = repr(e)
    return rep, False


def replay(rep):
    job = (rep['job'][0], tuple(rep['job'][1]))
    r, bad = concretise(job, rep['obligation'], rep['model'])
    print('replay %s: %s\n observed=%r\n required=%r' % (rep['obligation'], r.get('call'), r.get('observed'), r.get('required')))
    print('VIOLATION reproduced' if bad else 'not reproduced on this tree')
    return 1 if bad else 0


# ------------------------------------------------------------------------------ dependency contracts, encoder
def crosscheck_contracts(run, seed, n):
    """the two assumed dateutil contracts against dateutil itself, and the instrumented functions
    (run on concrete dates) against the untouched real ones"""
    from dateutil.relativedelta import relativedelta
    from dateutil.parser import parse
    rnd = random.Random(seed)
    bad = 0
    edge = []
    for y in (1999, 2000, 2003, 2004, 2100):
        for m, d in ((2, 28), (2, 29), (3, 1), (8, 31), (9, 1), (12, 31), (1, 1), (8, 30)):
            try:
                edge.append(datetime.date(y, m, d))
            except ValueError:
                pass
    pairs = [(a, b) for a in edge for b in edge]
    while len(pairs) < n:
        a = datetime.date.fromordinal(rnd.randint(366, 3652059))
        if rnd.random() < 0.5:
            b = datetime.date.fromordinal(max(1, min(3652059, a.toordinal() + rnd.randint(-45000, 400))))
        else:
            try:
                b = datetime.date(max(1, a.year - rnd.randint(0, 110)), a.month, min(a.day + rnd.randint(-1, 1), 28) or 1)
            except ValueError:
                b = a
        pairs.append((a, b))
    for a, b in pairs:
        if relativedelta(a, b).years != D.rd_years_concrete(a, b):
            bad += 1
            run.checker_error('relativedelta contract disagrees with dateutil on %s, %s' % (a, b))
            break
    for a, _ in pairs[:2000]:
        p = parse(a.isoformat())
        if (p.year, p.month, p.day) != (a.year, a.month, a.day):
            run.checker_error('parse_date contract disagrees with dateutil on %s' % a)
            break
    # encoder cross-check: instrumented function on concrete values == real function
    m = _mod()
    n2 = 0
    for fname in ('rule107_agegroups_trackandfield', 'rule507_agegroups_crosscountry'):
        f = _inst(fname)
        real = getattr(m, fname)
        for a, b in pairs[:1600:8]:
            if a.year < 2:
                continue
            for vets in (True, False):
                n2 += 1
                try:
                    with concrete_ctx():
                        r1 = ('ret', f(b, a, vets=vets, underage=True))
                except Exception as e:
                    r1 = ('exc', type(e).__name__)
                try:
                    r2 = ('ret', real(b, a, vets=vets, underage=True))
                except Exception as e:
                    r2 = ('exc', type(e).__name__)
                if r1 != r2:
                    run.checker_error('instrumented %s differs from the real function on %s,%s: %r vs %r' % (fname, b, a, r1, r2))
                    return
    run.bounded.append(dict(what='cross-check of the assumed dateutil contracts and of the instrumented functions on concrete dates',
                            bound='%d date pairs (edge days + random, seed %d)' % (len(pairs), seed), evaluations=len(pairs) + n2,
                            distinct_nontrivial=len(set(pairs)), decides='nothing (validates assumptions only)'))


def _standin_chunk(pairs):
    ev = 0
    viols = []
    for b, match in pairs:
        for fname in ('rule107_agegroups_trackandfield', 'rule507_agegroups_crosscountry'):
            for vets, underage in ((True, False), (False, True)):
                ev += 1
                o1 = _real_call(fname, (b.year, b.month, b.day), (match.year, match.month, match.day), vets, underage, 'date')
                o2 = _real_call(fname, (b.year, b.month, b.day), (match.year, match.month, match.day), vets, underage, 'iso')
                want = _spec_call(fname, (b.year, b.month, b.day), (match.year, match.month, match.day), vets, underage)
                tf = fname.startswith('rule107')
                wrong = o1 != o2 or o1[0] != 'ret' or ((not tf or match.month <= 9) and o1[1] != want)
                if wrong and len(viols) < 3:
                    viols.append(dict(job=['eq', [fname, vets, underage, 'iso' if o1 != o2 else 'date']],
                                      model={'born_y': b.year, 'born_m': b.month, 'born_d': b.day, 'match_y': match.year,
                                             'match_m': match.month, 'match_d': match.day},
                                      call='%s(%s, %s, vets=%s, underage=%s)' % (fname, b, match, vets, underage),
                                      observed=dict(date=o1, iso=o2), required=str(want)))
    return ev, viols


def standin(run, seed, n):
    """bounded stand-in on the REAL functions: the property's clauses evaluated on sampled (birth, meeting) pairs -
    boundary days of every cut-off, days 1..12 (day/month ambiguity of text dates), leap days, random dates.
    It decides the run where an obligation is undecided (e.g. a dependency used outside its assumed contract)."""
    rnd = random.Random(seed + 1)
    m = _mod()
    pairs = []
    for my in (2015, 2016, 2100):
        for mm, md in ((1, 1), (2, 28), (2, 29), (3, 1), (8, 1), (8, 30), (8, 31), (9, 1), (9, 30), (10, 1), (12, 31), (6, 13)):
            try:
                match = datetime.date(my, mm, md)
            except ValueError:
                continue
            for age in list(range(6, 23)) + [34, 35, 36, 39, 40, 41, 100]:      # both sides of every group boundary
                for bm, bd in ((2, 28), (2, 29), (3, 1), (8, 9), (9, 8), (8, 31), (9, 1), (12, 31), (1, 1), (mm, md), (6, 12), (12, 6)):
                    try:
                        pairs.append((datetime.date(my - age, bm, bd), match))
                    except ValueError:
                        pass
    while len(pairs) < n:
        match = datetime.date.fromordinal(rnd.randint(730000, 767000))
        b = datetime.date.fromordinal(match.toordinal() - rnd.randint(0, 40200))
        pairs.append((b, match))
    chunks = [pairs[i::16] for i in range(16)]
    ev = bad = 0
    # prior_date itself on every day of leap and common years (a fixed number of days is not a year)
    pd_bad = None
    for y in (2015, 2016, 2017, 2000, 2100, 2096):
        d = datetime.date(y, 1, 1)
        while d.year == y:
            ev += 1
            try:
                r_ = m.prior_date(d, 8, 31)
                got = (r_.year, r_.month, r_.day)
            except Exception as e:
                got = type(e).__name__
            if got != tuple(S.prior_31_aug((d.year, d.month, d.day))) and pd_bad is None:
                pd_bad = (d, got)
            d += datetime.timedelta(days=1)
    if pd_bad:
        d, got = pd_bad
        bad += 1
        run.violation('standin/prior_date', dict(job=['prior', []], model={'match_y': d.year, 'match_m': d.month, 'match_d': d.day},
                                                 call='prior_date(%s, 8, 31)' % d, observed=got, required=str(S.prior_31_aug((d.year, d.month, d.day)))), True)
    for r in report.pool_map(_standin_chunk, chunks):
        if isinstance(r, dict):
            run.checker_error(r['_crash'])
            continue
        e, viols = r
        ev += e
        for v in viols:
            bad += 1
            if bad <= 3:
                run.violation('standin/%s' % v['job'][1][0], v, True)
    run.bounded.append(dict(what='the property clauses on the real functions (date vs ISO text vs rule-text spec) on boundary and random date pairs',
                            bound='%d pairs x 2 functions x 2 option settings, seed %d' % (len(pairs), seed), evaluations=ev,
                            distinct_nontrivial=len(set(pairs)), decides='undecided obligations only (second line)'))
    if not bad:
        run.standin_covers('*/in-subset')


def _exh_chunk(args):
    from dateutil.relativedelta import relativedelta
    y0, = args
    bad = []
    n = 0
    d = datetime.date(y0, 1, 1)
    end = datetime.date(y0 + 1, 1, 1)
    one = datetime.timedelta(days=1)
    while d < end:
        for by in range(d.year - 110, d.year + 1):
            for bm in range(1, 13):
                for bd_ in (1, 15, 27, 28, 29, 30, 31):
                    try:
                        b = datetime.date(by, bm, bd_)
                    except ValueError:
                        continue
                    n += 1
                    if relativedelta(d, b).years != D.rd_years_concrete(d, b):
                        bad.append((d.isoformat(), b.isoformat()))
        d += one
    return n, bad[:5]


def thorough_contracts(run):
    res = report.pool_map(_exh_chunk, [(y,) for y in (2096, 2097, 2098, 2099, 2100, 2101, 2102, 2103, 2104)])
    tot = 0
    for r in res:
        if isinstance(r, dict):
            run.checker_error(r['_crash'])
            continue
        n, bad = r
        tot += n
        if bad:
            run.checker_error('relativedelta contract disagrees with dateutil: %r' % (bad,))
    run.bounded.append(dict(what='relativedelta(...).years contract vs dateutil, every meeting day of 2096-2104 (covers the 2100 '
                                 'non-leap century) x birth days {1,15,27..31} of every month of the 110 preceding years',
                            bound='9 meeting years', evaluations=tot, distinct_nontrivial=tot, decides='nothing (validates an assumption)'))


# ------------------------------------------------------------------------------ main
def jobs(tier):
    J = []
    for fname in ('rule107_agegroups_trackandfield', 'rule507_agegroups_crosscountry'):
        for vets in (True, False):
            for underage in (True, False):
                for form in ('date', 'iso'):
                    J.append(('eq', (fname, vets, underage, form)))
                J.append(('mono', (fname, vets, underage)))
        J.append(('opt', (fname,)))
    J.append(('prior', ()))
    J.append(('disp', ()))
    return J


def main(tier, seed):
    run = report.Run(PROP, tier, seed)
    run.expected_min_obligations = 200
    run.explanation = ('VCs generated by symbolic execution of the real functions re-compiled from /repo (pyvc), '
                       'discharged by z3 over linear integer arithmetic for all dates of years 1..9999')
    run.assume('pyvc proxies/rewrites model Python semantics (validated by differential runs against CPython, not proved)',
               'z3 soundness', 'meeting year >= 2 (prior_date builds a date in year-1)',
               'datetime.date comparison is lexicographic on (y,m,d); date(y,m,d) raises ValueError iff not a Gregorian date of years 1..9999')
    from pyvc.frames import frame_obligations
    m_ = _mod()
    frame_obligations(run, [m_.calc_uka_age_group, m_.rule107_agegroups_trackandfield, m_.rule507_agegroups_crosscountry, m_.prior_date])
    J = jobs(tier)
    results = report.pool_map(_work, J)

    def on_refuted(job):
        def h(r, res):
            rep, bad = concretise(job, r['name'], r.get('model') or {})
            rep['solver'] = 'z3 sat'
            rep['unit'] = res['unit']
            if bad or 'call' not in rep:
                run.violation(r['name'], rep, bad, 'refuted')
            else:
                run.spurious_model(r['name'], rep)
        return h
    for res in results:
        if '_crash' not in res:
            run.add_function(res['fn'])
            U.absorb(run, res, on_refuted(res['job']))
        else:
            U.absorb(run, res)
    crosscheck_contracts(run, seed, 20000 if tier == 'quick' else 200000)
    standin(run, seed, 3000 if tier == 'quick' else 60000)
    if tier == 'thorough':
        thorough_contracts(run)
    return run.finish()
