"""C01 - combined-events points equal the official formula on the decimal mark.

Under contract: athlon_score.scoring_key, _scoring_objects_create, score; AthlonsAgeGrader.calculate_factor,
AgeGrader.find_row_by_event, find_age, normalize_gender (get_data external: the JSON the real module loads).

(A) symbolic, all marks k and all ages at once: the rounding stage of score() yields exactly ceil/floor(k*F) in
    centi-units (float-robustness obligation decided exactly), the age-band lookup gives the tabulated factor
    (1 below the first band), the guard against the zero point is consistent, the power stage is applied to that
    centi-mark with the row's own coefficients (term-tree equality), unknown pairs give None, nothing raises.
(B) ground, complete: the power stage G(c) - the real score() on the mark c/100 without age - evaluated on EVERY
    centi-mark c of the grid of every row (about 3.4 million) against the exact integer characterisation
    max{P : P^q <= A^q t^p}.  (A) shows score(k, age) = G(c(k, age)), so (A)+(B) cover the whole domain."""
import math
import random
from fractions import Fraction

import z3

from pyvc import report, unit as U
from pyvc.core import ctx, concrete_ctx, OutOfSubset
from pyvc.values import SInt, mkbool, zbool, zint, sym_int, And, Or, Not
from pyvc.builtins_sym import SYM_MATH, sym_eq
from pyvc.instrument import instrument, instrument_class
from pyvc import floats as F
from pyvc.util import real_module
from specs import athlon as SP

PROP = 'C01'
AGE_MAX = 200
AG_METHODS = ['calculate_factor', 'find_row_by_event', 'find_age', 'normalize_gender']


def _a():
    return real_module('athlib.athlon_score')


def _ag():
    return real_module('athlib.wma.agegrader')


def kind_of(event):
    from athlib.codes import PAT_JUMPS, PAT_THROWS
    return 'jump' if PAT_JUMPS.match(event) else 'throw' if PAT_THROWS.match(event) else 'track'


def rows():
    """(gender, event as passed by the caller, esaa, scoring-table row) incl. the veterans' hurdles remaps"""
    a = _a()
    out = []
    for o in a._scoring_table:
        out.append((o['gender'], o['event_code'], False, o))
    tab = {(o['gender'], o['event_code']): o for o in a._scoring_table}
    out.append(('F', '80H', False, tab[('F', '100H')]))
    out.append(('M', '80H', False, tab[('M', '110H')]))
    out.append(('M', '100H', False, tab[('M', '110H')]))
    out.append(('M', '800', True, dict(gender='M', event_code='800', A=0.232, Z=200.0, X=1.85)))
    # the ESAA option alters the boys' 800 m ONLY: every other row scores with its own coefficients when it is passed
    for o in a._scoring_table:
        if (o['gender'], o['event_code']) != ('M', '800') and (o['event_code'] in ('800', '1500', '100', 'HJ', 'SP') or o['gender'] == 'F' and o['event_code'] == '200'):
            out.append((o['gender'], o['event_code'], True, o))
    return out


def spec_row(o, event):
    return SP.Row(o['A'], o['Z'], o['X'], kind_of(o['event_code']))


def athlon_factor(gender, event, band):
    """spec of the age factor: the combined-events table entry of the five-year band (None if the event has no row);
    band < 35 -> 1"""
    d = _ag().AthlonsAgeGrader().get_data()
    ev = event.upper()
    if ev[-1] == 'H' and ev not in ('LH', 'SH', '60H'):
        n = int(ev[:-1])
        ev = 'SH' if n <= 110 else 'LH' if n >= 200 else None
    ages = d['ages']
    for r in d[gender.lower()[0]]:
        if r[0] == ev:
            if band < 35:
                return Fraction(1)
            i = min(ages.index(band) if band in ages else len(ages) - 1, len(r) - 1)
            return Fraction(repr(r[i]))
    return None


def build(shadow_extra=None):
    a = _a()
    sub, recs = instrument_class(_ag().AthlonsAgeGrader, AG_METHODS)
    # find_row_by_event / find_age / normalize_gender live on the base class AgeGrader
    sh = {'math': SYM_MATH, 'AthlonsAgeGrader': sub}
    if shadow_extra:
        sh.update(shadow_extra)
    f = instrument(a.score, shadows=sh)
    c1 = instrument(a._scoring_objects_create, share_globals=f)
    c2 = instrument(a.scoring_key, share_globals=f)
    return f, recs + [f, c1, c2]


def instrument_ag():
    ag = _ag()
    base = ag.AgeGrader
    names = {}
    for n in AG_METHODS:
        for klass in (ag.AthlonsAgeGrader, base):
            if n in klass.__dict__:
                names[n] = klass
                break
    return names


# monkey: instrument_class only looks in cls.__dict__; build a combined subclass by hand
def ag_subclass():
    ag = _ag()
    recs = []
    d = {}
    for n, klass in instrument_ag().items():
        raw = klass.__dict__[n]
        inst = instrument(raw)
        recs.append(inst)
        d[n] = staticmethod(inst.fn) if isinstance(raw, staticmethod) else inst.fn
    return type('AthlonsAgeGrader', (ag.AthlonsAgeGrader,), d), recs


def build2():
    a = _a()
    sub, recs = ag_subclass()
    f = instrument(a.score, shadows={'math': SYM_MATH, 'AthlonsAgeGrader': sub})
    c1 = instrument(a._scoring_objects_create, share_globals=f)
    c2 = instrument(a.scoring_key, share_globals=f)
    return f, recs + [f, c1, c2]


def expected_tag(row, kind, flvar):
    """the term tree score() must return for centi-mark variable flvar"""
    return None


def unit_round(args):
    g, ev, esaa, o, mode = args          # mode: 'noage' | 'age'
    f, recs = build2()
    R = spec_row(o, ev)
    timed = R.kind == 'track'
    kmax = R.cmax() * 2 + 1000
    import copy
    a_ = _a()
    snap_table = copy.deepcopy(a_._scoring_table)

    def run():
        c = ctx()
        kv = F.sym_int_var('k', 0, kmax)
        val = F.SFloat(F.Aff(0, {'k': Fraction(1, 100)}), None, 0)
        val.err = val.mag * F.U
        if mode == 'age':
            age = sym_int('age', 1, AGE_MAX)
        else:
            age = None
        c.extra = (SInt(kv), age)
        return f(g, ev, val, age=age, esaa=esaa)

    def post(p, c):
        k, age = c.extra
        has_factor = athlon_factor(g, ev, 35) is not None
        # frame: score() modifies no module state (the lazily built key map holds the table's own rows)
        objs = f.fn.__globals__.get('_scoring_objects')
        same = a_._scoring_table == snap_table and (objs is None or all(objs[kk] == {kx: vx for kx, vx in row_.items()} for kk, row_ in
                                                                       ((('%s-%s' % (r_['gender'], r_['event_code'])).upper(), r_) for r_ in snap_table)))
        c.oblige('score/frame-module-tables-unchanged', bool(same), 'frame')
        if not same:
            a_._scoring_table = copy.deepcopy(snap_table)
            f.fn.__globals__['_scoring_objects'] = None
        if p.outcome == 'exc':
            allowed = mode == 'age' and not has_factor and isinstance(p.value, ValueError)
            c.oblige('score/no-exception', allowed, 'raises', meta=dict(exc=type(p.value).__name__, msg=str(p.value)[:60]))
            return
        r = p.value
        # which band did this path take?  recover F from the spec and the path condition on age
        if age is None:
            Fs = [(None, Fraction(1))]
        else:
            d = _ag().AthlonsAgeGrader().get_data()
            bands = sorted(set([0] + [b for b in d['ages']]))
            Fs = []
            for b in range(0, AGE_MAX + 5, 5):
                Fs.append((b, athlon_factor(g, ev, b)))
        # obligations are stated per band under the hypothesis that age lies in the band
        def clauses(Fq, hyp):
            cs = SP.centi_after_factor(k, Fq, timed)
            z100 = R.Z if R.kind == 'jump' else R.Z * 100
            if isinstance(r, F.SOpaque):
                ok, flt, why = match_tag(r.tag, o, R)
                c.oblige('score/power-stage-uses-the-row-coefficients', ok, 'post', meta=dict(why=why))
                if ok:
                    c.oblige('score/rounded-centi-mark-is-exact', z3.Implies(hyp, flt == zint(cs)), 'post')
                    side = (zint(cs) * z100.denominator >= z100.numerator) if not timed else (zint(cs) * z100.denominator <= z100.numerator)
                    c.oblige('score/scoring-branch-only-on-the-scoring-side', z3.Implies(hyp, side), 'post')
            elif isinstance(r, int) and not isinstance(r, bool) and r == 0:
                side = (zint(cs) * z100.denominator <= z100.numerator) if not timed else (zint(cs) * z100.denominator >= z100.numerator)
                c.oblige('score/zero-only-beyond-the-zero-point', z3.Implies(hyp, side), 'post')
            else:
                c.oblige('score/result-is-points', False, 'post', meta=dict(result=repr(r)[:80]))
        if age is None:
            clauses(Fraction(1), z3.BoolVal(True))
        else:
            for b, Fq in Fs:
                hyp = z3.And(age.t >= b, age.t < b + 5)
                if Fq is None:
                    continue
                # skip bands the path condition excludes (cheap syntactic test by the solver)
                s = z3.Solver()
                s.set('timeout', 2000)
                s.add(*c.pc)
                s.add(hyp)
                if s.check() == z3.unsat:
                    continue
                clauses(Fq, hyp)

    res = U.verify('score[%s,%s%s,%s]' % (g, ev, ',esaa' if esaa else '', mode), run, post,
                   want_sample=(g == 'M' and ev == '100' and mode == 'noage'))
    for x in res['results']:
        x['ctx'] = dict(g=g, ev=ev, esaa=esaa, mode=mode)
    res['fns'] = [x.describe() for x in recs]
    return res


def match_tag(tag, o, R):
    """tag == max(0, int(A * ((value - Z) ** X)))  with value the affine image of the floor/ceil variable.
    returns (ok, z3 term of the centi-mark variable, why)"""
    try:
        if tag[0] != 'max':
            return False, None, 'not max(0, .)'
        t = tag[1] if tag[2] == ('const', 0) else tag[2] if tag[1] == ('const', 0) else None
        if t is None or t[0] != 'int':
            return False, None, 'no int()'
        m = t[1]
        if m[0] != 'mul':
            return False, None, 'no A*'
        cst = [x for x in m[1:] if x[0] == 'const']
        pw = [x for x in m[1:] if x[0] == 'pow']
        if len(cst) != 1 or len(pw) != 1 or cst[0][1] != o['A']:
            return False, None, 'coefficient A is not the row\'s'
        _, base, ex = pw[0]
        if ex != ('const', o['X']):
            return False, None, 'exponent X is not the row\'s'
        if base[0] != 'float':
            return False, None, 'base'
        b = base[1]
        if b.aff is None or len(b.aff.cs) != 1:
            return False, None, 'base is not affine in one rounded variable'
        (var, coef), = b.aff.cs.items()
        want_coef = {'jump': Fraction(1), 'throw': Fraction(1, 100), 'track': Fraction(-1, 100)}[R.kind]
        want_c0 = {'jump': -R.Z, 'throw': -R.Z, 'track': R.Z}[R.kind]
        ratio = coef / want_coef
        if ratio.denominator != 1 or b.aff.c0 != want_c0:
            return False, None, 'base is %r, expected %s*c %+s' % (b.aff, want_coef, want_c0)
        if b.err > Fraction(1, 10 ** 9):
            return False, None, 'error bound of the base too large: %g' % float(b.err)
        term = ctx().var_ranges[var][2] * int(ratio)
        return True, term, ''
    except Exception as e:      # malformed tree
        return False, None, 'unexpected term tree: %r' % (e,)


_CONC = {}


HIST = r'''
import sys, json
import os
sys.path.insert(0, os.environ.get('ATHLIB_TREE', '/repo'))
import athlib
from athlib import athlon_score
g, ev, esaa = json.loads(sys.argv[1])
marks = [x / 100 for x in range(0, 40000, 37)]
before = [athlon_score(g, ev, m) for m in marks]
for m in marks[:50]:
    athlon_score(g, ev, m, esaa=esaa)
    athlon_score(g, ev, m, age=40, esaa=esaa) if ev in ('100','200','400','800','1500','HJ','LJ','SP') else None
after = [athlon_score(g, ev, m) for m in marks]
bad = [(m, b, a) for m, b, a in zip(marks, before, after) if a != b]
print(json.dumps(bad[:3]))
'''


def conc_frame(cx):
    import subprocess, sys, json
    r = subprocess.run([sys.executable, '-c', HIST, json.dumps([cx['g'], cx['ev'], cx['esaa']])], capture_output=True, text=True, timeout=120)
    bad = json.loads(r.stdout.strip().splitlines()[-1]) if r.returncode == 0 and r.stdout.strip() else []
    call = 'athlon_score(%r,%r,m) ; athlon_score(%r,%r,m,esaa=%r) ; athlon_score(%r,%r,m) again' % (cx['g'], cx['ev'], cx['g'], cx['ev'], cx['esaa'], cx['g'], cx['ev'])
    if bad:
        m, b, a = bad[0]
        return dict(call=call, observed='mark %r scored %r before and %r after the other calls' % (m, b, a), required='same answer',
                    input=['history', cx['g'], cx['ev'], cx['esaa']]), True
    return dict(call=call, observed='no difference', input=['history', cx['g'], cx['ev'], cx['esaa']]), False


def conc_round(r):
    cx = r['ctx']
    if r['name'].startswith('score/frame'):
        key = ('frame', cx['g'], cx['ev'], cx['esaa'])
        if key not in _CONC:
            _CONC[key] = conc_frame(cx)
        return _CONC[key]
    key = (cx['g'], cx['ev'], cx['esaa'], cx['mode'], r['name'])
    if key not in _CONC:
        _CONC[key] = _conc_round(r)
    return _CONC[key]


def _conc_round(r):
    """grid search for a witness of a refuted rounding-stage obligation"""
    cx = r['ctx']
    a = _a()
    g, ev, esaa = cx['g'], cx['ev'], cx['esaa']
    o = [x for x in rows() if x[0] == g and x[1] == ev and x[2] == esaa][0][3]
    R = spec_row(o, ev)
    timed = R.kind == 'track'
    m = r.get('model') or {}
    ages = [None] if cx['mode'] == 'noage' else ([int(m['age'])] if 'age' in m else []) + [40, 70, 1, 34, 115]
    ks = ([int(m['k'])] if 'k' in m else []) + list(range(0, min(R.cmax(), 6000)))
    for age in ages:
        Fq = Fraction(1) if age is None else athlon_factor(g, ev, 5 * (age // 5))
        for k in ks:
            want = None if Fq is None else R.points(SP.centi_after_factor(k, Fq, timed))
            for val in ([k / 100] + ([k // 100] if k % 100 == 0 else [])):
                try:
                    got = a.score(g, ev, val, age=age, esaa=esaa)
                except Exception as e:
                    got = 'raises %s' % type(e).__name__
                    if Fq is None and got == 'raises ValueError':
                        continue
                if Fq is not None and got != want:
                    return dict(call='athlon_score(%r,%r,%r,age=%r,esaa=%r)' % (g, ev, val, age, esaa), observed=got, required=want,
                                input=[g, ev, val, age, esaa]), True
    return dict(call='athlon_score grid search %r' % (cx,), observed='no witness found', input=[g, ev, 0, None, esaa]), False


# ---------------------------------------------------------------------------- (B) ground: the power stage on every centi-mark
def ground_chunk(args):
    g, ev, esaa, o, lo, hi = args
    a = _a()
    R = spec_row(o, ev)
    bad = []
    n = 0
    score = a.score
    for c in range(lo, hi):
        n += 1
        got = score(g, ev, c / 100, esaa=esaa)
        want = R.points(c)
        if got != want:
            # exact re-check of the oracle itself before reporting
            want = R.points_exact(c)
            if got != want:
                bad.append((c, got, want))
                if len(bad) > 5:
                    break
    return n, bad


def standin_chunk(args):
    """bounded stand-in: the real score() with an age on a strided grid vs the exact spec (decides undecided obligations)"""
    g, ev, esaa, o, seed = args
    import random
    rnd = random.Random(seed)
    a = _a()
    R = spec_row(o, ev)
    timed = R.kind == 'track'
    n = 0
    bad = []
    ages = [1, 20, 34] + list(range(35, 116, 5)) + [37, 52, 99, 120]
    for age in ages:
        Fq = athlon_factor(g, ev, 5 * (age // 5))
        if Fq is None:
            continue
        ks = [rnd.randrange(0, R.cmax() + 500) for _ in range(150)]
        # marks whose product with the factor lies next to an integer are the delicate ones
        ks += [k for k in range(rnd.randrange(1, 50), R.cmax(), 41) if (Fraction(k) * Fq % 1) in (0,) or (Fraction(k) * Fq % 1) > Fraction(99, 100) or (Fraction(k) * Fq % 1) < Fraction(1, 100)][:150]
        for k in ks:
            n += 1
            want = R.points(SP.centi_after_factor(k, Fq, timed))
            try:
                got = a.score(g, ev, k / 100, age=age, esaa=esaa)
            except Exception as e:
                got = 'raises %s' % type(e).__name__
            if got != want:
                bad.append((k / 100, age, got, want))
                if len(bad) > 3:
                    return n, bad
    return n, bad


def unknown_pairs():
    return [('X', '100'), ('M', 'ZZ'), ('M', '12345'), ('F', '110H'), ('', ''), ('m', 'hj2'), ('F', '600'), ('M', '4x100'), ('F', '1000')]


def replay_xhistory(rep):
    import subprocess, sys, json, os
    _, g, ev, mark, age = rep['input']
    r = subprocess.run([sys.executable, '-c', XHIST, json.dumps([[g, age, ev, mark]])], capture_output=True, text=True, cwd=os.environ.get('ATHLIB_TREE', '/repo'), timeout=120)
    fresh, after = json.loads(r.stdout.strip().splitlines()[-1])
    print('replay %s: fresh %r, after the other graders %r' % (rep['obligation'], fresh[0], after[0]))
    print('VIOLATION reproduced' if fresh != after else 'not reproduced on this tree')
    return 1 if fresh != after else 0


def replay(rep):
    if isinstance(rep.get('input'), list) and rep['input'] and rep['input'][0] == 'xhistory':
        return replay_xhistory(rep)
    if rep['input'][0] == 'history':
        r, bad = conc_frame(dict(g=rep['input'][1], ev=rep['input'][2], esaa=rep['input'][3]))
        print('replay %s: %s -> %s' % (rep['obligation'], r['call'], r['observed']))
        print('VIOLATION reproduced' if bad else 'not reproduced on this tree')
        return 1 if bad else 0
    g, ev, val, age, esaa = rep['input']
    a = _a()
    o = [x for x in rows() if x[0] == g and x[1] == ev and x[2] == esaa]
    from specs.athlon_table import OFFICIAL
    if o and (g, o[0][3]['event_code']) in OFFICIAL and not esaa:
        w = OFFICIAL[(g, o[0][3]['event_code'])]
        o = [(g, ev, esaa, dict(o[0][3], A=float(w[0]), Z=float(w[1]), X=float(w[2])))]
    try:
        got = a.score(g, ev, val, age=age, esaa=esaa)
    except Exception as e:
        got = 'raises %s' % type(e).__name__
    if not o:
        want = None
    else:
        R = spec_row(o[0][3], ev)
        Fq = Fraction(1) if age is None else athlon_factor(g, ev, 5 * (age // 5))
        k = int(round(val * 100))
        want = R.points_exact(SP.centi_after_factor(k, Fq, R.kind == 'track')) if Fq is not None else 'ValueError permitted'
    print('replay %s: athlon_score%r -> %r (required %r)' % (rep['obligation'], tuple(rep['input']), got, want))
    bad = got != want and not (want == 'ValueError permitted' and got == 'raises ValueError')
    print('VIOLATION reproduced' if bad else 'not reproduced on this tree')
    return 1 if bad else 0


def _work(job):
    if job[0] == 'round':
        r = unit_round(job[1])
        r['job'] = ('round', job[1][:3] + (job[1][4],))
        return r
    if job[0] == 'standin':
        return ('standin', job[1][:3], standin_chunk(job[1]))
    return ('ground', job[1][:3], ground_chunk(job[1]))


XHIST = r'''
import sys, json, os
sys.path.insert(0, os.environ.get('ATHLIB_TREE', '/repo'))
import athlib
def call(f, *a, **k):
    try:
        return ['ret', f(*a, **k)]
    except Exception as e:
        return ['exc', type(e).__name__]
triples = json.loads(sys.argv[1])
def scores():
    return [call(athlib.athlon_score, g, ev, mark, age) for g, age, ev, mark in triples]
r, w = os.pipe()
pid = os.fork()
if pid == 0:
    os.close(r); os.write(w, json.dumps(scores()).encode()); os._exit(0)
os.close(w)
data = b''
while True:
    b = os.read(r, 65536)
    if not b: break
    data += b
os.waitpid(pid, 0)
fresh = json.loads(data.decode())
# the history: the other graders of the package are asked about the same athletes first (both spellings of the gender, both years)
for g, age, ev, mark in triples:
    for gg in (g, g.lower()):
        for kw in ({}, {'year': 2015}, {'year': '2023'}):
            call(athlib.wma_age_factor, gg, age, ev, **kw)
            call(athlib.wma_age_grade, gg, age, ev, mark, **kw)
        call(athlib.wma_athlon_age_factor, gg, age, ev)
print(json.dumps([fresh, scores()]))
'''


def cross_grader_history(run):
    """bounded: the points for (gender, event, mark, age) after the WMA single-event graders were asked about the same athlete equal
    the points in a process that asked nothing before (forked child)"""
    import subprocess, sys, json, os
    triples = [(g, age, ev, mark) for g in 'MF' for age in (35, 53, 70) for ev, mark in (('100', 12.5), ('800', 150.0), ('LJ', 5.0), ('SP', 9.5), ('HJ', 1.5))]
    name = 'history/points-do-not-depend-on-what-other-graders-were-asked'
    r = subprocess.run([sys.executable, '-c', XHIST, json.dumps(triples)], capture_output=True, text=True, cwd=os.environ.get('ATHLIB_TREE', '/repo'), timeout=300)
    if r.returncode != 0 or not r.stdout.strip():
        run.record(name, 'ground', 'unknown', 'ground-evaluation', 0.0, 'history', 'harness failed: %s' % r.stderr[-200:])
        return
    fresh, after = json.loads(r.stdout.strip().splitlines()[-1])
    bad = [(t, a, b) for t, a, b in zip(triples, fresh, after) if a != b]
    run.record(name, 'ground', 'refuted' if bad else 'proved', 'ground-evaluation', 0.0, 'history')
    if bad:
        (g, age, ev, mark), a, b = bad[0]
        run.violation(name, dict(call='athlon_score(%r,%r,%r,%r) after wma_age_factor / wma_age_grade / wma_athlon_age_factor for the same athlete' % (g, ev, mark, age),
                                 observed=b, required=a, input=['xhistory', g, ev, mark, age]), True)
    run.bounded.append(dict(what='points after the other graders of the package were asked about the same athlete vs a fresh (forked) process',
                            bound='%d athletes' % len(triples), evaluations=len(triples), distinct_nontrivial=len(triples), decides='history independence across graders (bounded)'))


def main(tier, seed):
    run = report.Run(PROP, tier, seed)
    run.expected_min_obligations = 300
    run.explanation = ('rounding stage, age-band lookup, guard and coefficient use proved symbolically for all marks and ages; the power stage '
                       'evaluated on every centi-mark of every row against the exact integer characterisation (complete for the stated grid)')
    run.assume('pyvc proxies/rewrites; float proxy = exact affine value + certified error (IEEE-754 binary64)', 'z3 soundness',
               'the power stage is a deterministic function of the rounded centi-mark (float operations are deterministic)',
               'oracle: float estimate of A*t^X trusted only further than 1e-7 relative from an integer boundary, exact integer comparison otherwise',
               'reading: with an age, events absent from the combined-events age table (60, 600, 3000, 5000, 10000, 3000SC) may refuse with ValueError',
               'marks are the nearest double to k/100, or ints')
    # static frame: nothing in the call graph of score() writes to state that outlives the call (module tables, class-level
    # containers, shared graders) other than the one publish of the built index - the points are a function of the arguments
    from pyvc.frames import frame_obligations
    frame_obligations(run, [_a().score])
    cross_grader_history(run)
    RS = rows()
    J = []
    for g, ev, esaa, o in RS:
        J.append(('round', (g, ev, esaa, o, 'noage')))
        J.append(('round', (g, ev, esaa, o, 'age')))
    step = 40000
    for g, ev, esaa, o in RS:
        R = spec_row(o, ev)
        for lo in range(0, R.cmax(), step):
            J.append(('ground', (g, ev, esaa, o, lo, min(lo + step, R.cmax()))))
    J += [('standin', (g, ev, esaa, o, seed)) for g, ev, esaa, o in RS]
    results = report.pool_map(_work, J)
    gn = {}
    gbad = {}
    sn = 0
    sbad = []
    for res in results:
        if isinstance(res, dict) and '_crash' in res:
            U.absorb(run, res)
            continue
        if isinstance(res, tuple) and res[0] == 'standin':
            sn += res[2][0]
            for b in res[2][1]:
                sbad.append((res[1], b))
            continue
        if isinstance(res, tuple):
            _, key, (n, bad) = res
            gn[key] = gn.get(key, 0) + n
            gbad.setdefault(key, []).extend(bad)
            continue
        for d in res['fns']:
            run.add_function(d)

        def on_refuted(r, _res):
            rep, bad = conc_round(r)
            rep['solver'] = 'z3 sat' if r.get('kind') != 'robustness' else 'robustness margin check failed: %r' % (r.get('meta'),)
            rep['unit'] = _res['unit']
            rep['model'] = r.get('model')
            if bad:
                run.violation(r['name'], rep, True)
            else:
                run.spurious_model(r['name'], rep)
        U.absorb(run, res, on_refuted)
    tot = 0
    for key, n in sorted(gn.items()):
        tot += n
        name = 'power-stage-equals-exact-formula-on-every-centi-mark/%s-%s%s' % (key[0], key[1], '-esaa' if key[2] else '')
        bad = gbad.get(key) or []
        run.record(name, 'ground', 'refuted' if bad else 'proved', 'ground-evaluation', 0.0, 'grid')
        if bad:
            c, got, want = bad[0]
            run.violation(name, dict(call='athlon_score(%r,%r,%r,esaa=%r)' % (key[0], key[1], c / 100, key[2]), observed=got, required=want,
                                     input=[key[0], key[1], c / 100, None, key[2]], more=bad[:5]), True)
    for key, (val, age, got, want) in sbad[:5]:
        run.violation('standin/score-with-age', dict(call='athlon_score(%r,%r,%r,age=%r,esaa=%r)' % (key[0], key[1], val, age, key[2]), observed=got,
                                                     required=want, input=[key[0], key[1], val, age, key[2]]), True)
    run.bounded.append(dict(what='real score() with an age on random and near-integer-product marks of every row x 24 ages vs the exact spec',
                            bound='%d calls, seed %d' % (sn, seed), evaluations=sn, distinct_nontrivial=sn, decides='undecided obligations only (second line)'))
    if not sbad:
        run.standin_covers('*/in-subset')
    run.extra['grid_marks_evaluated'] = tot
    run.extra['exhaustive'] = True
    # unknown pairs: no score rather than an error, with and without an age
    a = _a()
    for g, ev in unknown_pairs():
        for age in (None, 40, 20, 120):
            try:
                got = a.score(g, ev, 10.0, age=age)
            except Exception as e:
                got = 'raises %s' % type(e).__name__
            ok = got is None
            name = 'score/unknown-pair-gives-None/%s-%s/age=%s' % (g, ev, age)
            run.record(name, 'ground', 'proved' if ok else 'refuted', 'ground-evaluation', 0.0, 'unknown')
            if not ok:
                run.violation(name, dict(call='athlon_score(%r,%r,10.0,age=%r)' % (g, ev, age), observed=got, required=None,
                                         input=[g, ev, 10.0, age, False]), True)
    # the coefficients themselves: equal to the pinned official table (a typo in A, Z or X is a violation of the formula)
    from specs.athlon_table import OFFICIAL
    cur = {(o['gender'], o['event_code']): (repr(o['A']), repr(o['Z']), repr(o['X'])) for o in a._scoring_table}
    for key, want in sorted(OFFICIAL.items()):
        got = cur.get(key)
        ok = got is not None and tuple(float(x) for x in got) == tuple(float(x) for x in want)
        name = 'coefficients-equal-the-official-table/%s-%s' % key
        run.record(name, 'ground', 'proved' if ok else 'refuted', 'ground-evaluation', 0.0, 'table')
        if not ok:
            R0 = SP.Row(float(want[0]), float(want[1]), float(want[2]), kind_of(key[1]))
            wit = None
            for c in range(0, R0.cmax(), 7):
                try:
                    g_ = a.score(key[0], key[1], c / 100)
                except Exception as e:
                    g_ = 'raises %s' % type(e).__name__
                if g_ != R0.points_exact(c):
                    wit = (c, g_, R0.points_exact(c))
                    break
            run.violation(name, dict(call='athlon_score(%r,%r,%r)' % (key[0], key[1], (wit or (0,))[0] / 100), observed=(wit or (0, got))[1],
                                     required=(wit or (0, 0, list(want)))[2], input=[key[0], key[1], (wit or (0,))[0] / 100, None, False],
                                     official=list(want), in_source=got), wit is not None)
    run.bounded.append(dict(what='power stage: real score() on every centi-mark of every row (no age) vs exact integer formula', bound='complete grid',
                            evaluations=tot, distinct_nontrivial=tot, decides='obligation power-stage-equals-exact-formula (ground, complete)'))
    return run.finish()
