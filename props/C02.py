"""C02 - high jump: only rule-conforming trials are recorded; refusals change nothing.

Under contract: Jumper._set_jump_array (padding loop cut by a quantified invariant), has_retired, ranking_key, place,
cleared, failed, passed, retired; HighJumpCompetition.add_jumper, set_bar_height, check_started, cleared, failed,
passed, retired, remaining, eliminated, _rankj, _rank.

Per public method, per N in {1,2,3} athletes, per competition state, on a SYMBOLIC pre-state (real objects whose
fields are proxies; cards and heights of unbounded symbolic length) satisfying the invariant:
    refused  <=>  the rules forbid the call ; a refusal raises RuleViolation and leaves every field of every object
    and the log unchanged ; an accepted call yields exactly the state the abstract rule machine prescribes (card,
    best, flags, places by countback, competition state), appends exactly itself to the log, preserves the
    invariant, and never moves the state backwards; nothing is accepted in finished/drawn.
By induction over the history this gives the property for every call sequence (N fixed, history unbounded)."""
import sys
from decimal import Decimal

import z3

from pyvc import report, unit as U
from pyvc.core import ctx, OutOfSubset
from pyvc.values import SInt, SBool, SReal, zbool, zint, zreal
from pyvc import hj as H
from pyvc.util import real_module
from specs import highjump as SP
from props import hjcommon as HC

PROP = 'C02'


def RV():
    return real_module('athlib.exceptions').RuleViolation


def card_spec(pre, post_card, Hn, mark):
    """relational spec of the card after an accepted trial"""
    i = z3.Int('cs_i')
    n0 = pre.n
    same = z3.ForAll([i], z3.Implies(z3.And(i >= 0, i < n0, i < Hn - 1), z3.And(z3.Select(post_card.nxA, i) == z3.Select(pre.nxA, i),
                                                                              z3.Select(post_card.tmA, i) == z3.Select(pre.tmA, i))))
    empty = z3.ForAll([i], z3.Implies(z3.And(i >= n0, i < Hn - 1), z3.And(z3.Select(post_card.nxA, i) == 0, z3.Select(post_card.tmA, i) == 0)))
    old_nx = z3.If(n0 < Hn, 0, z3.Select(pre.nxA, Hn - 1))
    new_nx = old_nx + (1 if mark == 'x' else 0)
    new_tm = {'x': 0, 'o': 1, '-': 2, 'r': 3}[mark]
    return z3.And(post_card.n == Hn, same, empty, z3.Select(post_card.nxA, Hn - 1) == new_nx, z3.Select(post_card.tmA, Hn - 1) == new_tm)


def oblige_post_trial(c, name, comp, js, pre_views, snap, state, bi, mark, Hn, bar):
    """accepted trial: post-state = abstract machine"""
    b = js[bi]
    pre = pre_views[bi]
    c.oblige('%s/card-of-the-athlete-as-the-rules-prescribe' % name, card_spec(pre, b.attempts_by_height, Hn, mark), 'post')
    for k, j in enumerate(js):
        if k != bi:
            c.oblige('%s/other-cards-untouched' % name, j.attempts_by_height.same_as(snap['js'][k]['card']), 'frame')
    # scalar effects on the athlete
    if mark == 'o':
        higher = bar > pre.best
        mid = pre.copy(best=z3.If(higher, bar, pre.best), best_idx=z3.If(higher, Hn - 1, pre.best_idx), cf=z3.IntVal(0), done=z3.BoolVal(True))
    elif mark == 'x':
        cf = pre.cf + 1
        mid = pre.copy(cf=cf, out=z3.If(cf >= pre.lim, True, pre.out), done=cf >= pre.lim)
    elif mark == '-':
        mid = pre.copy(done=z3.BoolVal(True))
    else:
        mid = pre.copy(out=z3.BoolVal(True), done=z3.BoolVal(True))
    mids = []
    for k, j in enumerate(js):
        v = mid if k == bi else pre_views[k]
        card = j.attempts_by_height
        mids.append(v.copy(nxA=card.nxA, tmA=card.tmA, n=card.n))
    psums = [j.attempts_by_height.psum for j in js]
    cases, fin = SP.step_rank(state, mids, psums, Hn)
    # competition state
    c.oblige('%s/competition-state-as-the-rules-prescribe' % name,
             z3.And(*[z3.Implies(cond, z3.BoolVal(comp.state == st)) for cond, st in cases]), 'post', meta=dict(state=state, post=comp.state))
    c.oblige('%s/state-never-moves-backwards' % name, SP.ORDER[comp.state] >= SP.ORDER[state], 'post', meta=dict(state=state, post=comp.state))
    for k, (j, want) in enumerate(zip(js, fin)):
        got = HC.jview(j)
        tag = 'the-athlete' if k == bi else 'others'
        c.oblige('%s/places-by-countback(standard-competition-ranking)' % name, got.place == want.place, 'post')
        c.oblige('%s/best-and-flags-of-%s' % (name, tag), z3.And(got.best == want.best, got.best_idx == want.best_idx, got.out == want.out,
                                                               got.done == want.done, got.lim == want.lim, got.cf == want.cf), 'post')
    py_ok = (len(comp.heights.appended) == snap['heights'][2] and len(comp.jumpers) == snap['njumpers'] and comp.jumpers_by_bib == snap['by_bib']
             and sorted(id(x) for x in comp.ranked_jumpers) == sorted(snap['ranked']))
    c.oblige('%s/heights-and-entry-list-untouched' % name, z3.And(z3.BoolVal(py_ok), comp.heights.n == snap['heights'][0],
                                                                   comp.heights.lastv == snap['heights'][1], zreal(comp.bar_height) == snap['bar_height']), 'frame')
    c.oblige('%s/invariant-preserved' % name, HC.inv_comp(comp, js, comp.state), 'invariant', meta=dict(state=state, post=comp.state))


def unit_trial(args):
    m, N, state, bi, perm = args
    JSub, CSub, recs = HC.build_classes()
    mark = HC.TRIALS[m]
    name = 'HighJumpCompetition.%s' % m

    def run():
        c = ctx()
        comp, js = HC.mk_state(JSub, CSub, N, state, perm)
        c.assume(HC.inv_comp(comp, js, state))
        pre_views = [HC.jview(j) for j in js]
        snap = HC.snapshot(comp, js)
        c.extra = (comp, js, pre_views, snap, comp.heights.n, comp.heights.lastv)
        c.called = True
        return getattr(comp, m)(HC.BIBS[bi])

    def post(p, c):
        comp, js, pre_views, snap, Hn, bar = c.extra
        pre = pre_views[bi]
        legal = z3.And(SP.legal_state_for_trial(state, pre.place), SP.legal_jumper_op(pre, Hn))
        if p.outcome == 'exc':
            if isinstance(p.value, RV()):
                c.oblige('%s/refused-only-when-the-rules-forbid' % name, z3.Not(legal), 'post', meta=dict(state=state, msg=str(p.value)[:50]))
                py_ok, fr = HC.frame_unchanged(comp, js, snap)
                c.oblige('%s/refusal-leaves-everything-unchanged' % name, z3.And(z3.BoolVal(py_ok), fr), 'frame', meta=dict(state=state))
            else:
                c.oblige('%s/only-RuleViolation-is-raised' % name, False, 'raises', meta=dict(exc=type(p.value).__name__, msg=str(p.value)[:60], state=state))
            return
        if p.outcome != 'ret':
            return
        c.oblige('%s/accepted-only-when-the-rules-allow' % name, legal, 'post', meta=dict(state=state))
        c.oblige('%s/nothing-accepted-once-finished-or-drawn' % name, state not in ('finished', 'drawn'), 'post')
        c.oblige('%s/log-appended-with-exactly-this-call' % name, comp.actions.appended == [(m, HC.BIBS[bi])], 'post')
        oblige_post_trial(c, name, comp, js, pre_views, snap, state, bi, mark, Hn, bar)

    res = U.verify('%s[N=%d,%s,bib=%s,rank-order=%s]' % (name, N, state, HC.BIBS[bi], ''.join(map(str, perm))), run, post, timeout_ms=30000, feas_timeout_ms=1000,
                   want_sample=(m == 'failed' and N == 1 and state == 'started'))
    for x in res['results']:
        x['ctx'] = dict(m=m, N=N, state=state, bi=bi)
    res['fns'] = [x.describe() for x in recs]
    return res


def unit_bar(args):
    N, state = args
    JSub, CSub, recs = HC.build_classes()
    name = 'HighJumpCompetition.set_bar_height'

    def run():
        c = ctx()
        comp, js = HC.mk_state(JSub, CSub, N, state, tuple(range(N)))
        c.assume(HC.inv_comp(comp, js, state))
        newh = SReal(c.declare_input('new_height', z3.Real('new_height')))
        pre_views = [HC.jview(j) for j in js]
        snap = HC.snapshot(comp, js)
        c.extra = (comp, js, pre_views, snap, comp.heights.n, comp.heights.lastv, newh)
        c.called = True
        return comp.set_bar_height(newh)

    def post(p, c):
        comp, js, pre_views, snap, Hn, bar, newh = c.extra
        prev = z3.If(Hn > 0, bar, 0)
        legal = z3.And(z3.BoolVal(state not in ('finished', 'drawn')), z3.Or(z3.BoolVal(state == 'jumpoff'), newh.t > prev))
        if p.outcome == 'exc':
            if isinstance(p.value, RV()):
                c.oblige('%s/refused-only-when-the-rules-forbid' % name, z3.Not(legal), 'post', meta=dict(state=state))
                py_ok, fr = HC.frame_unchanged(comp, js, snap)
                c.oblige('%s/refusal-leaves-everything-unchanged' % name, z3.And(z3.BoolVal(py_ok), fr), 'frame', meta=dict(state=state, post=comp.state))
            else:
                c.oblige('%s/only-RuleViolation-is-raised' % name, False, 'raises', meta=dict(exc=type(p.value).__name__, msg=str(p.value)[:60]))
            return
        c.oblige('%s/accepted-only-when-the-rules-allow' % name, legal, 'post', meta=dict(state=state))
        want_state = 'started' if state == 'scheduled' else state
        c.oblige('%s/state-as-the-rules-prescribe' % name, comp.state == want_state, 'post', meta=dict(state=state, post=comp.state))
        c.oblige('%s/log-appended-with-exactly-this-call' % name, len(comp.actions.appended) == 1 and comp.actions.appended[0][0] == 'set_bar_height'
                 and comp.actions.appended[0][1] is newh, 'post')
        c.oblige('%s/bar-appended' % name, z3.And(comp.heights.n == Hn + 1, comp.heights.lastv == newh.t, zreal(comp.bar_height) == newh.t), 'post')
        for k, j in enumerate(js):
            pre, got = pre_views[k], HC.jview(j)
            c.oblige('%s/athletes-still-in-may-jump-again,nothing-else-changes' % name,
                     z3.And(j.attempts_by_height.same_as(snap['js'][k]['card']), got.done == z3.If(pre.out, pre.done, False), got.out == pre.out,
                            got.best == pre.best, got.best_idx == pre.best_idx, got.lim == pre.lim, got.cf == pre.cf, got.place == pre.place), 'post')
        c.oblige('%s/invariant-preserved' % name, HC.inv_comp(comp, js, comp.state), 'invariant', meta=dict(state=state, post=comp.state))

    res = U.verify('%s[N=%d,%s]' % (name, N, state), run, post, timeout_ms=30000, want_sample=False)
    for x in res['results']:
        x['ctx'] = dict(m='set_bar_height', N=N, state=state, bi=None)
    res['fns'] = [x.describe() for x in recs]
    return res


def unit_add(args):
    N, state, dup = args
    JSub, CSub, recs = HC.build_classes()
    name = 'HighJumpCompetition.add_jumper'

    def run():
        c = ctx()
        comp, js = HC.mk_state(JSub, CSub, N, state, tuple(range(N)))
        c.assume(HC.inv_comp(comp, js, state))
        snap = HC.snapshot(comp, js)
        c.extra = (comp, js, snap)
        c.called = True
        bib = HC.BIBS[0] if (dup and N > 0) else 'Z'
        return comp.add_jumper(bib=bib, first_name='Zed')

    def post(p, c):
        comp, js, snap = c.extra
        fresh = not (dup and N > 0)
        legal = state == 'scheduled' and fresh
        if p.outcome == 'exc':
            if isinstance(p.value, RV()):
                c.oblige('%s/refused-only-when-the-rules-forbid' % name, not legal, 'post', meta=dict(state=state))
                py_ok, fr = HC.frame_unchanged(comp, js, snap)
                c.oblige('%s/refusal-leaves-everything-unchanged' % name, z3.And(z3.BoolVal(py_ok), fr), 'frame')
            else:
                c.oblige('%s/only-RuleViolation-is-raised' % name, False, 'raises', meta=dict(exc=type(p.value).__name__, msg=str(p.value)[:60]))
            return
        c.oblige('%s/accepted-only-before-the-first-bar-with-a-fresh-bib' % name, legal, 'post', meta=dict(state=state))
        ok = (len(comp.jumpers) == N + 1 and comp.jumpers[-1].bib == 'Z' and comp.jumpers_by_bib.get('Z') is comp.jumpers[-1]
              and comp.ranked_jumpers[-1] is comp.jumpers[-1] and comp.jumpers[:N] == js and comp.state == state
              and comp.actions.appended == [('add_jumper', dict(bib='Z', first_name='Zed'))])
        nj = comp.jumpers[-1] if len(comp.jumpers) == N + 1 else None
        ok = ok and nj is not None and nj.attempts_by_height == [] and nj._place == N + 1 and not nj.eliminated and not nj.dismissed \
            and nj.round_lim == 3 and nj.consecutive_failures == 0 and nj.highest_cleared_index == -1 and nj.highest_cleared == 0
        c.oblige('%s/new-athlete-with-an-empty-card-last-place-and-logged' % name, ok, 'post')
        py_ok, fr = HC.frame_unchanged(comp, js, dict(snap, nact=len(comp.actions.appended), njumpers=len(comp.jumpers), by_bib=comp.jumpers_by_bib,
                                                      ranked=[id(x) for x in comp.ranked_jumpers]))
        c.oblige('%s/others-untouched' % name, z3.And(z3.BoolVal(py_ok), fr), 'frame')

    res = U.verify('%s[N=%d,%s,%s]' % (name, N, state, 'same-bib' if dup else 'new-bib'), run, post, want_sample=False)
    for x in res['results']:
        x['ctx'] = dict(m='add_jumper', N=N, state=state, bi=None)
    res['fns'] = [x.describe() for x in recs]
    return res


def unit_init(args):
    """constructor establishes the invariant (concrete)"""
    hj = real_module('athlib.highjump')
    c = hj.HighJumpCompetition()
    ok = (c.state == 'scheduled' and c.heights == [] and c.jumpers == [] and c.actions == [] and c.bar_height == 0 and c.ranked_jumpers == []
          and c.jumpers_by_bib == {})
    j = hj.Jumper(bib='A')
    ok = ok and j.attempts_by_height == [] and not j.eliminated and not j.dismissed and j.round_lim == 3 and j.consecutive_failures == 0 \
        and j.highest_cleared_index == -1 and j.highest_cleared == 0
    return dict(unit='constructors', paths=1, stats={}, outcomes={}, assumptions=[], sample=None, wall=0.0, fns=[],
                results=[dict(name='HighJumpCompetition.__init__/establishes-the-invariant', kind='invariant', verdict='proved' if ok else 'refuted',
                              backend='ground-evaluation', time=0.0, model=None, ctx=dict(m='__init__', N=0, state='scheduled', bi=None))])


UNITS = {'trial': unit_trial, 'bar': unit_bar, 'add': unit_add, 'init': unit_init}


def _work(job):
    r = UNITS[job[0]](job[1])
    r['job'] = job
    return r


def jobs(tier, Ns=None):
    Ns = Ns or ((1, 2) if tier == 'quick' else (1, 2, 3))
    J = [('init', ())]
    for N in Ns:
        for state in SP.STATES:
            J.append(('bar', (N, state)))
            J.append(('add', (N, state, False)))
            J.append(('add', (N, state, True)))
            for m in HC.TRIALS:
                for bi in range(N):
                    J.append(('trial', (m, N, state, bi, tuple(range(N)))))
    J.append(('add', (0, 'scheduled', False)))
    if tier == 'quick' and 3 not in Ns:
        # three athletes: the richest cases only (all of N=3 in the thorough tier)
        for m in ('failed', 'cleared'):
            for state in ('started', 'jumpoff'):
                J.append(('trial', (m, 3, state, 0, (0, 1, 2))))
    return J


# ---------------------------------------------------------------------------- replay: history search on the real code
def find_history(pred, max_len=9, N=2, budget=400000):
    """BFS over call sequences of the real class for a history after which `pred(comp, call)` finds a violation"""
    hj = real_module('athlib.highjump')
    RVc = RV()
    import collections
    alphabet = []
    for b in HC.BIBS[:N]:
        for m in ('cleared', 'failed', 'passed', 'retired'):
            alphabet.append((m, b))
    bars = [Decimal('2.00'), Decimal('2.05'), Decimal('1.95'), Decimal('0')]

    def replay(hist):
        c = hj.HighJumpCompetition()
        for b in HC.BIBS[:N]:
            c.add_jumper(bib=b)
        for a, v in hist:
            try:
                getattr(c, a)(v)
            except RVc:
                pass
        return c

    def obs(c):
        return (c.state, tuple(c.heights), tuple((tuple(j.attempts_by_height), j.highest_cleared, j.eliminated, j.dismissed, j.round_lim,
                                                 j.consecutive_failures, j._place) for j in c.jumpers))
    seen = set()
    q = collections.deque([()])
    n = 0
    while q and n < budget:
        h = q.popleft()
        c = replay(h)
        o = obs(c)
        if o in seen:
            continue
        seen.add(o)
        calls = alphabet + [('set_bar_height', x) for x in bars] + [('add_jumper', 'Z')]
        for call in calls:
            n += 1
            w = pred(replay(h), call)
            if w:
                return list(h) + [call], w
        if len(h) < max_len:
            for call in alphabet + [('set_bar_height', x) for x in bars[:3]]:
                q.append(h + (call,))
    return None, None


def observe(c):
    return dict(state=c.state, heights=[str(x) for x in c.heights], bar=str(c.bar_height), log=len(c.actions),
                jumpers=[dict(bib=j.bib, card=list(j.attempts_by_height), best=str(j.highest_cleared), idx=j.highest_cleared_index, out=j.eliminated,
                              done=j.dismissed, lim=j.round_lim, cf=j.consecutive_failures, place=j._place) for j in c.jumpers])


def pred_refusal_frame(c, call):
    RVc = RV()
    before = observe(c)
    try:
        if call[0] == 'add_jumper':
            c.add_jumper(bib=call[1])
        else:
            getattr(c, call[0])(call[1])
    except RVc:
        after = observe(c)
        if after != before:
            return dict(before=before, after=after, what='refused call changed the competition')
    except KeyError:
        return None
    except Exception as e:
        return dict(before=before, what='raised %s instead of RuleViolation' % type(e).__name__)
    return None


def concretise(r):
    """a refuted per-method obligation -> a concrete history on which the real class departs from the rules (bounded
    breadth-first search in lock-step with the executable rule machine)"""
    from specs import highjump_machine as M
    hj = real_module('athlib.highjump')
    cx = r.get('ctx', {})
    for N, depth, budget in ((1, 7, 40000), (2, 6, 150000), (3, 5, 150000)):
        if cx.get('N') and N > max(cx['N'], 2):
            break
        hist, d = M.search(hj.HighJumpCompetition, RV(), N=N, max_len=depth, budget=budget)
        if hist is not None:
            hs = [(a, str(v)) for a, v in hist]
            return dict(call='%d athlete(s); history %r' % (N, hs), observed=d, required='the behaviour the rules prescribe',
                        input=['history', N, hs]), True
    return dict(call='no concrete history found within the search bound', model=r.get('model'), meta=r.get('meta'), input=['none']), False


def replay(rep):
    from specs import highjump_machine as M
    hj = real_module('athlib.highjump')
    if rep['input'][0] != 'history':
        print('no concrete history in this replay file; obligation %s (solver output kept in the file)' % rep['obligation'])
        return 1
    _, N, hist = rep['input']
    real, mach = hj.HighJumpCompetition(), M.Machine()
    for b in HC.BIBS[:N]:
        real.add_jumper(bib=b)
        mach.add(b)
    d = None
    for a, v in hist:
        d = M.apply_both(real, mach, (a, Decimal(v) if a == 'set_bar_height' else v), RV())
        if d:
            break
    print('replay %s: %d athletes, history %r -> %r' % (rep['obligation'], N, hist, d))
    print('VIOLATION reproduced' if d else 'not reproduced on this tree')
    return 1 if d else 0


def run_jobs(run, J, conc=None):
    results = report.pool_map(_work, J)
    cache = {}
    for res in results:
        if '_crash' in res:
            U.absorb(run, res)
            continue
        for d in res['fns']:
            run.add_function(d)

        def on_refuted(r, _res):
            key = r['name']
            if key not in cache:
                cache[key] = (conc or concretise)(r)
            rep, bad = cache[key]
            rep = dict(rep, model=r.get('model'), unit=_res['unit'], solver='z3 sat', meta=r.get('meta'))
            e = run.match_known(r['name'], dict(r.get('ctx', {}), **(r.get('meta') or {})))
            if e:
                run.known_finding(e)
            else:
                run.violation(r['name'], rep, bad)
        U.absorb(run, res, on_refuted)


def _lock(args):
    from specs import highjump_machine as M
    hj = real_module('athlib.highjump')
    N, depth, budget = args
    hist, d = M.search(hj.HighJumpCompetition, RV(), N=N, max_len=depth, budget=budget)
    return N, depth, budget, ([(a, str(v)) for a, v in hist] if hist is not None else None), d


def lockstep_standin(run, tier):
    """bounded second line on the real class: breadth-first call sequences in lock-step with the executable rule machine
    (decides undecided obligations; also validates the machine against the code)"""
    cfg = [(1, 7, 30000), (2, 6, 60000), (3, 4, 40000)] if tier == 'quick' else [(1, 9, 200000), (2, 8, 600000), (3, 6, 600000), (4, 5, 400000)]
    found = False
    tot = 0
    for r in report.pool_map(_lock, cfg):
        if isinstance(r, dict):
            run.checker_error(r['_crash'])
            continue
        N, depth, budget, hist, d = r
        tot += budget
        if hist is not None:
            found = True
            run.violation('standin/real-class-in-lock-step-with-the-rules', dict(call='%d athlete(s); history %r' % (N, hist), observed=d,
                                                                                 required='the behaviour the rules prescribe', input=['history', N, hist]), True)
    run.bounded.append(dict(what='real HighJumpCompetition in lock-step with the executable rule machine, breadth-first over call sequences '
                                 '(deduplicated on the observable state)', bound='%r = (athletes, depth, call budget)' % (cfg,), evaluations=tot,
                            distinct_nontrivial=tot, decides='undecided obligations only (second line)'))
    if not found:
        run.standin_covers('*/in-subset')


def main(tier, seed):
    run = report.Run(PROP, tier, seed)
    run.expected_min_obligations = 500
    run.explanation = __doc__
    run.assume('pyvc proxies/rewrites; heap = real objects with proxy fields; cards = <arrays, symbolic length>, cells x*[o-r]?',
               'z3 soundness (arrays + quantified card clauses)', 'N athletes fixed per instance (1..3); history length and number of heights unbounded',
               'induction over the call history: invariant established by the constructors and preserved by every accepted call (meta-argument)',
               'bibs are those of athletes in the competition (an unknown bib raises KeyError: outside "every bib" as we read it)',
               'list.sort is a stable sort by the key (native, forks on symbolic comparisons)')
    run_jobs(run, jobs(tier))
    lockstep_standin(run, tier)
    return run.finish()
