"""C03 - high jump: final placings follow the countback rule and the jump-off result.

Symbolic (same harness as C02, real objects with proxy fields, unbounded cards/heights, N fixed):
  * after every accepted trial  places = 1 + number of athletes with a strictly better countback key  (standard
    competition ranking, ties share), the key being (status, -best, failures at the best height, failures up to and
    including it) read from the card at the index of the best;  best' = max(best, bar)  ("the best is the greatest
    height ever cleared": by induction from 0);
  * Jumper.ranking_key / place against their contracts (key of the card; unplaced iff no clearance);
  * whenever the post-state is `finished` exactly one athlete is first; `drawn` only when everybody tied for first has
    retired; `jumpoff` only with at least two tied for first and nobody left.
Bounded (labelled so): complete competitions on the real class (2-3 athletes, up to 4 regular + 3 jump-off heights,
bar raised / repeated / lowered) checked at their terminal state against placings recomputed from the result cards
alone (P1-P4 below) - the link "terminal state -> cards alone" that needs the history of the jump-off."""
import random
from decimal import Decimal

import z3

from pyvc import report, unit as U
from pyvc.core import ctx
from pyvc.values import SInt, SBool, SReal, zbool, zint, zreal
from pyvc.util import real_module
from specs import highjump as SP
from props import hjcommon as HC, C02

PROP = 'C03'


def unit_key(args):
    """Jumper.ranking_key and Jumper.place on a symbolic athlete"""
    JSub, CSub, recs = HC.build_classes()

    def run():
        c = ctx()
        comp, js = HC.mk_state(JSub, CSub, 1, 'started', (0,))
        c.assume(HC.inv_comp(comp, js, 'started'))
        j = js[0]
        c.extra = (j, HC.jview(j))
        c.called = True
        return j.ranking_key, j.place

    def post(p, c):
        j, v = c.extra
        if p.outcome != 'ret':
            c.oblige('Jumper.ranking_key/no-exception', False, 'raises', meta=dict(exc=repr(p.value)[:80]))
            return
        key, place = p.value
        want = SP.key_of(v, j.attempts_by_height.psum)
        got = [zint(key[0]), zreal(key[1]), zint(key[2]), zint(key[3])]
        c.oblige('Jumper.ranking_key/is-the-countback-key-of-the-card', z3.And(*[a == b for a, b in zip(got, want)]), 'post')
        if isinstance(place, str):
            c.oblige('Jumper.place/unplaced-exactly-without-a-clearance', z3.And(z3.BoolVal(place == ''), v.best_idx < 0), 'post')
        else:
            c.oblige('Jumper.place/unplaced-exactly-without-a-clearance', z3.And(v.best_idx >= 0, zint(place) == v.place), 'post')

    res = U.verify('Jumper.ranking_key/place', run, post)
    res['fns'] = [x.describe() for x in recs]
    for x in res['results']:
        x['ctx'] = dict(m='ranking_key', N=1, state='started', bi=0)
    return res


def unit_terminal(args):
    """consequences of the rule machine's ranking step at the states it can produce (pure lemma over symbolic views)"""
    N, state = args
    from pyvc.core import Ctx, Obligation, discharge
    c = Ctx()
    Ctx.current = c
    out = []
    try:
        JSub, CSub, recs = HC.build_classes()
        comp, js = HC.mk_state(JSub, CSub, N, state, tuple(range(N)))
        Hn = comp.heights.n
        vs = [HC.jview(j) for j in js]
        c.assume(z3.And(*[SP.inv_jumper(v, Hn) for v in vs]))
        c.assume(Hn >= 1)
        cases, fin = SP.step_rank(state, vs, [j.attempts_by_height.psum for j in js], Hn)
        nfirst = z3.Sum([z3.If(f.place == 1, 1, 0) for f in fin]) if N > 1 else z3.IntVal(1)
        nrem = z3.Sum([z3.If(f.out, 0, 1) for f in fin]) if N > 1 else z3.If(fin[0].out, 0, 1)
        for cond, st in cases:
            goals = []
            if st == 'finished':
                goals.append(('a-finished-competition-has-exactly-one-first', nfirst == 1))
                goals.append(('finished-leaves-at-most-one-athlete-in', nrem <= 1))
            if st == 'drawn':
                goals.append(('drawn-only-when-all-tied-for-first-have-retired', z3.And(nfirst >= 2, *[z3.Implies(f.place == 1, f.has_retired()) for f in fin])))
            if st == 'jumpoff' and state != 'jumpoff':
                goals.append(('a-jump-off-starts-only-on-a-tie-for-first', nfirst >= 2))
            for nm, g in goals:
                ob = Obligation('rule-machine/%s' % nm, 'lemma', list(c.pc) + [cond], g)
                r = discharge(ob, c.inputs, 20000)
                r.pop('_z3model', None)
                r.pop('_solver', None)
                r['ctx'] = dict(m='_rank', N=N, state=state, bi=None)
                out.append(r)
    finally:
        Ctx.current = None
    return dict(unit='rule-machine ranking step[N=%d,%s]' % (N, state), paths=1, stats={}, outcomes={}, assumptions=[], sample=None, wall=0.0,
                fns=[], results=out)


# ---------------------------------------------------------------------------- bounded: terminal states vs cards alone
def card_key(card, heights):
    """countback key from the card and the bar heights alone"""
    best, idx = None, -1
    for i, (cell, h) in enumerate(zip(card, heights)):
        if 'o' in cell and (best is None or h > best):
            best, idx = h, i
    if idx < 0:
        return None
    return (-best, card[idx].count('x'), sum(c.count('x') for c in card[:idx + 1]))


def check_terminal(c):
    """P1-P4 on a terminal competition; returns a description of the first violation or None"""
    hs = list(c.heights)
    js = c.jumpers
    keys = {j.bib: card_key(j.attempts_by_height, hs) for j in js}
    for j in js:
        k = keys[j.bib]
        want_best = -k[0] if k else Decimal('0.00')
        if j.highest_cleared != want_best:
            return 'best of %s is %s, greatest height cleared on the card is %s' % (j.bib, j.highest_cleared, want_best)
        if (j.place == '') != (k is None):
            return 'athlete %s: place %r but %s' % (j.bib, j.place, 'no clearance' if k is None else 'has a clearance')
    placed = [j for j in js if keys[j.bib] is not None]
    firsts = [j for j in placed if j.place == 1]
    if c.state == 'finished' and placed and len(firsts) != 1:
        return 'finished with %d athletes in first place' % len(firsts)
    if c.state == 'drawn' and not all(j.attempts_by_height and j.attempts_by_height[-1].endswith('r') for j in firsts):
        return 'drawn although a tied athlete has not retired'
    for a in placed:
        for b in placed:
            ka, kb = keys[a.bib], keys[b.bib]
            if ka < kb and not a.place < b.place:
                return '%s has the better card (%r vs %r) but place %r vs %r' % (a.bib, ka, kb, a.place, b.place)
            if ka == kb and a.place != b.place and not (c.state == 'finished' and 1 in (a.place, b.place)):
                return '%s and %s have equal cards but places %r and %r' % (a.bib, b.bib, a.place, b.place)
    # standard competition ranking
    ps = sorted(j.place for j in placed)
    for i, p in enumerate(ps):
        if p != 1 + sum(1 for q in ps if q < p):
            return 'places %r are not a standard competition ranking' % ps
    return None


def random_competition(rnd, N, hj, RVc):
    c = hj.HighJumpCompetition()
    bibs = HC.BIBS[:N]
    for b in bibs:
        c.add_jumper(bib=b)
    hist = []
    h = Decimal('2.00')
    nreg = rnd.randint(1, 4)
    njo = 0
    for step in range(60):
        if c.state in ('finished', 'drawn'):
            break
        if c.state == 'jumpoff':
            if njo >= 3:
                break
            njo += 1
            h = h + rnd.choice([Decimal('-0.02'), Decimal('0'), Decimal('0.02'), Decimal('-0.06')])
        else:
            if len(c.heights) >= nreg and c.state == 'started':
                # no more regular heights: everybody still in retires or fails out
                pass
            h = (c.heights[-1] if c.heights else Decimal('1.95')) + Decimal('0.05')
        if c.heights and c.state != 'jumpoff' and rnd.random() < 0.3:
            # a request the rules refuse (the bar cannot come down outside a jump-off): part of a legal history, changes nothing
            low = c.heights[-1] - rnd.choice([Decimal('0.01'), Decimal('0.05'), Decimal('0.10')])
            try:
                c.set_bar_height(low)
                hist.append(('set_bar_height', str(low)))
            except RVc:
                hist.append(('set_bar_height', str(low)))
        try:
            c.set_bar_height(h)
            hist.append(('set_bar_height', str(h)))
        except RVc:
            break
        # every athlete still in attempts (or passes/retires) until done with this height
        for rounds in range(3):
            for b in bibs:
                j = c.jumpers_by_bib[b]
                if j.eliminated or j.dismissed:
                    continue
                if c.state in ('finished', 'drawn'):
                    break
                m = rnd.choices(['cleared', 'failed', 'passed', 'retired'], weights=[4, 5, 1 if c.state != 'jumpoff' else 0, 1])[0]
                if len(c.heights) > nreg and c.state == 'started':
                    m = rnd.choice(['failed', 'failed', 'retired', 'cleared'])
                try:
                    getattr(c, m)(b)
                    hist.append((m, b))
                except RVc:
                    pass
    return c, hist


def tied_competition(rnd, N, hj, RVc):
    """complete competitions built to END IN A JUMP-OFF: the first k >= 2 athletes copy one card over the regular heights and all
    fail out together (tied for first), the others jump at random; then up to 4 jump-off rounds (bar raised, repeated or
    lowered) in which every participant attempts or retires at each height"""
    c = hj.HighJumpCompetition()
    bibs = HC.BIBS[:N]
    for b in bibs:
        c.add_jumper(bib=b)
    hist = []

    def do(m, *a):
        try:
            getattr(c, m)(*a)
            hist.append((m, str(a[0])))
            return True
        except RVc:
            return False
    k = rnd.randint(2, N)
    nreg = rnd.randint(1, 3)
    h = Decimal('1.95')
    cells = [rnd.choice(['o', 'xo', 'xxo', '-', 'x-']) for _ in range(nreg)] + ['xxx']
    for hi, cell in enumerate(cells):
        h += Decimal('0.05')
        if not do('set_bar_height', h):
            return c, hist
        others = {b: rnd.choice(['o', 'xo', 'xxo', 'xxx', '-', 'x-', 'xx-', 'r', 'xr']) for b in bibs[k:]}
        for t in range(3):
            for i, b in enumerate(bibs):
                cl = cell if i < k else others[b]
                if t < len(cl):
                    do({'o': 'cleared', 'x': 'failed', '-': 'passed', 'r': 'retired'}[cl[t]], b)
    for rnd_no in range(4):
        if c.state != 'jumpoff':
            break
        h = h + rnd.choice([Decimal('-0.02'), Decimal('0'), Decimal('0.02'), Decimal('-0.04')])
        if not do('set_bar_height', h):
            break
        for b in bibs:
            j = c.jumpers_by_bib[b]
            if c.state != 'jumpoff' or j.eliminated or j.dismissed:
                continue
            do(rnd.choices(['cleared', 'failed', 'retired'], weights=[5, 5, 1])[0], b)
    return c, hist


def standin_chunk(args):
    seed, n, N = args
    rnd = random.Random(seed)
    hj = real_module('athlib.highjump')
    RVc = C02.RV()
    bad = []
    term = 0
    states = {}
    for it in range(n):
        c, hist = (tied_competition if (it % 2 and N >= 2) else random_competition)(rnd, N, hj, RVc)
        states[c.state] = states.get(c.state, 0) + 1
        if c.state in ('finished', 'won', 'drawn'):
            term += 1
            w = check_terminal(c)
            if w:
                bad.append((N, hist, w))
                if len(bad) >= 2:
                    break
    return term, states, bad


DIRECTED = [
    # tie at 2.00, C has 1.95; jump-off 2.05 xx, 1.94 oo, 1.96 A o / B x
    (3, [('set_bar_height', '1.95'), ('cleared', 'A'), ('cleared', 'B'), ('cleared', 'C'), ('set_bar_height', '2.00'), ('cleared', 'A'), ('cleared', 'B'),
         ('failed', 'C'), ('failed', 'C'), ('failed', 'C'), ('set_bar_height', '2.05'), ('failed', 'A'), ('failed', 'B'), ('failed', 'A'), ('failed', 'B'),
         ('failed', 'A'), ('failed', 'B'), ('set_bar_height', '2.05'), ('failed', 'A'), ('failed', 'B'), ('set_bar_height', '1.94'), ('cleared', 'A'),
         ('cleared', 'B'), ('set_bar_height', '1.96'), ('cleared', 'A'), ('failed', 'B')]),
]


def run_hist(N, hist):
    hj = real_module('athlib.highjump')
    c = hj.HighJumpCompetition()
    for b in HC.BIBS[:N]:
        c.add_jumper(bib=b)
    for a, v in hist:
        try:
            getattr(c, a)(Decimal(v) if a == 'set_bar_height' else v)
        except C02.RV():
            pass
    return c


def replay(rep):
    if rep['input'][0] == 'terminal':
        _, N, hist = rep['input']
        c = run_hist(N, [tuple(x) for x in hist])
        w = check_terminal(c) if c.state in ('finished', 'won', 'drawn') else None
        print('replay %s: %d athletes, %d calls, state %s -> %r' % (rep['obligation'], N, len(hist), c.state, w))
        print('VIOLATION reproduced' if w else 'not reproduced on this tree')
        return 1 if w else 0
    return C02.replay(rep)


def _work(job):
    if job[0] == 'key':
        r = unit_key(job[1])
    elif job[0] == 'term':
        r = unit_terminal(job[1])
    elif job[0] == 'standin':
        return ('standin', standin_chunk(job[1]))
    else:
        r = C02.UNITS[job[0]](job[1])
    r['job'] = job
    return r


def main(tier, seed):
    run = report.Run(PROP, tier, seed)
    run.expected_min_obligations = 500
    run.level_claim = 'other'
    run.explanation = __doc__
    run.assume('pyvc proxies/rewrites; heap = real objects with proxy fields', 'z3 soundness', 'N athletes fixed per instance',
               'induction over the history (best = greatest height cleared; invariant) is the meta-argument',
               'the terminal-state clause "places from the cards alone incl. the jump-off" is checked by the bounded stand-in, not proved')
    J = [('key', ())]
    for N in (1, 2, 3):
        for state in ('started', 'jumpoff', 'won'):
            J.append(('term', (N, state)))
    for N in (1, 2):
        for state in ('started', 'jumpoff', 'won'):
            for m in HC.TRIALS:
                for bi in range(N):
                    J.append(('trial', (m, N, state, bi, tuple(range(N)))))
    for m in ('failed', 'cleared', 'retired'):
        J.append(('trial', (m, 3, 'jumpoff', 0, (0, 1, 2))))
    # the bar: best' = max(best, bar) is only as good as "the bar is the height last set": set_bar_height must establish it and
    # a REFUSED request must leave the bar (and everything else) alone - a refused call is part of a legal history
    for N in (1, 2):
        for state in HC.STATES if hasattr(HC, 'STATES') else ('scheduled', 'started', 'jumpoff', 'won', 'finished', 'drawn'):
            J.append(('bar', (N, state)))
    n_each = 1500 if tier == 'quick' else 20000
    J += [('standin', (seed * 1000 + i, n_each // 8, N)) for i in range(8) for N in (2, 3)]
    results = report.pool_map(_work, J)
    cache = {}
    term = 0
    states = {}
    for res in results:
        if isinstance(res, tuple):
            t, st, bad = res[1]
            term += t
            for k, v in st.items():
                states[k] = states.get(k, 0) + v
            for N, hist, w in bad[:1]:
                run.violation('standin/terminal-places-from-the-cards-alone', dict(call='%d athletes, history %r' % (N, hist), observed=w,
                                                                                   input=['terminal', N, hist]), True)
            continue
        if '_crash' in res:
            U.absorb(run, res)
            continue
        for d in res['fns']:
            run.add_function(d)

        def on_refuted(r, _res):
            key = r['name']
            if key not in cache:
                cache[key] = C02.concretise(r)
            rep, bad = cache[key]
            run.violation(r['name'], dict(rep, model=r.get('model'), unit=_res['unit'], solver='z3 sat', meta=r.get('meta')), bad)
        U.absorb(run, res, on_refuted)
    for N, hist in DIRECTED:
        c = run_hist(N, hist)
        w = check_terminal(c) if c.state in ('finished', 'won', 'drawn') else 'directed history did not reach a terminal state (%s)' % c.state
        run.record('directed/jump-off-with-a-lowered-bar', 'ground', 'refuted' if w else 'proved', 'ground-evaluation', 0.0, 'directed')
        if w:
            run.violation('directed/jump-off-with-a-lowered-bar', dict(call='%d athletes, history %r' % (N, hist), observed=w, input=['terminal', N, hist]), True)
    run.bounded.append(dict(what='complete random competitions on the real class (2-3 athletes, <=4 regular + <=3 jump-off heights, bar raised/repeated/'
                                 'lowered), terminal placings vs placings recomputed from the cards alone', bound='%d competitions, %d terminal; states %r; seed %d'
                            % (n_each * 2, term, states, seed), evaluations=n_each * 2, distinct_nontrivial=term, decides='the terminal-state clause (bounded)'))
    return run.finish()
