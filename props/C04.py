"""C04 - event-code families: unions exact, measurement kinds disjoint.

Under contract: the module-level pattern constructions of athlib/codes.py, read from the imported module
(the compiled objects the library uses), and the first-match classifiers athlon_score.unit_name and
AgeGrader.event_code_to_kind (explored symbolically on an opaque string).  Every obligation is a
regular-language (in)equivalence over all strings, no length bound, decided by z3's regex solver."""
import random
import re
import time

import z3

from pyvc import report, regex2smt as R
from pyvc.core import ctx, explore
from pyvc.instrument import instrument
from pyvc.strings import SOpaqueStr, SymPattern

PROP = 'C04'

FAMILIES = ['PAT_TRACK', 'PAT_HURDLES', 'PAT_ROAD', 'PAT_RELAYS', 'PAT_JUMPS', 'PAT_THROWS', 'PAT_MULTI',
            'PAT_RACES_FOR_DISTANCE', 'PAT_HIGHSCORING_EVENT', 'PAT_LOWSCORING_EVENT']
COMPOSITES = {
    'PAT_EVENT_CODE': FAMILIES,
    'PAT_RUN': ['PAT_TRACK', 'PAT_ROAD', 'PAT_RELAYS'],
    'PAT_FIELD': ['PAT_THROWS', 'PAT_JUMPS'],
    'PAT_JUMPS': ['PAT_VERTICAL_JUMPS', 'PAT_HORIZONTAL_JUMPS'],
    'PAT_LENGTH_EVENT': ['PAT_HORIZONTAL_JUMPS', 'PAT_THROWS'],
    'PAT_TIMED_EVENT': ['PAT_TRACK', 'PAT_HURDLES', 'PAT_ROAD', 'PAT_RELAYS'],
    'PAT_FINISH_RECORD': ['PAT_PERF', 'PAT_FINISHED', 'PAT_NOT_FINISHED'],
}
KINDS = {'timed': 'PAT_TIMED_EVENT', 'field': 'PAT_FIELD', 'multi': 'PAT_MULTI', 'fixed-duration': 'PAT_RACES_FOR_DISTANCE'}
# measurement unit of each classifier answer (spec, from the property text)
UNIT_OF = {'metres': 'length', 'seconds': 'time', 'throw': 'length', 'jump': 'length', 'track': 'time', 'road': 'time'}


def codes():
    import athlib.codes as c
    return c


def pat(name):
    p = getattr(codes(), name)
    if isinstance(p, str):
        p = re.compile(p)
    return p


def L(name):
    return R.lang(pat(name))


# ---------------------------------------------------------------------------- jobs (each a module-level worker)
def job_subset(args):
    kind, name, parts, direction = args
    t0 = time.time()
    whole = L(name)
    union = R._union(L(p) for p in parts)
    if direction == 'whole<=parts':
        v, w = R.subset(whole, union)
    else:
        v, w = R.subset(union, whole)
    return dict(name='%s/%s' % (name, direction), kind='language-inclusion', verdict=v, witness=w, time=time.time() - t0,
                args=args)


def job_disjoint(args):
    kind, a, b = args
    t0 = time.time()
    v, w = R.disjoint(L(a), L(b))
    return dict(name='disjoint/%s/%s' % (a, b), kind='language-disjointness', verdict=v, witness=w, time=time.time() - t0, args=args)


def _work(args):
    from pyvc.core import OutOfSubset
    try:
        if args[0] == 'subset':
            return job_subset(args)
        return job_disjoint(args)
    except OutOfSubset as e:
        nm = ('%s/%s' % (args[1], args[3])) if args[0] == 'subset' else 'disjoint/%s/%s' % (args[1], args[2])
        return dict(name=nm, kind='language', verdict='unknown', witness=None, time=0.0, args=args, detail='pattern outside the translated subset: %s' % e)


# ---------------------------------------------------------------------------- classifiers
def classifier_chain(func, patnames, argname='code'):
    """explore the real first-match classifier on an opaque string; returns [(last positive pattern, answer)] and
    the instrumented-function record"""
    c = codes()
    shadows = {n: SymPattern(getattr(c, n), n) for n in patnames}
    f = instrument(func, shadows=shadows)

    def run():
        s = SOpaqueStr.fresh('code')
        return f(s)
    paths, stats = explore(run)
    chain = []
    for p in paths:
        pos = [n for k, n in p.notes if k == 'match']
        if p.outcome == 'ret':
            chain.append((pos[-1] if pos else None, p.value))
        elif p.outcome == 'exc':
            chain.append((pos[-1] if pos else None, 'raises ' + type(p.value).__name__))
        elif 'a proxy reached code outside the encoding' in str(p.value):
            # the classifier went on to a pattern that is not among the listed ones (left un-shadowed on purpose): its further
            # answers are not part of this chain
            chain.append((None, 'continues beyond the listed families'))
        else:
            chain.append((None, 'OOS %s' % p.value))
    return chain, f, stats


# ---------------------------------------------------------------------------- translator validation
def validate_translator(run, seed):
    """every run: strings from each language and its complement (solver models, mutated models, one
    representative per code-point class) compared with the real re engine; disagreement = checker error"""
    rnd = random.Random(seed)
    names = sorted(set(FAMILIES) | set(COMPOSITES) | {'PAT_PERF', 'PAT_FINISHED', 'PAT_NOT_FINISHED', 'PAT_VERTICAL_JUMPS',
                                                        'PAT_HORIZONTAL_JUMPS', 'PAT_LONG_SECONDS'})
    reps = ['0', '5', '9', 'a', 'H', 'h', 'x', 'X', ' ', '\t', '\n', '\x0b', '\x1c', '\x85', '\xa0', '٠', '३', ' ',
            '　', '５', '\U0001d7d8', '.', ':', 'K', 'k', 'g', 'm', 'c', '²', 'M', 'I', 'L', 'E']
    n = 0
    bad = 0
    pool = set()
    for nm in names:
        p = pat(nm)
        try:
            l = R.lang(p)
        except BaseException as e:
            if type(e).__name__ != 'OutOfSubset':
                raise
            continue                # outside the translated subset: its obligations are already undecided
        for k in range(3):
            v, w = R.witness_in(l, 5000, (lambda x, k=k: z3.Length(x) >= k + 1))
            if v == 'sat':
                pool.add(R.unescape(w))
            v, w = R.witness_in(z3.Complement(l), 5000, (lambda x, k=k: z3.Length(x) == k + 1))
            if v == 'sat':
                pool.add(R.unescape(w))
    base = list(pool) + ['100', '110H', '4x100', 'SC', 'MILE', '2MILE', 'DT1.5K', 'JT800g', 'H1', 'L9', 'T30', '24HR', 'HEP', '10K',
                         '12:34.5', 'DNF', 'NT', 'SST', 'sst', 'sWt', '110H91.4cm9.14m8.5m', '5.3M', 'XC', 'HM', '4xSDMR']
    for s in base:
        pool.add(s)
        for _ in range(6):
            t = list(s)
            if t and rnd.random() < 0.5:
                t[rnd.randrange(len(t))] = rnd.choice(reps)
            else:
                t.insert(rnd.randrange(len(t) + 1), rnd.choice(reps))
            pool.add(''.join(t))
        pool.add(s + '\n')
        pool.add(s.swapcase())
    res = report.pool_map(_validate_one, [(nm, sorted(pool)) for nm in names])
    for r in res:
        if isinstance(r, dict):
            run.checker_error(r['_crash'])
            continue
        k, errs = r
        n += k
        for e in errs[:3]:
            run.checker_error(e)
    run.bounded.append(dict(what='regex translator vs the real re engine (models of each language and complement, mutated, '
                                 'representatives of every character class incl. non-ASCII digits/spaces)',
                            bound='%d strings x %d patterns' % (len(pool), len(names)), evaluations=n, distinct_nontrivial=len(pool),
                            decides='nothing (validates the encoder)'))
    return n


def _validate_one(args):
    nm, pool = args
    p = pat(nm)
    try:
        l = R.lang(p)
    except BaseException as e:
        if type(e).__name__ != 'OutOfSubset':
            raise
        return 0, []
    errs = []
    n = 0
    for s in pool:
        n += 1
        real = p.match(s) is not None
        mine = z3.is_true(z3.simplify(z3.InRe(z3.StringVal(s), l)))
        if real != mine:
            errs.append('regex translator disagrees with re on %s, %r: re=%s smt=%s' % (nm, s, real, mine))
    return n, errs


# ---------------------------------------------------------------------------- replay
def _real_membership(s):
    out = {}
    for n in sorted(set(FAMILIES) | set(COMPOSITES) | {'PAT_PERF', 'PAT_FINISHED', 'PAT_NOT_FINISHED', 'PAT_VERTICAL_JUMPS', 'PAT_HORIZONTAL_JUMPS'}):
        out[n] = pat(n).match(s) is not None
    return out


def check_witness(args, s):
    """does the witness string violate the clause on the real compiled patterns?"""
    mem = _real_membership(s)
    if args[0] == 'subset':
        _, name, parts, direction = args
        u = any(mem[p] for p in parts)
        return (mem[name] and not u) if direction == 'whole<=parts' else (u and not mem[name]), mem
    if args[0] == 'disjoint':
        _, a, b = args
        return mem[a] and mem[b], mem
    return False, mem


def replay(rep):
    args = rep['args']
    args = tuple(tuple(a) if isinstance(a, list) else a for a in args)
    bad, mem = check_witness(args, rep['witness'])
    print('replay %s on %r: %s' % (rep['obligation'], rep['witness'], {k: v for k, v in mem.items() if v}))
    print('VIOLATION reproduced' if bad else 'not reproduced on this tree')
    return 1 if bad else 0


# ---------------------------------------------------------------------------- main
def main(tier, seed):
    run = report.Run(PROP, tier, seed)
    run.expected_min_obligations = 20
    run.explanation = ('regular-language inclusion/disjointness queries over all strings (no length bound) generated from the compiled '
                       'patterns of the imported athlib.codes and from the first-match classifiers explored symbolically; z3 seq/regex solver')
    run.assume('re: P.match(s) succeeds iff s is in the regular language of P\'s parse tree, with `$` = end or before a final newline '
               '(backtracking is complete); translator validated against re on every run',
               'z3 regex solver soundness (thorough tier re-checks with a 4x budget)',
               "alphabet = z3's character sort U+0000..U+2FFFF; code points above it are in no class the patterns use",
               'pyvc proxies/rewrites (classifier exploration)')
    c = codes()
    for n in sorted(set(FAMILIES) | set(COMPOSITES)):
        run.add_function(dict(function='athlib.codes.%s' % n, file=c.__file__, sha256=__import__('hashlib').sha256(pat(n).pattern.encode()).hexdigest()[:16],
                              rewrites={}, note='compiled pattern object of the imported module'))
    J = []
    for name, parts in COMPOSITES.items():
        J.append(('subset', name, tuple(parts), 'whole<=parts'))
        J.append(('subset', name, tuple(parts), 'parts<=whole'))
    ks = sorted(KINDS)
    for i in range(len(ks)):
        for j in range(i + 1, len(ks)):
            J.append(('disjoint', KINDS[ks[i]], KINDS[ks[j]]))
    # classifiers: pairs of answers with different measurement units must come from disjoint languages
    from pyvc.util import real_module
    A = real_module('athlib.athlon_score')
    from athlib.wma.agegrader import AgeGrader
    chains = []
    for func, pn, label in ((A.unit_name, ['PAT_JUMPS', 'PAT_THROWS'], 'athlon_score.unit_name'),
                            (AgeGrader.event_code_to_kind, ['PAT_THROWS', 'PAT_JUMPS', 'PAT_TRACK', 'PAT_ROAD'], 'AgeGrader.event_code_to_kind')):
        chain, f, stats = classifier_chain(func, pn)
        run.add_function(f)
        run.paths += len(chain)
        chains.append((label, chain))
        bad = [x for x in chain if str(x[1]).startswith('OOS')]
        if bad:
            run.record('%s/in-subset' % label, 'subset', 'unknown', '-', 0, label, str(bad))
        pos = [(p, a) for p, a in chain if p is not None]
        default = [a for p, a in chain if p is None]
        for i in range(len(pos)):
            for j in range(i + 1, len(pos)):
                (p1, a1), (p2, a2) = pos[i], pos[j]
                if UNIT_OF.get(a1, a1) != UNIT_OF.get(a2, a2):
                    J.append(('disjoint', p1, p2))
        # the default answer (no family matched) must have the unit of every code outside the tested families:
        # for unit_name the default is 'seconds': every non-field event code must be timed-like
        if label.endswith('unit_name'):
            run.sample(dict(classifier=label, chain=chain))
    seen = set()
    J2 = []
    for j in J:
        k = j if j[0] == 'subset' else ('disjoint',) + tuple(sorted(j[1:]))
        if k not in seen:
            seen.add(k)
            J2.append(j)
    timeout_scale = 1
    results = report.pool_map(_work, J2)
    for r in results:
        if '_crash' in r:
            run.checker_error(r['_crash'])
            continue
        v = r['verdict']
        if v == 'unsat':
            run.record(r['name'], r['kind'], 'proved', 'z3-regex', r['time'], 'codes')
        elif v == 'sat':
            w = R.unescape(r['witness'])
            bad, mem = check_witness(r['args'], w)
            run.record(r['name'], r['kind'], 'refuted', 'z3-regex', r['time'], 'codes')
            rep = dict(args=r['args'], witness=w, real_membership={k: x for k, x in mem.items() if x},
                       call='PAT_*.match(%r)' % w, solver='z3 sat')
            if bad:
                run.violation(r['name'], rep, True, 'language query refuted')
            else:
                run.spurious_model(r['name'], rep)
        else:
            run.record(r['name'], r['kind'], 'unknown', 'z3-regex', r['time'], 'codes', r.get('detail', 'solver unknown'))
    run.sample(dict(obligation='PAT_EVENT_CODE/whole<=parts', form='(assert (str.in_re x (re.inter L(PAT_EVENT_CODE) (re.comp (re.union L(family_i)...))))) ; unsat',
                    families=FAMILIES))
    for label, chain in chains:
        run.notes.append('%s first-match chain: %r' % (label, chain))
    validate_translator(run, seed)
    return run.finish()
