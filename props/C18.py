"""C18 - the JavaScript port computes the same answers as the Python reference.

There is no JavaScript front end in this sandbox, so no JS function body is under contract: NOTHING here is counted
as proved about the JS code.  What is done:
  * table equality, ground and COMPLETE: the Tyrving and QuadKids tables (and the competition-type map) are obtained
    from the loaded JS modules and from the imported Python modules and compared entry by entry;
  * the Python side of every pair is under contract elsewhere (C06: decimal round-up, formatting, parsing; C07:
    normalisation; C11: Tyrving and QuadKids = exact table formula);
  * bounded differential run (labelled bounded, level other): the JS functions are loaded from js/src under node - the
    `import {..} from '..'` lines rewritten mechanically to require(), nothing else touched, in a scratch copy removed
    after the run - and called on the grids of C06/C11; values (or refusal on both sides) compared with the Python
    functions on the same inputs."""
import json
import os
import random
import re
import shutil
import subprocess
import sys
import tempfile

from pyvc import report
from pyvc.util import real_module

PROP = 'C18'
JS_SRC = os.path.join(os.environ.get('ATHLIB_TREE', '/repo'), 'js/src')

DRIVER = r'''
const path = require('path');
const dir = process.argv[2];
const utils = require(path.join(dir, 'utils.js'));
const ty = require(path.join(dir, 'tyrving_score.js'));
const qk = require(path.join(dir, 'qkids_score.js'));
const fns = {
  roundUpStrNum: (a) => utils.roundUpStrNum(a[0], a[1]),
  formatSecondsAsTime: (a) => utils.formatSecondsAsTime(a[0], a[1]),
  parseHms: (a) => utils.parseHms(a[0]),
  isHandTiming: (a) => utils.isHandTiming(a[0]),
  normalizeEventCode: (a) => utils.normalizeEventCode(a[0]),
  tyrvingScore: (a) => ty.tyrvingScore(a[0], a[1], a[2], a[3]),
  qkidsScore: (a) => qk.qkidsScore(a[0], a[1], a[2]),
};
const lines = require('fs').readFileSync(0, 'utf8').split('\n');
const out = [];
for (const line of lines) {
  if (!line) continue;
  const [fn, args] = JSON.parse(line);
  let r;
  try {
    if (fn === '__tables__') {
      const rw = require(path.join(dir, 'tyrving_score.js'));
      r = ['ret', { tyrving: rw.__tables__ || null, qkids: qk.__tables__ || null, compmap: qk.__compmap__ || null }];
    } else {
      const v = fns[fn](args);
      r = ['ret', (typeof v === 'number' && !Number.isFinite(v)) ? String(v) : v];
    }
  } catch (e) {
    r = ['exc', String(e && e.message ? e.message : e).slice(0, 80)];
  }
  out.push(JSON.stringify(r));
}
process.stdout.write(out.join('\n') + '\n');
'''

IMPORT_RE = re.compile(r"import\s*\{([^}]*)\}\s*from\s*'([^']+)';?", re.S)


def prepare(dst):
    """scratch copy of js/src with the ES import lines rewritten to require(); the table variables of the two scoring
    modules are additionally exported (one appended line each) so that they can be compared"""
    log = []
    for fn in os.listdir(JS_SRC):
        if not fn.endswith('.js'):
            continue
        s = open(os.path.join(JS_SRC, fn)).read()

        def rw(m):
            names = ', '.join(x.strip() for x in m.group(1).split(',') if x.strip())
            mod = m.group(2)
            if not mod.endswith('.js'):
                mod += '.js'
            log.append('%s: import {..} from %s -> require' % (fn, mod))
            return 'const { %s } = require(%r);' % (names, mod)
        s2 = IMPORT_RE.sub(rw, s)
        if fn == 'tyrving_score.js':
            s2 += '\nmodule.exports.__tables__ = _tyrvingTables;\n'
        if fn == 'qkids_score.js':
            s2 += '\nmodule.exports.__tables__ = _qkidsTables;\nmodule.exports.__compmap__ = (typeof _compTypeMap !== "undefined") ? _compTypeMap : null;\n'
        open(os.path.join(dst, fn), 'w').write(s2)
    open(os.path.join(dst, 'driver.js'), 'w').write(DRIVER)
    return log


def run_js(dst, calls):
    inp = '\n'.join(json.dumps(c) for c in calls) + '\n'
    r = subprocess.run(['node', os.path.join(dst, 'driver.js'), dst], input=inp, capture_output=True, text=True, timeout=600)
    if r.returncode != 0:
        raise RuntimeError('node failed: ' + r.stderr[-1500:])
    return [json.loads(l) for l in r.stdout.splitlines() if l]


def py_call(fn, args):
    import athlib
    u = real_module('athlib.utils')
    f = {'roundUpStrNum': lambda a: u.round_up_str_num(a[0], a[1]), 'formatSecondsAsTime': lambda a: u.format_seconds_as_time(a[0], a[1]),
         'parseHms': lambda a: u.parse_hms(a[0]), 'isHandTiming': lambda a: u.is_hand_timing(a[0]), 'normalizeEventCode': lambda a: u.normalize_event_code(a[0]),
         'tyrvingScore': lambda a: athlib.tyrving_score(a[0], a[1], a[2], a[3]), 'qkidsScore': lambda a: athlib.qkids_score(a[0], a[1], a[2])}[fn]
    try:
        return ['ret', f(args)]
    except Exception as e:
        return ['exc', type(e).__name__]


def same(fn, p, j):
    if p[0] != j[0]:
        return False
    if p[0] == 'exc':
        return True            # both refuse
    a, b = p[1], j[1]
    if isinstance(a, float) or isinstance(b, float):
        try:
            return abs(float(a) - float(b)) <= 1e-9 * max(1.0, abs(float(a)))
        except (TypeError, ValueError):
            return False
    return a == b


def norm_table(x):
    """JSON-able canonical form: dict keys as strings, numbers as floats"""
    if isinstance(x, dict):
        return {str(k): norm_table(v) for k, v in x.items()}
    if isinstance(x, (list, tuple)):
        return [norm_table(v) for v in x]
    if isinstance(x, bool):
        return x
    if isinstance(x, (int, float)):
        return float(x)
    return x


def table_diffs(a, b, path=''):
    out = []
    if isinstance(a, dict) and isinstance(b, dict):
        for k in sorted(set(a) | set(b)):
            if k not in a or k not in b:
                out.append('%s/%s only in %s' % (path, k, 'python' if k in a else 'js'))
            else:
                out += table_diffs(a[k], b[k], path + '/' + k)
    elif isinstance(a, list) and isinstance(b, list):
        if len(a) != len(b):
            out.append('%s length %d vs %d' % (path, len(a), len(b)))
        else:
            for i, (x, y) in enumerate(zip(a, b)):
                out += table_diffs(x, y, '%s[%d]' % (path, i))
    elif a != b:
        out.append('%s python %r js %r' % (path, a, b))
    return out


def grids(tier, seed):
    rnd = random.Random(seed)
    calls = []
    # C06 grids
    n = 1500 if tier == 'quick' else 20000
    for _ in range(n):
        a, b = rnd.randrange(0, 5), rnd.randrange(0, 8)
        s = ''.join(rnd.choice('0099123456789') for _ in range(a)) + '.' + ''.join(rnd.choice('00099123456789') for _ in range(b))
        if s != '.':
            calls.append(['roundUpStrNum', [s, rnd.randrange(0, 6)]])
    for s in ['.000', '.12000', '9.9995', '0.99999', '59.9999', '007.99', '12']:
        for p in range(6):
            calls.append(['roundUpStrNum', [s, p]])
    for _ in range(n):
        k = rnd.randrange(0, 360000 * 1000)
        x = k / 1000
        if rnd.random() < 0.3:
            x += rnd.choice([1e-4, 1e-5, 3e-6, 1e-7, 1e-9, 1e-12]) * rnd.random()
        calls.append(['formatSecondsAsTime', [x, rnd.randrange(0, 4)]])
    for x in [0, 59.999, 59.9999, 3599.99, 3599.999, 3600, 65.00000000000001, 65.00005, 0.00005, 1e-9]:
        for p in range(4):
            calls.append(['formatSecondsAsTime', [x, p]])
    for _ in range(n // 2):
        nf = rnd.choice([1, 2, 3])
        sep = rnd.choice(':;')
        t = sep.join(str(rnd.randrange(0, 100)) for _ in range(nf))
        if rnd.random() < 0.5:
            t += '.' + str(rnd.randrange(0, 1000))
        calls.append(['parseHms', [t]])
        calls.append(['isHandTiming', [t]])
    # every text of length <= 6 over {digit, '.', ':'} (digits folded to two representatives): the hand-timing contract
    # (no point, or fewer than two characters after the LAST point) and the h:m:s reading are decided on all shapes
    import itertools
    for L in range(1, 7 if tier == 'quick' else 8):
        for tup in itertools.product('17.:', repeat=L):
            t = ''.join(tup)
            calls.append(['isHandTiming', [t]])
            if L <= 5:
                calls.append(['parseHms', [t]])
    for t in ['10', '1:10', '1:1:10.1', 'x', '1:x', '', '12.5', '12.50', '12', '1.02.5', '1.00.0', '1.02.55', '12.3.45']:
        calls.append(['parseHms', [t]])
        calls.append(['isHandTiming', [t]])
    # table keys: normalisation
    ty = real_module('athlib.tyrving_score')._tyrvingTables
    qk = real_module('athlib.qkids_score')._qkidsTables
    for g, t in ty.items():
        for ev in t:
            calls.append(['normalizeEventCode', [ev]])
            calls.append(['normalizeEventCode', [ev.lower()]])
    for ct, t in qk.items():
        for ev in t:
            calls.append(['normalizeEventCode', [ev]])
    # C11 grids: every Tyrving / QuadKids row x marks incl. hand-timed texts
    stride = 7 if tier == 'quick' else 1
    from props import C11
    for g, ev in C11.ty_rows():
        kind, pargs = ty[g][ev]
        ages = C11.ty_ages(kind, pargs)
        for age in (ages if tier != 'quick' else [ages[0], ages[-1]]):
            kmax = C11.ty_kmax(kind, pargs, age)
            lo = max(0, kmax // 3)
            for k in range(lo + rnd.randrange(0, stride), min(kmax, lo + 9000), stride * 13):
                calls.append(['tyrvingScore', [g, age, ev, k / 100]])
                calls.append(['tyrvingScore', [g, age, ev, '%d.%02d' % (k // 100, k % 100)]])
                if kind == 'race':
                    calls.append(['tyrvingScore', [g, age, ev, '%d.%d' % (k // 100, (k % 100) // 10)]])       # hand-timed
                    # every spelling of a time the scorer reads: minutes / hours fields, ':' '.' and ',' as separators
                    sec, hh = divmod(k, 100)
                    if sec >= 60:
                        m_, s_ = divmod(sec, 60)
                        for t in ('%d:%02d.%02d' % (m_, s_, hh), '%d.%02d.%02d' % (m_, s_, hh), '%d.%02d.%d' % (m_, s_, hh // 10), '%d:%02d,%02d' % (m_, s_, hh)):
                            calls.append(['tyrvingScore', [g, age, ev, t]])
                    if sec >= 3600:
                        h_, r_ = divmod(sec, 3600)
                        m_, s_ = divmod(r_, 60)
                        for t in ('%d:%02d:%02d.%02d' % (h_, m_, s_, hh), '%d.%02d.%02d.%02d' % (h_, m_, s_, hh), '%d.%02d.%02d.%d' % (h_, m_, s_, hh // 10),
                                  '%d:%02d:%02d' % (h_, m_, s_)):
                            calls.append(['tyrvingScore', [g, age, ev, t]])
                    calls.append(['tyrvingScore', [g, age, ev, '%d,%02d' % (sec, hh)]])
        # the "or both refuse" half: ages just outside the columns of the row, unknown events and genders
        k = max(1, C11.ty_kmax(kind, pargs, ages[0]) // 2)
        for age in (ages[0] - 1, ages[0] - 2, ages[0] - 5, ages[-1] + 1, ages[-1] + 2, 0, -1, 100):
            calls.append(['tyrvingScore', [g, age, ev, k / 100]])
            calls.append(['tyrvingScore', [g, age, ev, '%d.%02d' % (k // 100, k % 100)]])
    for g, ev in [('M', 'XYZ'), ('F', '101'), ('X', '100'), ('', 'HJ'), ('M', '')]:
        calls.append(['tyrvingScore', [g, 15, ev, 12.5]])
    for ct, ev in [('QKNONE', '100'), ('QKSEC', 'XYZ'), ('', '')]:
        calls.append(['qkidsScore', [ct, ev, 12.5]])
    for ct in sorted(qk):
        for ev, row in qk[ct].items():
            kmax = int(100 * (max(row[1], row[2]) * 2 + 20))
            for k in range(rnd.randrange(0, 5), kmax, 17 if tier == 'quick' else 1):
                calls.append(['qkidsScore', [ct, ev, k / 100]])
                calls.append(['qkidsScore', [ct, ev, '%d.%02d' % (k // 100, k % 100)]])
    return calls


def replay(rep):
    fn, args = rep['input']
    dst = tempfile.mkdtemp(prefix='c18_')
    try:
        prepare(dst)
        j = run_js(dst, [[fn, args]])[0]
    finally:
        shutil.rmtree(dst, ignore_errors=True)
    p = py_call(fn, args)
    print('replay %s: %s%r python=%r js=%r' % (rep['obligation'], fn, tuple(args), p, j))
    bad = not same(fn, p, j)
    print('VIOLATION reproduced' if bad else 'not reproduced on this tree')
    return 1 if bad else 0


def main(tier, seed):
    run = report.Run(PROP, tier, seed)
    run.expected_min_obligations = 3
    run.level_claim = 'other'
    run.explanation = __doc__
    run.assume('node 20 executes js/src as a browser/bundler would after the mechanical import->require rewrite (listed in the evidence)',
               'no JS function is under contract: the differential run is a bounded stand-in; only table equality is complete',
               'numbers compared with 1e-9 relative tolerance; "both refuse" = an exception on both sides')
    dst = tempfile.mkdtemp(prefix='c18_')
    try:
        log = prepare(dst)
        run.notes.append('import rewrites: %d' % len(log))
        # 1. tables
        t = run_js(dst, [['__tables__', []]])[0]
        if t[0] != 'ret':
            run.checker_error('cannot load the JS tables: %r' % (t,))
            return run.finish()
        jt = t[1]
        pyty = norm_table(real_module('athlib.tyrving_score')._tyrvingTables)
        pyqk = norm_table(real_module('athlib.qkids_score')._qkidsTables)
        pycm = norm_table(real_module('athlib.qkids_score')._compTypeMap)
        for nm, a, b in (('tyrving-tables', pyty, norm_table(jt['tyrving'])), ('qkids-tables', pyqk, norm_table(jt['qkids'])),
                         ('qkids-competition-type-map', pycm, norm_table(jt['compmap']))):
            d = table_diffs(a, b) if b is not None else ['js table not found']
            name = 'table-equality/%s' % nm
            run.record(name, 'ground', 'refuted' if d else 'proved', 'ground-evaluation', 0.0, 'tables')
            if d:
                e = run.match_known(name, dict(diffs=d))
                if e:
                    run.known_finding(e)
                else:
                    run.violation(name, dict(call='compare %s between js/src and athlib' % nm, observed=d[:6], input=['normalizeEventCode', ['100']]), True)
        # 2. differential run
        calls = grids(tier, seed)
        js = run_js(dst, calls)
    finally:
        shutil.rmtree(dst, ignore_errors=True)
    bad = {}
    n = 0
    for c, j in zip(calls, js):
        n += 1
        p = py_call(c[0], c[1])
        if not same(c[0], p, j):
            bad.setdefault(c[0], []).append((c[1], p, j))
    for fn in ['roundUpStrNum', 'formatSecondsAsTime', 'parseHms', 'isHandTiming', 'normalizeEventCode', 'tyrvingScore', 'qkidsScore']:
        name = 'differential/%s-agrees-with-its-python-twin' % fn
        b = bad.get(fn, [])
        run.record(name, 'bounded', 'refuted' if b else 'proved', 'node-differential', 0.0, 'differential')
        if b:
            e = run.match_known(name, dict(fn=fn, args=b[0][0], python=b[0][1], js=b[0][2], n=len(b)))
            if e:
                run.known_finding(e, len(b))
            else:
                run.violation(name, dict(call='%s%r' % (fn, tuple(b[0][0])), observed=dict(python=b[0][1], js=b[0][2]), count=len(b),
                                         more=[x[0] for x in b[:6]], input=[fn, b[0][0]]), True)
    run.level_proof = False
    run.bounded.append(dict(what='JS functions under node vs their Python twins on the C06/C11 grids (decimal strings x precision, durations x precision, h:m:s '
                                 'strings, every Tyrving/QuadKids row x marks incl. hand-timed texts, table keys)', bound='%d calls, seed %d' % (n, seed),
                            evaluations=n, distinct_nontrivial=n, decides='the differential obligations (bounded, never counted as proved)'))
    return run.finish()
