"""C05 - a better performance never scores fewer points, in any scoring system.

Structure of the argument (each piece an obligation):
  table/linear systems (Tyrving, QuadKids, Sportshall, Bulgarian):  f = exact spec on every centi-mark (the C11
      contract obligations, re-discharged here from the real code)  +  relational lemma "spec is monotone / within
      bounds / manual <= automatic" proved by z3 over two symbolic marks (LIA)  +  ground table-order facts;
  combined events: rounding stage = exact ceil/floor(k*F) (C01 obligations, re-discharged for every age band) + lemma
      "ceil/floor(k*F) is monotone in k for every tabulated factor" + the power stage compared on EVERY adjacent pair of
      centi-marks of every row (complete ground evaluation of the real score());
  Hungarian: the real score() compared on every adjacent pair of the 0.01 grid of every table row within the range the
      system defines (timed: marks no slower than the zero point of the parabola; field/points: marks at which the
      formula is >= 0), complete ground evaluation, labelled so.
Bounds: never negative; QuadKids 10..100; Bulgarian 0..150."""
import math
from fractions import Fraction

import z3

from pyvc import report, unit as U
from pyvc.core import Ctx, Obligation, discharge, ctx, smt2_of
from pyvc.values import SInt, zbool, zint, And, Or, Not, Implies
from pyvc.util import real_module
from specs import junior as J, athlon as SP
from props import C11, C01

PROP = 'C05'


# ---------------------------------------------------------------------------- relational lemmas on the specs (z3, two symbolic marks)
def lemma(name, build, kind='relational', meta=None):
    """build(k1, k2) -> (hypothesis, goal) over SInt marks k1 < k2 ; returns a result dict"""
    c = Ctx()
    Ctx.current = c
    try:
        k1, k2 = z3.Int('k1'), z3.Int('k2')
        c.declare_input('k1', k1)
        c.declare_input('k2', k2)
        hyp, goal = build(SInt(k1), SInt(k2))
        c.assume(zbool(hyp))
        ob = Obligation(name, kind, list(c.pc), zbool(goal))
        r = discharge(ob, c.inputs, 20000)
        r.pop('_z3model', None)
        r.pop('_solver', None)
        r['smt2'] = smt2_of(ob) if r['verdict'] == 'proved' else None
        r['meta'] = meta
        return r
    finally:
        Ctx.current = None


def lemmas_tyrving(args):
    g, ev = args
    ty = real_module('athlib.tyrving_score')
    kind, pargs = ty._tyrvingTables[g][ev]
    out = []
    for age in C11.ty_ages(kind, pargs):
        kmax = C11.ty_kmax(kind, pargs, age)
        dom = lambda k1, k2: And(k1 >= 0, k1 < k2, k2 <= kmax)
        if kind == 'race':
            for manual in (False, True):
                out.append(lemma('tyrving/%s/%s/age=%d/%s: faster never fewer points' % (g, ev, age, 'manual' if manual else 'auto'),
                                 lambda k1, k2: (dom(k1, k2), J.tyrving_points(kind, pargs, age, k1, manual) >= J.tyrving_points(kind, pargs, age, k2, manual)),
                                 meta=dict(sys='tyrving', g=g, ev=ev, age=age, manual=manual, rel='ge')))
            out.append(lemma('tyrving/%s/%s/age=%d: hand-timed never more than electronic for the same figure' % (g, ev, age),
                             lambda k1, k2: (And(k1 >= 0, k1 <= kmax), J.tyrving_points(kind, pargs, age, k1, True) <= J.tyrving_points(kind, pargs, age, k1, False)),
                             meta=dict(sys='tyrving', g=g, ev=ev, age=age, rel='manual')))
        else:
            out.append(lemma('tyrving/%s/%s/age=%d: longer never fewer points' % (g, ev, age),
                             lambda k1, k2: (dom(k1, k2), J.tyrving_points(kind, pargs, age, k1) <= J.tyrving_points(kind, pargs, age, k2)),
                             meta=dict(sys='tyrving', g=g, ev=ev, age=age, manual=False, rel='le')))
        out.append(lemma('tyrving/%s/%s/age=%d: never negative' % (g, ev, age),
                         lambda k1, k2: (And(k1 >= 0, k1 <= kmax), J.tyrving_points(kind, pargs, age, k1) >= 0), 'bounds'))
    return out


def lemmas_qkids(args):
    ct, ev = args
    qk = real_module('athlib.qkids_score')
    row = qk._qkidsTables[ct][ev]
    from athlib.codes import PAT_RUN
    timed = bool(PAT_RUN.match(ev))
    kmax = int(100 * (max(row[1], row[2]) * 2 + 20))
    dom = lambda k1, k2: And(k1 >= 0, k1 < k2, k2 <= kmax)
    s = lambda k: J.qkids_points(row, timed, k)
    return [lemma('qkids/%s/%s: better never fewer points' % (ct, ev),
                  lambda k1, k2: (dom(k1, k2), (s(k1) >= s(k2)) if timed else (s(k1) <= s(k2))),
                  meta=dict(sys='qkids', ct=ct, ev=ev, rel='ge' if timed else 'le')),
            lemma('qkids/%s/%s: within 10..100' % (ct, ev), lambda k1, k2: (And(k1 >= 0, k1 <= kmax), And(s(k1) >= 10, s(k1) <= 100)), 'bounds')]


def lemmas_sportshall(args):
    ev, = args
    sh = real_module('athlib.sportshall_score')
    info = sh.load_data()[ev]
    high = ev in C11.HIGH
    vmax = max(Fraction(v) for _, v in info['perf2points'])
    kmax = int(vmax * 200) + 5000
    s = lambda k: C11.sh_spec(info, high, k, 100)
    dom = lambda k1, k2: And(k1 >= 0, k1 < k2, k2 <= kmax)
    return [lemma('sportshall/%s: better never fewer points' % ev,
                  lambda k1, k2: (dom(k1, k2), (s(k1) <= s(k2)) if high else (s(k1) >= s(k2))),
                  meta=dict(sys='sportshall', ev=ev, rel='le' if high else 'ge')),
            lemma('sportshall/%s: never negative' % ev, lambda k1, k2: (And(k1 >= 0, k1 <= kmax), s(k1) >= 0), 'bounds')]


def lemmas_athlon_round(args):
    """ceil/floor(k*F) monotone in k for every tabulated factor of the row's event (and F = 1)"""
    g, ev, timed = args
    out = []
    Fs = sorted(set([Fraction(1)] + [f for f in (C01.athlon_factor(g, ev, b) for b in range(0, 205, 5)) if f is not None]))
    for Fq in Fs:
        out.append(lemma('athlon/%s/%s/F=%s: rounded centi-mark monotone in the mark' % (g, ev, Fq),
                         lambda k1, k2: (And(k1 >= 0, k1 < k2), SP.centi_after_factor(k1, Fq, timed) <= SP.centi_after_factor(k2, Fq, timed))))
        out.append(dict(name='athlon/%s/%s/F=%s: factor positive' % (g, ev, Fq), kind='ground', verdict='proved' if Fq > 0 else 'refuted',
                        backend='ground-evaluation', time=0.0, model=None))
    return out


# ---------------------------------------------------------------------------- complete ground adjacency sweeps (real functions)
def adj_athlon(args):
    g, ev, esaa, o, lo, hi = args
    a = real_module('athlib.athlon_score')
    kind = C01.kind_of(o['event_code'])
    better_up = kind != 'track'
    prev = a.score(g, ev, lo / 100, esaa=esaa)
    n = 0
    bad = []
    for c in range(lo + 1, hi + 1):
        cur = a.score(g, ev, c / 100, esaa=esaa)
        n += 1
        if (cur < prev) if better_up else (cur > prev) or cur < 0 or not isinstance(cur, int):
            bad.append((c, prev, cur))
            if len(bad) > 3:
                break
        prev = cur
    return n, bad


def hun_domain(row):
    """grid range [lo, hi] in centi-units on which the system defines the score"""
    g, io, ev, a, b, c = row
    A, B, Cc = Fraction(repr(a)), Fraction(repr(b)), Fraction(repr(c))
    if b < 0:       # timed: marks no slower than the zero point of the parabola
        return 0, int(-B * 100), False
    # field / points: from the zero of the formula (a(x+b)^2 + c >= 0) up to twice the mark scoring 1400
    x0 = math.sqrt(float(-Cc / A)) - float(B) if Cc < 0 else 0.0
    x14 = math.sqrt(float((1400 - Cc) / A)) - float(B)
    lo = max(0, int(math.ceil(x0 * 100)) + 1)
    return lo, int(2 * x14 * 100) + 100, True


def adj_hungarian(args):
    i, lo, hi, up = args
    h = real_module('athlib.hungarian_score')
    g, io, ev = h.FACTORS[i][:3]
    sc = h.score
    prev = sc(g, io, ev, lo / 100)
    n = 0
    bad = []
    if prev < 0:
        bad.append((lo, None, prev))
    for c in range(lo + 1, hi + 1):
        cur = sc(g, io, ev, c / 100)
        n += 1
        if ((cur < prev) if up else (cur > prev)) or cur < 0 or not isinstance(cur, int):
            bad.append((c, prev, cur))
            if len(bad) > 3:
                break
        prev = cur
    return n, bad


def bulgarian_ground(run):
    """complete: every adjacent pair of every Bulgarian table incl. the clamps, through the real function"""
    bg = real_module('athlib.bulgarian_score')
    import re
    tot = 0
    for key, t in bg.scores.items():
        m = re.match(r'^(U\d+)([MFX])(.*)$', key)
        ag, g, ev = m.groups()
        field = ev in C11.BG_FIELD
        lo, hi = min(t['min'], t['max']) - 50, max(t['min'], t['max']) + 50
        prev = bg.score(ag, g, ev, lo / 100)
        bad = []
        for k in range(lo + 1, hi + 1):
            cur = bg.score(ag, g, ev, k / 100)
            tot += 1
            if ((cur < prev) if field else (cur > prev)) or not (0 <= cur <= 150):
                bad.append((k, prev, cur))
            prev = cur
        name = 'bulgarian/%s: better never fewer points, within 0..150 (every adjacent pair)' % key
        if not bad:
            run.record(name, 'ground', 'proved', 'ground-evaluation', 0.0, 'bulgarian')
            continue
        run.record(name, 'ground', 'refuted', 'ground-evaluation', 0.0, 'bulgarian')
        for k, p0, p1 in bad:
            e = run.match_known(name, dict(key=key, centi=k, points=[p0, p1]))
            if e:
                run.known_finding(e)
            else:
                run.violation(name, dict(call='bulgarian_score(%r,%r,%r, %r) then %r' % (ag, g, ev, (k - 1) / 100, k / 100), observed=[p0, p1],
                                         required='ordered', input=['bulgarian', ag, g, ev, k]), True)
    return tot


def conc_lemma(r):
    """replay a refuted spec lemma on the real public function with the model's two marks"""
    m = r.get('meta') or {}
    mod = r.get('model') or {}
    k1, k2 = int(mod.get('k1', 0)), int(mod.get('k2', 0))
    rep = dict(call='spec lemma ' + r['name'], model=mod, input=['lemma', m, k1, k2], solver='z3 sat')
    try:
        if m.get('sys') == 'tyrving':
            f = real_module('athlib.tyrving_score').tyrving_score
            def sc(k, manual):
                txt = ('%d.%d' % (k // 100, (k % 100) // 10)) if manual else '%d.%02d' % (k // 100, k % 100)
                return f(m['g'], m['age'], m['ev'], txt)
            if m['rel'] == 'manual':
                k1 -= k1 % 10
                a, b = sc(k1, True), sc(k1, False)
                rep.update(call='tyrving_score(%r,%r,%r, hand-timed vs electronic %.2f)' % (m['g'], m['age'], m['ev'], k1 / 100), observed=[a, b])
                return rep, a > b
            a, b = sc(k1, False), sc(k2, False)
        elif m.get('sys') == 'qkids':
            f = real_module('athlib.qkids_score').qkids_score
            a, b = f(m['ct'], m['ev'], k1 / 100), f(m['ct'], m['ev'], k2 / 100)
        elif m.get('sys') == 'sportshall':
            f = real_module('athlib.sportshall_score').sportshall_score
            a, b = f(m['ev'], '%d.%02d' % (k1 // 100, k1 % 100)), f(m['ev'], '%d.%02d' % (k2 // 100, k2 % 100))
        else:
            return rep, False
        rep.update(call='%s: marks %.2f then %.2f' % (r['name'], k1 / 100, k2 / 100), observed=[a, b])
        return rep, (a < b) if m['rel'] == 'ge' else (a > b)
    except Exception as e:
        rep['concretise_error'] = repr(e)
        return rep, False


def _work(job):
    k = job[0]
    if k == 'lem':
        return ('lem', job[1], globals()[job[1]](job[2]))
    if k == 'adjA':
        return ('adjA', job[1][:3], adj_athlon(job[1]))
    if k == 'adjH':
        return ('adjH', job[1][0], adj_hungarian(job[1]))
    if k == 'c11':
        r = C11._work(job[1])
        return ('c11', job[1], r)
    if k == 'c01':
        r = C01.unit_round(job[1])
        return ('c01', job[1][:3], r)


def replay(rep):
    inp = rep['input']
    if inp[0] == 'frame':
        print('replay %s: a write site in the call graph (frame analysis): %s' % (rep['obligation'], rep.get('call')))
        from pyvc.frames import purity_sites
        import importlib
        mod, fn = inp[1].rsplit('.', 1)
        bad = bool(purity_sites([getattr(real_module(mod), fn)])[0])
        print('VIOLATION reproduced' if bad else 'not reproduced on this tree')
        return 1 if bad else 0
    if inp[0] == 'tyhistory':
        class _R(object):
            v = []
            def record(self, *a, **k): pass
            def violation(self, name, d, bad): self.v.append(d)
        r_ = _R()
        tyrving_history(r_)
        print('replay %s: %r' % (rep['obligation'], r_.v[:1]))
        print('VIOLATION reproduced' if r_.v else 'not reproduced on this tree')
        return 1 if r_.v else 0
    if inp[0] == 'bulgarian':
        _, ag, g, ev, k = inp
        bg = real_module('athlib.bulgarian_score')
        p0, p1 = bg.score(ag, g, ev, (k - 1) / 100), bg.score(ag, g, ev, k / 100)
        bad = (p1 < p0) if ev in C11.BG_FIELD else (p1 > p0)
    elif inp[0] == 'athlon':
        _, g, ev, esaa, c = inp
        a = real_module('athlib.athlon_score')
        p0, p1 = a.score(g, ev, (c - 1) / 100, esaa=esaa), a.score(g, ev, c / 100, esaa=esaa)
        bad = (p1 < p0) if C01.kind_of(ev) != 'track' else (p1 > p0)
    elif inp[0] == 'hungarian':
        _, i, c, up = inp
        h = real_module('athlib.hungarian_score')
        g, io, ev = h.FACTORS[i][:3]
        p0, p1 = h.score(g, io, ev, (c - 1) / 100), h.score(g, io, ev, c / 100)
        bad = (p1 < p0) if up else (p1 > p0)
    elif inp[0] == 'lemma':
        r2, bad = conc_lemma(dict(name=rep['obligation'], meta=inp[1], model={'k1': inp[2], 'k2': inp[3]}))
        print('replay %s -> %r' % (r2.get('call'), r2.get('observed')))
        print('VIOLATION reproduced' if bad else 'not reproduced on this tree')
        return 1 if bad else 0
    else:
        return C11.replay(rep)
    print('replay %s: %r -> %r then %r' % (rep['obligation'], inp, p0, p1))
    print('VIOLATION reproduced' if bad else 'not reproduced on this tree')
    return 1 if bad else 0


def tyrving_history(run):
    """bounded: electronically timed marks of one event scored in one process with hand-timed marks in between stay monotone (a
    faster time never scores fewer points) and equal their own score in a fresh sequence"""
    ty = real_module('athlib.tyrving_score')
    bad = None
    n = 0
    for g, age, ev in (('F', 12, '100'), ('M', 15, '200'), ('F', 14, '60'), ('M', 13, '400')):
        try:
            marks = [k / 100 for k in range(1100, 7000, 37)]
            clean = {m: ty.tyrving_score(g, age, ev, '%.2f' % m) for m in marks[:40]}
            prev = None
            for i, m in enumerate(marks[:40]):
                if i % 3 == 1:
                    ty.tyrving_score(g, age, ev, '%.1f' % m)          # a hand-timed mark in between
                pts = ty.tyrving_score(g, age, ev, '%.2f' % m)
                n += 1
                if pts != clean[m] or (prev is not None and pts > prev):
                    bad = (g, age, ev, '%.2f' % m, pts, clean[m])
                    break
                prev = pts
        except Exception:
            continue
        if bad:
            break
    name = 'history/tyrving-points-of-an-electronic-mark-do-not-depend-on-earlier-hand-timed-marks'
    run.record(name, 'ground', 'refuted' if bad else 'proved', 'ground-evaluation', 0.0, 'history')
    if bad:
        run.violation(name, dict(call='tyrving_score(%r,%r,%r,%r) after a hand-timed mark of the same event' % bad[:4], observed=bad[4], required=bad[5],
                                 input=['tyhistory'] + list(bad[:4])), True)


def main(tier, seed):
    run = report.Run(PROP, tier, seed)
    run.expected_min_obligations = 3000
    run.level_claim = 'other'
    run.explanation = __doc__
    run.assume('pyvc proxies/rewrites; float proxy (IEEE-754 binary64)', 'z3 soundness', 'marks on the 0.01 grid',
               'Hungarian and the combined-events power stage: complete ground evaluation of every adjacent grid pair (not SMT)',
               'Hungarian range the system defines: timed marks <= -b; field/points marks where the formula is >= 0')
    ty = real_module('athlib.tyrving_score')
    qk = real_module('athlib.qkids_score')
    sh = real_module('athlib.sportshall_score')
    h = real_module('athlib.hungarian_score')
    # monotonicity is a statement about a FUNCTION of the mark: no scorer keeps anything from one call to the next (a calculator
    # cached with its timing kind, a table rewritten by an option ... would make the points depend on what was scored before)
    from pyvc.frames import frame_obligations
    frame_obligations(run, [ty.tyrving_score, qk.qkids_score, sh.sportshall_score, h.score, real_module('athlib.bulgarian_score').score,
                            real_module('athlib.athlon_score').score])
    tyrving_history(run)
    J_ = []
    for g in sorted(ty._tyrvingTables):
        for ev in ty._tyrvingTables[g]:
            J_.append(('lem', 'lemmas_tyrving', (g, ev)))
    for ct in sorted(qk._qkidsTables):
        for ev in qk._qkidsTables[ct]:
            J_.append(('lem', 'lemmas_qkids', (ct, ev)))
    for ev in sh.RAWDATA[0][1:]:
        J_.append(('lem', 'lemmas_sportshall', (ev,)))
    RS = C01.rows()
    for g, ev, esaa, o in RS:
        if not esaa:
            J_.append(('lem', 'lemmas_athlon_round', (g, ev, C01.kind_of(o['event_code']) == 'track')))
        J_.append(('c01', (g, ev, esaa, o, 'age')))
        J_.append(('c01', (g, ev, esaa, o, 'noage')))
        R = C01.spec_row(o, ev)
        for lo in range(0, R.cmax(), 50000):
            J_.append(('adjA', (g, ev, esaa, o, lo, min(lo + 50000, R.cmax()))))
    for i, row in enumerate(h.FACTORS):
        lo, hi, up = hun_domain(row)
        for a0 in range(lo, hi, 100000):
            J_.append(('adjH', (i, a0, min(a0 + 100000, hi), up)))
    # the C11 equality obligations (f = exact spec) for the four table systems
    J_ += [('c11', j) for j in ([('tyrving', (g, ev, tier)) for g, ev in C11.ty_rows()] +
                                [('qkids', (ct, ev, tier)) for ct in sorted(qk._qkidsTables) for ev in qk._qkidsTables[ct]] +
                                [('sportshall', (ev, tier, fm)) for ev in sh.RAWDATA[0][1:] for fm in C11.sh_forms(ev)] +
                                [('bulgarian', (key, tier)) for key in real_module('athlib.bulgarian_score').scores])]
    results = report.pool_map(_work, J_)
    adjA, adjH = {}, {}
    nA = nH = 0
    sampled = False
    for res in results:
        if isinstance(res, dict) and '_crash' in res:
            U.absorb(run, res)
            continue
        kind = res[0]
        if kind == 'lem':
            for r in res[2]:
                run.record(r['name'], r['kind'], r['verdict'], r['backend'], r['time'], res[1])
                if r.get('smt2') and not sampled and len(r['smt2']) < 5000:
                    run.sample(dict(obligation=r['name'], verdict='unsat', smt2=r['smt2']))
                    sampled = True
                if r['verdict'] == 'refuted':
                    rep, bad = conc_lemma(r)
                    run.violation(r['name'], rep, bad)
        elif kind == 'adjA':
            n, bad = res[2]
            nA += n
            adjA.setdefault(res[1], []).extend(bad)
        elif kind == 'adjH':
            n, bad = res[2]
            nH += n
            adjH.setdefault(res[1], []).extend(bad)
        elif kind in ('c11', 'c01'):
            r = res[2]
            if '_crash' in r:
                U.absorb(run, r)
                continue
            for d in r['fns']:
                run.add_function(d)

            def on_refuted(x, _res, kind=kind, job=res[1]):
                if kind == 'c11':
                    rep, bad = C11.UNITS[job[0]][1](x)
                else:
                    rep, bad = C01.conc_round(x)
                rep['model'] = x.get('model')
                rep['unit'] = _res['unit']
                if bad:
                    run.violation(x['name'], rep, True)
                else:
                    run.spurious_model(x['name'], rep)
            U.absorb(run, r, on_refuted)
    a = real_module('athlib.athlon_score')
    for key in sorted(set((g, ev, esaa) for g, ev, esaa, o in RS)):
        bad = adjA.get(key, [])
        name = 'athlon/%s/%s%s: every adjacent pair of centi-marks ordered, never negative' % (key[0], key[1], '/esaa' if key[2] else '')
        run.record(name, 'ground', 'refuted' if bad else 'proved', 'ground-evaluation', 0.0, 'athlon-grid')
        if bad:
            c, p0, p1 = bad[0]
            run.violation(name, dict(call='athlon_score(%r,%r,%r) then %r' % (key[0], key[1], (c - 1) / 100, c / 100), observed=[p0, p1],
                                     input=['athlon', key[0], key[1], key[2], c]), True)
    for i, row in enumerate(h.FACTORS):
        bad = adjH.get(i, [])
        name = 'hungarian/%s-%s-%s: every adjacent pair in the defined range ordered, never negative' % tuple(row[:3])
        run.record(name, 'ground', 'refuted' if bad else 'proved', 'ground-evaluation', 0.0, 'hungarian-grid')
        if bad:
            c, p0, p1 = bad[0]
            run.violation(name, dict(call='hungarian_score(%r,%r,%r,%r) then %r' % (row[0], row[1], row[2], (c - 1) / 100, c / 100), observed=[p0, p1],
                                     input=['hungarian', i, c, hun_domain(row)[2]]), True)
    nB = bulgarian_ground(run)
    run.extra['exhaustive'] = True
    run.extra['adjacent_pairs_evaluated'] = dict(athlon=nA, hungarian=nH, bulgarian=nB)
    run.bounded.append(dict(what='adjacent-pair sweeps of the real athlon/hungarian/bulgarian scorers over their complete 0.01 grids',
                            bound='complete', evaluations=nA + nH + nB, distinct_nontrivial=nA + nH + nB, decides='the ground adjacency obligations'))
    return run.finish()
