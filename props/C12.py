"""C12 - performance validation returns plausible, well-formed marks or the given error.

Under contract: utils.check_performance_for_discipline (field_event_record, get_distance and
format_seconds_as_time inlined / by contract).

Symbolic: for a set of disciplines covering every branch of the cascade (sprints, 400, 800/1500/3000, long track,
road, XC, walks, field, multi) and every TEXT SHAPE of the admissible-text grammar (1-3 colon fields of 1-2 digits,
0-3 decimals with or without the point, dot/comma/semicolon spellings) with symbolic digits: only the caller's error
class escapes; a returned text has seconds (and, under hours, minutes) below 60; the duration it denotes keeps
distance/duration within the documented limits (<= 11 m/s up to 400 m, <= 10 m/s above, >= 0.5 m/s); field marks have
two decimals and stay below record x ulpc; multi-event scores are integers below 10000; validating the returned text
again returns it unchanged.
Bounded (labelled so): the same run-time contract on the real function for event codes drawn from the whole accepted
language x a grammar of plausible and implausible texts (junk included) x gender x precision x a custom error class."""
import itertools
import random
import re
from fractions import Fraction

import z3

from pyvc import report, unit as U, langgen as G
from pyvc.core import ctx, OutOfSubset
from pyvc.values import SInt, zbool, zint, mkbool
from pyvc.builtins_sym import SFmt, sym_eq
from pyvc.instrument import instrument
from pyvc import sstr as S
from pyvc import floats as F
from pyvc.util import real_module
from specs import decimal_text as DT

PROP = 'C12'


class CustomError(Exception):
    pass


REFUSED = ('the returned value is refused when validated again',)


def utils():
    return real_module('athlib.utils')


def codes():
    return real_module('athlib.codes')


DISCIPLINES = ['60', '100', '200', '300', '400', '600', '800', '1000', '1500', '3000', '5000', '10000', 'MAR', 'XC', '3KW', '110H', '4x100', 'HJ', 'JT', 'SP', 'CT', 'jt',
               'JT800', 'SP7.26K', 'DEC', 'hep']


def kind_of(d):
    """the clause of the property that applies to an event code, from the event-code families themselves (the regular
    languages of C04), not from the membership tests the validator happens to use"""
    c = codes()
    if c.PAT_RACES_FOR_DISTANCE.match(d) or d.upper() in c.CUSTOM_EVENTS:
        return 'free'
    if c.PAT_FIELD.match(d):
        return 'field'
    if d.upper() in c.MULTI_EVENTS or (getattr(c, 'PAT_MULTI', None) is not None and c.PAT_MULTI.match(d)):
        return 'multi'
    return 'timed'


# ---------------------------------------------------------------------------- concrete contract (oracle for replay and stand-in)
def record_spec(discipline, gender):
    """the world record the property measures a field mark against: the table row of the gender in any letter case, the
    overall row for any other gender text (read from the data table, not through field_event_record)"""
    T = utils().FIELD_EVENT_RECORDS_BY_GENDER
    g = gender.lower() if isinstance(gender, str) else 'all'
    base = re.match(r'[A-Za-z]*', discipline).group(0).upper()          # 'JT800' -> 'JT', 'sp 7.26kg' -> 'SP'
    return T[g if g in ('m', 'f') else 'all'].get(base)        # (that the rows in use are the written ones: records_table_obligations)


def records_table_obligations(run):
    """the record a mark is measured against is the one WRITTEN in the table of the caller's gender: the rows in use equal the
    literals of the source text (nothing rewrites them at import or later), the rows are distinct objects, and the overall row
    is the larger of the two per event"""
    import ast, inspect
    u = utils()
    T = u.FIELD_EVENT_RECORDS_BY_GENDER
    src = ast.parse(inspect.getsource(u))
    lit = {}
    for n in ast.walk(src):
        tgt = n.target if isinstance(n, ast.AnnAssign) else (n.targets[0] if isinstance(n, ast.Assign) and len(n.targets) == 1 else None)
        if isinstance(tgt, ast.Name) and tgt.id == 'FIELD_EVENT_RECORDS_BY_GENDER' and isinstance(getattr(n, 'value', None), ast.Call):
            for kw in n.value.keywords:
                try:
                    if isinstance(kw.value, ast.Call):
                        lit[kw.arg] = {k2.arg: ast.literal_eval(k2.value) for k2 in kw.value.keywords}
                    else:
                        lit[kw.arg] = ast.literal_eval(kw.value)
                except Exception:
                    pass
    checks = []
    for g in ('m', 'f'):
        if g in lit:
            checks.append(('records/row-%s-in-use-is-the-literal-of-the-source' % g, T.get(g) == lit[g],
                           'row %r in use %r, written in the source %r' % (g, {k: v for k, v in (T.get(g) or {}).items() if lit[g].get(k) != v}, {k: v for k, v in lit[g].items() if (T.get(g) or {}).get(k) != v})))
    checks.append(('records/rows-are-distinct-objects', len({id(T[k]) for k in T}) == len(T), 'two gender rows are one dict object'))
    if 'm' in T and 'f' in T and 'all' in T:
        src_m, src_f = lit.get('m', T['m']), lit.get('f', T['f'])
        want = {k: max(src_m[k], src_f.get(k, src_m[k])) for k in src_m}
        checks.append(('records/overall-row-is-the-larger-of-the-two', T['all'] == want, 'overall row %r' % ({k: v for k, v in T['all'].items() if want.get(k) != v},)))
    for name, ok, what in checks:
        run.record(name, 'ground', 'proved' if ok else 'refuted', 'ground-evaluation', 0.0, 'records')
        if not ok:
            # a mark between 120 % of the written record and 120 % of the record in use shows it on the real function
            w = None
            for g in ('m', 'f'):
                for k, v in (lit.get(g) or {}).items():
                    used = (T.get(g) or {}).get(k)
                    if used is not None and used != v:
                        mark = '%.2f' % (min(used, v) * 1.2 + abs(used - v) * 0.6)
                        w = (k, mark, g.upper(), None)
            if w and contract(*w):
                run.violation(name, dict(call='check_performance_for_discipline(%r, %r, gender=%r)' % w[:3], observed=contract(*w), input=list(w)), True)
            else:
                run.violation(name, dict(call='FIELD_EVENT_RECORDS_BY_GENDER', observed=what, input=None), False)
    return lit


def result_ok(discipline, gender, prec, text, outcome):
    """outcome: ('ret', value) | ('exc', exception class name is errorKlass?) -> None if the contract holds, else what is wrong"""
    u = utils()
    if outcome[0] == 'exc':
        return None if outcome[1] else 'raised %s instead of the error class supplied' % outcome[2]
    r = outcome[1]
    if not isinstance(r, str):
        return 'returned %r, not a string' % (r,)
    k = kind_of(discipline)
    if discipline.lower() == 'xc' and r == '':
        return None
    if k == 'free':
        return None
    if k == 'multi':
        return None if re.match(r'^\d+$', r) and int(r) < 10000 else 'multi-event score %r' % r
    if k == 'field':
        if not re.match(r'^\d+\.\d\d$', r):
            return 'field mark %r is not a two-decimal number' % r
        rec = record_spec(discipline, gender)
        if rec and float(r) > rec * 1.2 + 0.005:
            return 'field mark %r absurdly beyond the record %r' % (r, rec)
        return None
    m = re.match(r'^(?:(\d+):)?(?:(\d+):)?(\d+)(?:\.(\d+))?$', r)
    if not m:
        return 'timed result %r is not h:mm:ss.xx text' % r
    h, mi, s, fr = m.groups()
    if h is not None and mi is None:
        h, mi = None, h
    if mi is not None and (int(s) >= 60 or len(s) != 2):
        return 'seconds not below 60 / two digits in %r' % r
    if h is not None and (int(mi) >= 60 or len(mi) != 2):
        return 'minutes not below 60 / two digits in %r' % r
    dur = Fraction(int(h or 0) * 3600 + int(mi or 0) * 60 + int(s)) + (Fraction(int(fr), 10 ** len(fr)) if fr else 0)
    dist = u.get_distance(discipline)
    if dist and not dur:
        return 'a zero time %r for %s m' % (r, dist)
    if dist and dur:
        v = Fraction(dist) / dur
        lim = 11 if dist <= 400 else 10
        if v > lim + Fraction(1, 100):
            return '%r for %s m is %.2f m/s, above the sanity limit' % (r, dist, float(v))
        if v < Fraction(1, 2) - Fraction(1, 100):
            return '%r for %s m is %.2f m/s, below the sanity limit' % (r, dist, float(v))
    return None


def call_real(discipline, text, gender='all', prec=None):
    u = utils()
    try:
        return ('ret', u.check_performance_for_discipline(discipline, text, gender=gender, errorKlass=CustomError, prec=prec))
    except CustomError:
        return ('exc', True, 'CustomError')
    except Exception as e:
        return ('exc', False, type(e).__name__)


def witness(discipline, text, gender, prec, what):
    """facts about a failing call that known-finding predicates may use"""
    o = call_real(discipline, text, gender, prec)
    try:
        dist = utils().get_distance(discipline)
    except Exception:
        dist = None
    return dict(what=what, disc=discipline, text=text, prec=prec, gender=gender, dist=dist, returned=o[1] if o[0] == 'ret' else None)


def contract(discipline, text, gender='all', prec=None):
    o = call_real(discipline, text, gender, prec)
    w = result_ok(discipline, gender, prec, text, o)
    if w:
        return w
    if o[0] == 'ret' and o[1] != '':
        o2 = call_real(discipline, o[1], gender, prec)
        if o2 != o:
            return 'validating the returned %r again gives %r' % (o[1], o2[1] if o2[0] == 'ret' else 'an error')
    return None


# ---------------------------------------------------------------------------- symbolic
def text_shapes(tier):
    out = []
    decs = [None, ('.', 1), ('.', 2), ('.', 3), ('', 2)]
    for nf in (1, 2, 3):
        for lens in itertools.product((1, 2), repeat=nf):
            if tier == 'quick' and nf == 3 and lens not in ((1, 2, 2), (2, 2, 2)):
                continue
            for dec in decs:
                if tier == 'quick' and ((nf == 3 and (dec not in (None, ('.', 2)) or (lens == (2, 2, 2) and dec is not None)))
                                        or (nf == 2 and dec == ('', 2))):
                    continue        # the long shapes with many decimals take minutes: thorough tier
                for sep in ((':',) if nf > 1 else ('',)):
                    out.append((lens, dec, sep, '.'))
    # French comma, semicolon separator, Excel zero prefix
    out += [((2,), ('.', 2), '', ','), ((1, 2), None, ';', '.'), ((1, 2), ('.', 1), ';', '.'), ((1, 2, 2), None, ';', '.')]
    return out


def mk_text(shape):
    lens, dec, sep, point = shape
    classes = []
    for i, L in enumerate(lens):
        if i:
            classes.append(sep)
        classes += [S.DIGITS] * L
    if dec is not None:
        p, n = dec
        if p:
            classes.append(point)
        classes += [S.DIGITS] * n
    return classes


def parse_result(r):
    """shape-typed result -> (shape ok?, hours, minutes, seconds-int, fraction cells) as z3 terms / cells"""
    cells = list(S.cells_of(r))
    fields, cur = [], []
    for c in cells:
        if isinstance(c, str) and c == ':':
            fields.append(cur)
            cur = []
        else:
            cur.append(c)
    fields.append(cur)
    last = fields[-1]
    dot = [i for i, c in enumerate(last) if isinstance(c, str) and c == '.']
    ip, fp = (last[:dot[0]], last[dot[0] + 1:]) if dot else (last, [])
    parts = fields[:-1] + [ip]
    for fld in parts + [fp]:
        for c in fld:
            if isinstance(c, str):
                if c not in '0123456789':
                    return None
            elif not c.cc.subset(S.DIGITS):
                return None
    if not (1 <= len(parts) <= 3) or any(not f for f in parts) or len(dot) > 1:
        return None
    return parts, fp


def unit_sym(args):
    disc, shape, prec, gender = args
    u = utils()
    gd = instrument(u.get_distance)
    fer = instrument(u.field_event_record)
    fsat = instrument(u.format_seconds_as_time, shadows={'round_up_str_num': DT.round_up_stub})
    PATP = codes().PAT_PERF

    class PerfPat(object):
        """a digit/punctuation pattern on a shape-typed text whose symbolic cells are all ASCII digits: the outcome depends on
        the shape only"""
        def __init__(self, PATP):
            self.PATP = PATP

        def match(self, s):
            PATP = self.PATP
            if isinstance(s, SFmt):
                s = s.force()
            if isinstance(s, str):
                return PATP.match(s)
            rep = ''.join(c if isinstance(c, str) else '5' for c in s.cells)
            if not all(isinstance(c, str) or c.cc.subset(S.DIGITS) for c in s.cells):
                raise OutOfSubset('PAT_PERF on a text with non-digit symbolic cells')
            return PATP.match(rep)
    f = instrument(u.check_performance_for_discipline, shadows={'get_distance': gd.fn, 'field_event_record': fer.fn,
                                                                'format_seconds_as_time': fsat.fn, 'PAT_PERF': PerfPat(PATP),
                                                                'PAT_LONG_SECONDS': PerfPat(codes().PAT_LONG_SECONDS)})
    kind = kind_of(disc)
    dist = u.get_distance(disc)
    rec = record_spec(disc, gender)

    def run():
        t = S.SStr.fresh('t', mk_text(shape))
        ctx().extra = t
        r = f(disc, t, gender=gender, errorKlass=CustomError, prec=prec)
        if isinstance(r, SFmt):
            r = r.force()
        # idempotence: validate the returned text again
        try:
            r2 = f(disc, r, gender=gender, errorKlass=CustomError, prec=prec)
        except CustomError as e:
            return r, REFUSED
        if isinstance(r2, SFmt):
            r2 = r2.force()
        return r, r2

    def post(p, c):
        name = 'check_performance_for_discipline'
        if p.outcome == 'exc':
            c.oblige('%s/only-the-supplied-error-class-escapes' % name, isinstance(p.value, CustomError), 'raises',
                     meta=dict(exc=type(p.value).__name__, msg=str(p.value)[:60]))
            return
        if p.outcome != 'ret':
            return
        r, r2 = p.value
        if r2 is REFUSED:
            if not (disc.lower() == 'xc' and isinstance(r, str) and r == ''):
                c.oblige('%s/validating-the-result-again-is-accepted' % name, False, 'post', meta=dict(result=repr(r)[:80]))
        else:
            c.oblige('%s/validating-the-result-again-returns-it-unchanged' % name, zbool(sym_eq(r, r2)), 'post', meta=dict(result=repr(r)[:80]))
        if kind == 'multi':
            cells = list(S.cells_of(r))
            ok = all((isinstance(x, str) and x in '0123456789') or (isinstance(x, S.Var) and x.cc.subset(S.DIGITS)) for x in cells) and cells
            c.oblige('%s/multi-event-score-is-an-integer-below-10000' % name, z3.And(z3.BoolVal(bool(ok)), DT.digits_value(cells) < 10000) if ok else False, 'post')
            return
        pr = parse_result(r)
        if pr is None:
            c.oblige('%s/result-is-well-formed-text' % name, False, 'post', meta=dict(result=repr(r)[:80]))
            return
        parts, fp = pr
        if kind == 'field':
            ok = len(parts) == 1 and len(fp) == 2
            c.oblige('%s/field-mark-has-two-decimals' % name, ok, 'post', meta=dict(result=repr(r)[:80]))
            if ok and rec:
                centi = DT.digits_value(parts[0]) * 100 + DT.digits_value(fp)
                c.oblige('%s/field-mark-not-absurdly-beyond-the-record' % name, centi <= int(rec * 120) + 1, 'post')
            return
        conds = []
        for k, fld in enumerate(parts):
            if k > 0:
                conds.append(z3.And(z3.BoolVal(len(fld) == 2), DT.digits_value(fld) < 60))
        c.oblige('%s/seconds-and-minutes-below-60' % name, z3.And(*conds) if conds else True, 'post', meta=dict(result=repr(r)[:80]))
        if dist:
            secs = z3.IntVal(0)
            for fld in parts:
                secs = secs * 60 + DT.digits_value(fld)
            den = 10 ** len(fp)
            dur = secs * den + (DT.digits_value(fp) if fp else 0)       # duration * den
            lim = 11 if dist <= 400 else 10
            # dist/dur_s <= lim + 0.01   and   >= 0.5 - 0.01   (dur_s = dur/den)
            c.oblige('%s/speed-within-the-documented-limits' % name,
                     z3.And(dur > 0, 100 * dist * den <= (100 * lim + 1) * dur, 100 * dist * den >= 49 * dur), 'post', meta=dict(result=repr(r)[:80]))

    res = U.verify('check_performance[%s,%s,prec=%s%s]' % (disc, ''.join(x if isinstance(x, str) else 'd' for x in mk_text(shape)), prec,
                                                             '' if gender == 'all' else ',gender=' + gender), run, post,
                   timeout_ms=20000, want_sample=(disc == '800' and shape == ((1, 2), ('.', 2), ':', '.') and prec is None))
    for x in res['results']:
        x['ctx'] = dict(disc=disc, classes=[y if isinstance(y, str) else 'd' for y in mk_text(shape)], prec=prec, gender=gender)
    res['fns'] = [x.describe() for x in (f, gd, fer, fsat)]
    return res


def conc(r):
    cx = r['ctx']
    g = cx.get('gender', 'all')
    for m in [r.get('model') or {}] + list(r.get('alt_models') or []):
        t = ''.join(c if c != 'd' else chr(int(m.get('t_%d' % i, 53))) for i, c in enumerate(cx['classes']))
        w = contract(cx['disc'], t, g, cx['prec'])
        if w:
            break
    return dict(call='check_performance_for_discipline(%r, %r, gender=%r, errorKlass=CustomError, prec=%r)' % (cx['disc'], t, g, cx['prec']),
                observed=w or 'contract holds', input=[cx['disc'], t, g, cx['prec']]), bool(w)


# ---------------------------------------------------------------------------- bounded stand-in
def gen_text(rnd):
    r = rnd.random()
    d = lambda n: ''.join(rnd.choice('0123456789') for _ in range(n))
    if r < 0.08:
        return rnd.choice(['', ' ', 'abc', '9.73w', '1:17:42:03', '--', '1e3', 'nan', 'inf', '١٢', '12:', ':12', '1..2', '1,2,3', '0:103', '٣:٣٣', '1:2:3:4', '2.3.4'])
    nf = rnd.choice([1, 1, 2, 2, 3])
    fields = [d(rnd.choice([1, 2, 2, 3])) for _ in range(nf)]
    if rnd.random() < 0.2:
        fields[0] = rnd.choice(['0', '00']) if nf > 1 else fields[0]
    if rnd.random() < 0.3:
        fields = [str(rnd.randrange(0, 75)).zfill(rnd.choice([1, 2])) for _ in fields]
    sep = rnd.choice([':', ':', ':', ';', '.'])
    t = sep.join(fields)
    if rnd.random() < 0.6:
        t += rnd.choice(['.', '.', ',', '']) + d(rnd.choice([1, 2, 2, 3, 4]))
    if rnd.random() < 0.1:
        t = ' ' + t + '  '
    return t


def standin_chunk(args):
    seed, n = args
    rnd = random.Random(seed)
    lang = G.strings(codes().PAT_EVENT_CODE, 1)
    loose = ['100m', '200m', '400m', '800m', '1500m', '3000m', '60m', 'Mar', 'xc', '3000mW', '100M', 'HJ', 'LJ', 'TJ', 'PV', 'SP', 'DT', 'HT', 'JT', 'WT',
             'DEC', 'HEP', 'PEN', 'T26', 'h1', 'l9'] + DISCIPLINES
    bad = []
    cnt = 0
    directed = [('100', '4:05:33'), ('MAR', '81:93'), ('800', '1:59.999'), ('JT', '104.80'), ('200', '4:05:33'), ('HM', '59:60'), ('1500', '3:59.996'),
                ('10000', '59:59.999'), ('MAR', '1:59:59.999'), ('400', '59.999'), ('5000', '13:60'), ('MAR', '2:60:00'), ('DT', '76.80'), ('HT', '104.0')]
    for i in range(n):
        if i < len(directed) and seed % 8 == 0:
            disc, t = directed[i]
        else:
            disc = rnd.choice(loose) if rnd.random() < 0.7 else rnd.choice(lang)
            t = gen_text(rnd)
        gender = rnd.choice(['all', 'm', 'f', 'M', 'F', 'x'])
        prec = rnd.choice([None, None, 0, 1, 2, 3])
        cnt += 1
        try:
            w = contract(disc, t, gender, prec)
        except Exception as e:        # the oracle itself must not fail
            w = None
        if w:
            bad.append((disc, t, gender, prec, w))
            if len(bad) > 30:
                break
    return cnt, bad


def boundary_grid():
    """directed entries at the seams of the cascade: rounding carries (seconds/minutes 59 with 2-4 decimals near .995), tiny
    and zero durations, and field marks around 120 % of each gender's record"""
    u = utils()
    out = []
    for disc in ['60', '100', '400', '800', '1500', '5000', '10000', 'MAR', 'HM', '3KW', '4x400']:
        for h in ['', '0:', '1:', '2:', '01:']:
            for m in ['', '0:', '00:', '59:', '1:', '58:']:
                if h and not m:
                    continue
                for sec in ['59', '00', '0', '60', '09']:
                    for dec in ['', '.99', '.994', '.995', '.996', '.999', '.9999', '.004', '.005', '.001', ',999', '.0']:
                        out.append((disc, h + m + sec + dec, 'all'))
        for t in ['0.004', '0.001', '0:00.004', '0,004', '00.003', '0.0049', '0.005', '0.0051', '0:0.001', '0:00:00.002', '.004', '000.004']:
            out.append((disc, t, 'all'))
    T = u.FIELD_EVENT_RECORDS_BY_GENDER
    for ev in T['all']:
        for g in ['m', 'M', 'f', 'F', 'all', 'ALL', 'x', 'Male']:
            for base in (T['m'][ev], T['f'][ev]):
                for d in (-2, -1, 0, 1, 2, 30):
                    out.append((ev, '%.2f' % (base * 1.2 + d / 100.0), g))
                    out.append((ev.lower(), '%.2f' % (base * 1.2 + d / 100.0), g))
    # ... and for EVERY spelling of the field codes the vocabulary admits (weights, units, the white space the patterns allow,
    # letter case): one representative per shape of the throws / jumps patterns
    from pyvc import shapes as SH
    from pyvc import sstr as S
    c = codes()
    rnd = random.Random(5)
    for pat in (c.PAT_THROWS, c.PAT_JUMPS):
        for shape in SH.shapes(pat, 1):
            for variant in range(2):
                chars = []
                for cell in shape:
                    if isinstance(cell, str):
                        chars.append(cell)
                    elif cell.r == S.WSCC.r:
                        chars.append(' ' if variant == 0 else rnd.choice('\t\xa0 '))
                    elif cell.r == S.DIGITS.r:
                        chars.append(rnd.choice('1245'))
                    else:
                        opts = [chr(a) for a, b in cell.r for a in range(a, b + 1)][:6]
                        chars.append(opts[variant % len(opts)])
                code = ''.join(chars)
                base = re.match(r'[A-Za-z]*', code).group(0).upper()
                if base in T['all'] and c.PAT_FIELD.match(code):
                    for d in (-1, 1, 30, 5000):
                        out.append((code, '%.2f' % (T['all'][base] * 1.2 + d / 100.0), 'all'))
                        out.append((code, '%.2f' % (T['f'][base] * 1.2 + d / 100.0), 'f'))
    return out


def boundary_chunk(args):
    i, n = args
    grid = boundary_grid()
    bad = []
    cnt = 0
    for disc, t, g in grid[i::n]:
        for prec in (None, 2, 3):
            cnt += 1
            try:
                w = contract(disc, t, g, prec)
            except Exception:
                w = None
            if w:
                bad.append((disc, t, g, prec, w))
    return cnt, bad[:40]


def _work(job):
    if job[0] == 'boundary':
        return ('standin',) + boundary_chunk(job[1])
    if job[0] == 'sym':
        r = unit_sym(job[1])
        r['job'] = job
        return r
    return ('standin',) + standin_chunk(job[1])


def replay(rep):
    disc, t, gender, prec = rep['input']
    w = contract(disc, t, gender, prec)
    print('replay %s: check_performance_for_discipline(%r, %r, gender=%r, prec=%r) -> %r' % (rep['obligation'], disc, t, gender, prec, w or call_real(disc, t, gender, prec)))
    print('VIOLATION reproduced' if w else 'not reproduced on this tree')
    return 1 if w else 0


def main(tier, seed):
    run = report.Run(PROP, tier, seed)
    run.expected_min_obligations = 500
    run.level_claim = 'other'
    run.explanation = __doc__
    run.assume('pyvc proxies/rewrites (shape-typed strings, float proxy)', 'z3 soundness', 'digit contents ASCII',
               "'%.nf' % x and float(str) correctly rounded (CPython)", 'text shapes bounded: <= 3 fields of 1-2 digits, <= 3 decimals',
               'speed limits checked with a 0.01 m/s tolerance (the code compares binary quotients)')
    from pyvc.frames import frame_obligations
    frame_obligations(run, [utils().check_performance_for_discipline, utils().field_event_record, utils().get_distance])
    records_table_obligations(run)
    shapes = text_shapes(tier)
    J = []
    # one discipline on each side of every distance threshold of the cascade (200, 400, 800), the three with the h:m:s re-reading, road, field
    # codes in their three spellings (base, lower case, weight-specific), multi
    discs = (DISCIPLINES + ['DT 1.5K', 'SP 7.26 kg']) if tier != 'quick' else ['100', '300', '400', '600', '800', '1500', '3000', '5000', 'MAR', 'XC', 'HJ', 'JT', 'CT', 'jt',
                                                                                   'JT800', 'DT 1.5K', 'DEC']
    for disc in discs:
        for shape in shapes:
            J.append(('sym', (disc, shape, None, 'all')))
        if kind_of(disc) == 'multi':
            # scores of five and more digits pass the admissible-text pattern as dd + digits: the bound 10000 lives there
            for dec in (('', 3), ('', 4)) if tier == 'quick' else (('', 3), ('', 4), ('', 5), ('', 6)):
                J.append(('sym', (disc, ((2,), dec, '', '.'), None, 'all')))
                J.append(('sym', (disc, ((1,), dec, '', '.'), None, 'all')))
        if kind_of(disc) == 'field':
            # long marks: field events also admit 3-6 digits (PAT_LONG_SECONDS); the optional point lets 7 through
            for L in ((3,), (6,), (7,)) if tier == 'quick' else ((3,), (4,), (5,), (6,), (7,), (8,)):
                for dec in (None, ('.', 2), ('.', 1)):
                    J.append(('sym', (disc, (L, dec, '', '.'), None, 'all')))
            # the record is the one of the caller's gender, in any letter case; other texts mean the overall record
            for g in (['M', 'f', 'F'] if tier == 'quick' else ['m', 'M', 'f', 'F', 'x', 'ALL']):
                for shape in shapes:
                    if len(shape[0]) == 1:
                        J.append(('sym', (disc, shape, None, g)))
        if tier != 'quick':
            for shape in shapes[::5]:
                J.append(('sym', (disc, shape, 2, 'all')))
            for shape in shapes[2::7]:
                J.append(('sym', (disc, shape, 0, 'all')))
                J.append(('sym', (disc, shape, 3, 'all')))
        elif kind_of(disc) == 'timed' and disc in ('100', '800', 'MAR', 'XC'):
            # with a precision option the text goes through format_seconds_as_time (callee contract): cheap shapes only
            for shape in [((2,), ('.', 2), '', '.'), ((1,), ('.', 3), '', '.'), ((2,), ('.', 3), '', '.'), ((1, 2), None, ':', '.'), ((1, 2, 2), None, ':', '.')]:
                J.append(('sym', (disc, shape, 0, 'all')))
    n_st = 3000 if tier == 'quick' else 60000
    J += [('standin', (seed * 16 + i, n_st // 16)) for i in range(16)]
    J += [('boundary', (i, 8)) for i in range(8)]
    results = report.pool_map(_work, J)
    cnt = 0
    cache = {}
    classes = {}
    for res in results:
        if isinstance(res, tuple):
            cnt += res[1]
            for b in res[2]:
                e = run.match_known('standin/contract-on-the-real-function', witness(*b))
                if e:
                    run.known_finding(e)
                else:
                    classes.setdefault(re.sub(r"'[^']*'|\d+(\.\d+)?", '#', b[4]), []).append(b)
            continue
        if '_crash' in res:
            U.absorb(run, res)
            continue
        for d in res['fns']:
            run.add_function(d)

        def on_refuted(r, _res):
            rep, bad = conc(r)
            rep = dict(rep, model=r.get('model'), unit=_res['unit'], solver='z3 sat', meta=r.get('meta'))
            if bad:
                e = run.match_known(r['name'], witness(*rep['input'], str(rep.get('observed'))))
                if e:
                    run.known_finding(e)
                else:
                    run.violation(r['name'], rep, True)
            else:
                run.spurious_model(r['name'], rep)
        U.absorb(run, res, on_refuted)
    for k, v in sorted(classes.items(), key=lambda kv: -len(kv[1]))[:6]:
        disc, t, gender, prec, w = v[0]
        run.violation('standin/contract-on-the-real-function', dict(call='check_performance_for_discipline(%r, %r, gender=%r, prec=%r)' % (disc, t, gender, prec),
                                                                     observed=w, input=[disc, t, gender, prec], more=[list(x[:2]) for x in v[:6]]), True)
    run.bounded.append(dict(what='run-time contract on the real function: codes from the whole accepted language and loose names x a grammar of plausible and '
                                 'implausible texts x gender x precision x custom error class', bound='%d calls, seed %d' % (cnt, seed), evaluations=cnt,
                            distinct_nontrivial=cnt, decides='second line; undecided obligations'))
    run.standin_covers('*/in-subset')
    return run.finish()
