"""C07 - event-code normalisation yields one canonical, valid, stable spelling.

Under contract: utils._norm_tzeroes, _norm_cm, _norm_m, _norm_kg, _norm_g (symbolic: shape-typed strings from the
language of "their" pattern group, every digit content, every whitespace character), normalize_event_code,
check_event_code; the _gnorms map (ground: every key is a named group of the general pattern).

Symbolic, per helper and shape: the numeric value is preserved, the result is in the canonical sub-language (no
whitespace; after a point no trailing zero and no bare point; unit K / cm / m / none), the helper is idempotent.
Bounded (labelled so): on the language of the general pattern enumerated from its syntax tree (as C10) and, for each
code, its case / space / unit-suffix / trailing-zero variants: the normal form is accepted, free of whitespace,
unchanged by normalising again, in the same families, and equal across the variants; near-miss strings are refused
with ValueError."""
import random
import re

import z3

from pyvc import report, unit as U, langgen as G
from pyvc.core import ctx
from pyvc.values import zbool, And
from pyvc.builtins_sym import sym_eq
from pyvc.instrument import instrument
from pyvc import sstr as S
from pyvc.util import real_module
from specs import decimal_text as DT

PROP = 'C07'
FAMS = ['PAT_THROWS', 'PAT_JUMPS', 'PAT_TRACK', 'PAT_HURDLES', 'PAT_ROAD', 'PAT_RELAYS', 'PAT_MULTI', 'PAT_RACES_FOR_DISTANCE',
        'PAT_HIGHSCORING_EVENT', 'PAT_LOWSCORING_EVENT']


def utils():
    return real_module('athlib.utils')


def codes():
    return real_module('athlib.codes')


# ---------------------------------------------------------------------------- symbolic: the helper normalisers
def helper_shapes():
    """(helper, list of cell classes, unit suffix of the canonical result)"""
    W, D = S.WSCC, S.DIGITS
    out = []
    num_shapes = []
    for nint in (1, 2, 3):
        for frac in (None, 0, 1, 2, 3):
            num_shapes.append([D] * nint + ([] if frac is None else ['.'] + [D] * frac))
    for num in num_shapes:
        for lead in ([], [W]):
            for mid in ([], [W]):
                if len([x for x in num if x is D or x == '.']) and num[0] is D and (len(num) == 1 or True):
                    for k in ('K', 'k'):
                        for g in ([], ['G'], ['g']):
                            if len([x for x in num if x is D]) - (0) >= 1:
                                out.append(('_norm_kg', lead + num + mid + [k] + g, 'K'))
        out.append(('_norm_cm', num + ['c', 'm'], 'cm'))
        out.append(('_norm_m', num + ['m'], 'm'))
        for mid in ([], [W]):
            for g in ([], ['g']):
                out.append(('_norm_g', num + mid + g, ''))
        out.append(('_norm_tzeroes', num, ''))
        out.append(('_norm_tzeroes', [W] + num + [W], ''))
    return out


def dec_value_cells(cells):
    """(numerator z3 Int, number of decimals) of the digits[.digits] prefix of a cell list"""
    ip, fp, dot = [], [], False
    for c in cells:
        if isinstance(c, str) and c == '.':
            dot = True
            continue
        if (isinstance(c, str) and c in '0123456789') or (isinstance(c, S.Var) and c.cc.subset(S.DIGITS)):
            (fp if dot else ip).append(c)
        else:
            break
    return DT.digits_value(ip) * 10 ** len(fp) + DT.digits_value(fp), len(fp), len(ip), dot


def unit_helpers(args):
    lo, hi = args
    u = utils()
    shapes = helper_shapes()[lo:hi]
    fns = {}
    res_all = None
    for hname, classes, unit in shapes:
        if hname not in fns:
            sh = {}
            if hname != '_norm_tzeroes':
                sh['_norm_tzeroes'] = fns.get('_norm_tzeroes', instrument(u._norm_tzeroes)).fn
            fns[hname] = instrument(getattr(u, hname), shadows=sh)
            if '_norm_tzeroes' not in fns:
                fns['_norm_tzeroes'] = instrument(u._norm_tzeroes)
        f = fns[hname]

        def run():
            s = S.SStr.fresh('s', classes)
            ctx().extra = s
            r = f(s)
            r2 = f(r)
            return r, r2

        def post(p, c):
            s = c.extra
            if p.outcome == 'exc':
                c.oblige('%s/no-exception' % hname, False, 'raises', meta=dict(exc=type(p.value).__name__))
                return
            r, r2 = p.value
            rc = list(S.cells_of(r))
            # canonical language: digits[.digits] + unit, no whitespace, no trailing zero / bare point after a point
            body = rc[:len(rc) - len(unit)] if unit else rc
            tail = ''.join(x for x in rc[len(rc) - len(unit):] if isinstance(x, str)) if unit else ''
            shape_ok = tail == unit and len(body) >= 1
            for x in body:
                if isinstance(x, str):
                    shape_ok = shape_ok and (x in '0123456789.')
                else:
                    shape_ok = shape_ok and x.cc.subset(S.DIGITS)
            dots = [i for i, x in enumerate(body) if isinstance(x, str) and x == '.']
            shape_ok = shape_ok and len(dots) <= 1 and (not dots or 0 < dots[0] < len(body) - 1)
            c.oblige('%s/result-in-the-canonical-language' % hname, bool(shape_ok), 'post', meta=dict(result=repr(r)))
            if shape_ok and dots:
                last = body[-1]
                c.oblige('%s/no-trailing-zero-after-the-point' % hname, zbool(sym_eq(S.mk((last,)), '0')) == False if not isinstance(last, str)
                         else last != '0', 'post')
            # value preserved
            src = [x for x in S.cells_of(s) if not (isinstance(x, S.Var) and x.cc.subset(S.WSCC))]
            n0, k0, _, _ = dec_value_cells(src)
            n1, k1, _, _ = dec_value_cells(body)
            m = max(k0, k1)
            c.oblige('%s/numeric-value-preserved' % hname, n0 * 10 ** (m - k0) == n1 * 10 ** (m - k1), 'post')
            c.oblige('%s/idempotent' % hname, zbool(sym_eq(r, r2)), 'post')

        r = U.verify('%s[%s]' % (hname, ''.join(x if isinstance(x, str) else ('d' if x is S.DIGITS else '_') for x in classes)), run, post,
                     want_sample=(hname == '_norm_kg' and len(classes) == 5))
        for x in r['results']:
            x['ctx'] = dict(helper=hname, classes=[x_ if isinstance(x_, str) else ('d' if x_ is S.DIGITS else 'w') for x_ in classes])
        if res_all is None:
            res_all = r
        else:
            res_all['results'] += r['results']
            res_all['paths'] += r['paths']
            res_all['wall'] += r['wall']
            res_all['sample'] = res_all['sample'] or r['sample']
    res_all['unit'] = 'helpers[%d:%d]' % (lo, hi)
    res_all['fns'] = [x.describe() for x in fns.values()]
    return res_all


def conc_helper(r):
    cx = r['ctx']
    m = r.get('model') or {}
    s = ''.join(c if c not in ('d', 'w') else chr(int(m.get('s_%d' % i, 48 if c == 'd' else 32))) for i, c in enumerate(cx['classes']))
    f = getattr(utils(), cx['helper'])
    try:
        got = f(s)
        again = f(got)
    except Exception as e:
        return dict(call='%s(%r)' % (cx['helper'], s), observed='raises %s' % type(e).__name__, input=['helper', cx['helper'], s]), True
    num = re.match(r'^\s*(\d+\.?\d*)', s)
    want = float(num.group(1)) if num else None
    got_num = re.match(r'^(\d+\.?\d*)', got)
    bad = (got_num is None or float(got_num.group(1)) != want or re.search(r'\s', got) is not None or again != got
           or re.search(r'\.\d*0(?=\D|$)', got) is not None or re.search(r'\.(?=\D|$)', got) is not None)
    return dict(call='%s(%r)' % (cx['helper'], s), observed=got, input=['helper', cx['helper'], s]), bad


# ---------------------------------------------------------------------------- symbolic: normalize_event_code on every shape
_NSC = {}


def _ns():
    from props import codeshapes as CS
    if 'ns' not in _NSC:
        _NSC['ns'] = (CS.Namespace(['_norm_tzeroes', '_norm_cm', '_norm_m', '_norm_kg', '_norm_g', 'normalize_event_code', 'check_event_code']),
                      CS.sym_patterns(FAMS + ['PAT_EVENT_CODE']))
    return _NSC['ns']


def _leak(e):
    from pyvc.core import proxy_leak, OutOfSubset
    if proxy_leak(e):
        raise OutOfSubset('a proxy reached code outside the encoding: %s' % str(e)[:120])


def _force(x):
    return x.force() if hasattr(x, 'force') else x


def _no_ws(r):
    """z3 condition: no cell of r is a whitespace character"""
    conds = []
    for cl in S.cells_of(r):
        if isinstance(cl, str):
            if cl.isspace():
                return z3.BoolVal(False)
        elif not cl.cc.inter(S.WSCC).empty():
            conds.append(z3.Not(S.WSCC.z3in(cl.cp)))
    return z3.And(*conds) if conds else z3.BoolVal(True)


def _fams(P, x):
    return tuple(bool(P[n].match(x)) for n in FAMS)


def _number_variants(P, s, gnames):
    """spellings of s that differ in the trailing zeros / bare point of one weight or hurdle-specification number: the cells of s
    with '0' appended to a fraction, or '.0' / '.' appended to a whole number (kept only if accepted, checked by the caller)"""
    m = P['PAT_EVENT_CODE'].match(s)
    out = []
    if not m:
        return out
    cells = list(S.cells_of(s))
    for k in gnames:
        a, b = m.span(k)
        if a < 0 or a == b:
            continue
        # the number = leading [ws] digits [. digits] of the group
        i = a
        while i < b and isinstance(cells[i], S.Var) and cells[i].cc.subset(S.WSCC):
            i += 1
        j = i
        dot = None
        while j < b and ((isinstance(cells[j], str) and (cells[j] in '0123456789' or (cells[j] == '.' and dot is None)))
                         or (isinstance(cells[j], S.Var) and cells[j].cc.subset(S.DIGITS))):
            if isinstance(cells[j], str) and cells[j] == '.':
                dot = j
            j += 1
        if j == i:
            continue
        if dot is not None:
            out.append(('%s+0' % k, S.mk(cells[:j] + ['0'] + cells[j:])))
        else:
            out.append(('%s+.0' % k, S.mk(cells[:j] + ['.', '0'] + cells[j:])))
            out.append(('%s+.' % k, S.mk(cells[:j] + ['.'] + cells[j:])))
    return out


def _suffix_variants(s):
    """k <-> kg and (nothing) <-> g at the end of the code"""
    cells = list(S.cells_of(s))
    out = []

    def isin(cl, chars):
        return (isinstance(cl, str) and cl in chars) or (isinstance(cl, S.Var) and cl.cc.subset(S.CC.of(chars)))
    if cells and isin(cells[-1], 'kK'):
        out.append(('k->kg', S.mk(cells + ['g'])))
        out.append(('k->kG', S.mk(cells + ['G'])))
    if len(cells) > 1 and isin(cells[-1], 'gG') and isin(cells[-2], 'kK'):
        out.append(('kg->k', S.mk(cells[:-1])))
    if cells and isin(cells[-1], 'g') and not (len(cells) > 1 and isin(cells[-2], 'kK')):
        out.append(('g->', S.mk(cells[:-1])))
    if cells and (isin(cells[-1], '0123456789')):
        out.append(('->g', S.mk(cells + ['g'])))
    return out


def unit_norm_shapes(job):
    """normalize_event_code on "any content of this shape": accepted, whitespace-free, idempotent, same families; the case /
    spacing / unit-suffix / trailing-zero variants of the same symbolic string normalise to the identical code; and with ONE
    position replaced by an arbitrary character: normalised iff accepted (stripped), ValueError otherwise."""
    from props import codeshapes as CS
    shapes, miss_mode = job
    ns, P = _ns()
    norm = ns['normalize_event_code']
    gnames = list(utils()._gnorms)
    res_all = None

    def merge(r, shape, kind):
        nonlocal res_all
        for x in r['results']:
            x['ctx'] = dict(shape=[c if isinstance(c, str) else list(c.r) for c in shape], kind=kind)
        if res_all is None:
            res_all = r
        else:
            res_all['results'] += r['results']
            res_all['paths'] += r['paths']
            res_all['wall'] += r['wall']
            res_all['assumptions'] = sorted(set(res_all['assumptions']) | set(r['assumptions']))
            res_all['sample'] = res_all['sample'] or r['sample']

    for si, (fam, shape) in enumerate(shapes):
        def run():
            c = ctx()
            s = S.SStr.fresh('s', shape)
            try:
                r = _force(norm(s))
            except Exception as e:
                _leak(e)
                c.oblige('normalize_event_code/an-accepted-code-is-normalised', False, 'raises', meta=dict(exc=type(e).__name__))
                return None
            c.oblige('normalize_event_code/an-accepted-code-is-normalised', isinstance(r, (str, S.SStr)), 'raises')
            if not isinstance(r, (str, S.SStr)):
                return None
            c.oblige('normalize_event_code/normal-form-is-accepted', bool(P['PAT_EVENT_CODE'].match(r)), 'post', meta=dict(result=repr(r)))
            c.oblige('normalize_event_code/normal-form-has-no-whitespace', _no_ws(r), 'post', meta=dict(result=repr(r)))
            try:
                r2 = _force(norm(r))
                c.oblige('normalize_event_code/idempotent', zbool(sym_eq(r2, r)), 'post', meta=dict(result=repr(r), again=repr(r2)))
            except Exception as e:
                _leak(e)
                c.oblige('normalize_event_code/idempotent', False, 'post', meta=dict(result=repr(r), again='raises %s' % type(e).__name__))
            fs = _fams(P, s)
            c.oblige('normalize_event_code/same-families', fs == _fams(P, r), 'post', meta=dict(result=repr(r)))
            # variants of the same symbolic string
            nows = S.mk([cl for cl in S.cells_of(s) if not (isinstance(cl, S.Var) and cl.cc.subset(S.WSCC))])
            vs = [('upper', s.upper()), ('lower', s.lower()), ('no-spaces', nows)]
            if fam == 'PAT_THROWS' or CS.has_spec(shape):
                vs += _suffix_variants(s) + _number_variants(P, s, gnames)
            for name, v in vs:
                if not isinstance(v, (str, S.SStr)) or (isinstance(v, str) and isinstance(s, str) and v == s):
                    continue
                if not P['PAT_EVENT_CODE'].match(v) or _fams(P, v) != fs:
                    continue
                try:
                    rv = _force(norm(v))
                    c.oblige('normalize_event_code/variant-normalises-to-the-identical-code/%s' % name.split('+')[-1].split('>')[-1] if False else
                             'normalize_event_code/variant-normalises-to-the-identical-code', zbool(sym_eq(rv, r)), 'post',
                             meta=dict(variant=name, of=repr(s), result=repr(r), variant_result=repr(rv)))
                except Exception as e:
                    _leak(e)
                    c.oblige('normalize_event_code/variant-normalises-to-the-identical-code', False, 'post', meta=dict(variant=name, exc=type(e).__name__))
            return None
        merge(U.verify('normalize[%s]' % CS.show(shape), run, None, want_sample=(res_all is None)), shape, 'norm')
        # near misses: one position arbitrary
        L = len(shape)
        if miss_mode == 'all' and not CS.has_spec(shape):
            poss = range(L)
        elif miss_mode == 'all':
            poss = sorted({si % L, (si * 7 + 3) % L, L - 1})       # hurdle-specification shapes (130 000 of them): three positions each
        elif miss_mode == 'one':
            poss = [si % L] if L else []
        else:
            poss = []
        for pos in poss:
            mshape = list(shape)
            mshape[pos] = S.ANYCHAR

            def runm():
                c = ctx()
                s = S.SStr.fresh('s', mshape)
                ok = bool(P['PAT_EVENT_CODE'].match(s.strip()))
                try:
                    r = norm(s)
                    c.oblige('normalize_event_code/normalises-exactly-the-accepted-strings', ok, 'post', meta=dict(outcome='normalised'))
                except ValueError:
                    c.oblige('normalize_event_code/normalises-exactly-the-accepted-strings', not ok, 'post', meta=dict(outcome='ValueError'))
                except Exception as e:
                    _leak(e)
                    c.oblige('normalize_event_code/only-ValueError-is-raised', False, 'raises', meta=dict(exc=type(e).__name__))
                return None
            merge(U.verify('near-miss[%s@%d]' % (CS.show(shape), pos), runm, None, want_sample=False), mshape, 'miss')
    res_all['unit'] = 'normalize-on-shapes[%d]' % len(shapes)
    res_all['nshapes'] = len(shapes)
    return res_all


def conc_norm_shape(r):
    from pyvc import shapes as SH
    shape = [c if isinstance(c, str) else S.CC(c) for c in r['ctx']['shape']]
    s = SH.concretise(shape, r.get('model') or {})
    if codes().PAT_EVENT_CODE.match(s.strip()) and codes().PAT_EVENT_CODE.match(s):
        w = check_code(s, random.Random(0))
    elif codes().PAT_EVENT_CODE.match(s.strip()):
        try:
            utils().normalize_event_code(s)
            w = None
        except Exception as e:
            w = 'an accepted code (after stripping) raises %s' % type(e).__name__
    else:
        try:
            utils().normalize_event_code(s)
            w = 'a string that is not an event code was normalised'
        except ValueError:
            w = None
        except Exception as e:
            w = 'raises %s instead of ValueError' % type(e).__name__
    return dict(call='normalize_event_code(%r)' % s, observed=w or 'the run-time contract holds', input=['code', s]), bool(w)


# ---------------------------------------------------------------------------- bounded: the enumerated language and its variants
def families(s):
    c = codes()
    return tuple(n for n in FAMS if getattr(c, n).match(s))


def variants(s, rnd):
    """spellings of the same code: letter case, spaces at the places the pattern admits them, k/kg, g, trailing zeros"""
    out = {s.upper(), s.lower(), s.swapcase()}
    out.add(re.sub(r'\s+', '', s))
    c = codes()
    if not (c.PAT_THROWS.match(s) or 'cm' in s.lower()):
        return [v for v in out if v != s]     # unit suffixes and trailing zeros: implement weights and hurdle specifications only
    out.add(re.sub(r'(?i)(\d)\s*kg?$', r'\1 kg', s))
    out.add(re.sub(r'(?i)(\d)\s*kg?$', r'\1k', s))
    out.add(re.sub(r'(?i)(\d)\s*kg?$', r'\1K', s))
    out.add(re.sub(r'(?i)(\d)\s*kg$', r'\1kG', s))
    out.add(re.sub(r'(\d)(\s*)g$', r'\1', s))
    out.add(re.sub(r'(\d)$', r'\1g', s) if re.match(r'(?i)^s?jt[45678]00$|^ot\d+$', s) else s)
    # trailing zeros / bare point on numbers that already carry a point, or before a unit
    out.add(re.sub(r'(\d\.\d*?)0+(?=\s*(?:cm|m|k|K|$))', r'\1', s))
    out.add(re.sub(r'(\d\.\d+)(?=\s*(?:cm|m\b|[kK]))', r'\g<1>0', s))
    out.add(re.sub(r'(?<![\d.])(\d+)(?=cm)', r'\1.0', s, count=1) if 'cm' in s else s)
    out.add(re.sub(r'(?<![\d.])(\d)(?=\s*[kK][gG]?$)', r'\1.0', s))
    out.add(re.sub(r'(?<![\d.])(\d)(?=\s*[kK][gG]?$)', r'\1.', s))
    return [v for v in out if v != s]


def check_code(s, rnd):
    u = utils()
    c = codes()
    try:
        n = u.normalize_event_code(s)
    except Exception as e:
        return 'normalize_event_code raises %s on an accepted code' % type(e).__name__
    if not isinstance(n, str) or not u.check_event_code(n):
        return 'normal form %r is not accepted' % (n,)
    if re.search(r'\s', n):
        return 'normal form %r contains whitespace' % (n,)
    try:
        if u.normalize_event_code(n) != n:
            return 'normal form %r changes when normalised again (%r)' % (n, u.normalize_event_code(n))
    except Exception as e:
        return 'normalising the normal form %r raises %s' % (n, type(e).__name__)
    if families(n) != families(s):
        return 'normal form %r is in families %r, the code in %r' % (n, families(n), families(s))
    for v in variants(s, rnd):
        if not c.PAT_EVENT_CODE.match(v) or families(v) != families(s):
            continue
        try:
            nv = u.normalize_event_code(v)
        except Exception as e:
            return 'variant %r: raises %s' % (v, type(e).__name__)
        if nv != n:
            return 'variant %r normalises to %r, the code to %r' % (v, nv, n)
    return None


def chunk(args):
    strs, seed = args
    rnd = random.Random(seed)
    bad = []
    for s in strs:
        w = check_code(s, rnd)
        if w:
            bad.append((s, w))
            if len(bad) > 200:
                break
    return len(strs), bad


def refusal(seed, lang):
    """near-miss strings are refused with ValueError and nothing else"""
    rnd = random.Random(seed)
    u = utils()
    c = codes()
    n = 0
    bad = []
    junk = ['', ' ', 'x', '1O0', 'HJJ', 'sst', 'SST', '100 X', '4x', 'x100', '110H1', 'DT1.5kgg', 'JT900', 'T', '123HR', 'H0', 'L10', '٣', '100\x00', 'DT--', '5Kk']
    # history: a near-miss that differs from an accepted spelling only in letter case must still be refused after the accepted
    # spelling was normalised (the answer may not depend on what was asked before)
    for s in [rnd.choice(lang) for _ in range(3000)] + ['SPB', '110H 91.4cm', '4x100M', 'JT800g', 'MILE', '2MT']:
        try:
            u.normalize_event_code(s)
        except Exception:
            continue
        for v in (s.upper(), s.lower(), s.swapcase()):
            if v == s or c.PAT_EVENT_CODE.match(v.strip()):
                continue
            n += 1
            try:
                u.normalize_event_code(v)
                bad.append((v, 'a string that is not an event code was normalised after %r had been' % s))
            except ValueError:
                pass
            except Exception as e:
                bad.append((v, 'raises %s instead of ValueError' % type(e).__name__))
    for s in junk + [rnd.choice(lang) for _ in range(4000)]:
        t = list(s)
        if s not in junk and t:
            i = rnd.randrange(len(t))
            t[i] = rnd.choice('xQ!_-0Z#')
            if rnd.random() < 0.3:
                t.insert(rnd.randrange(len(t) + 1), rnd.choice('xQ!_-'))
        cand = ''.join(t)
        n += 1
        ok = bool(c.PAT_EVENT_CODE.match(cand.strip()))
        try:
            u.normalize_event_code(cand)
            if not ok:
                bad.append((cand, 'a string that is not an event code was normalised'))
        except ValueError:
            if ok:
                bad.append((cand, 'an accepted code was refused'))
        except Exception as e:
            bad.append((cand, 'raises %s instead of ValueError' % type(e).__name__))
    return n, bad[:5]


def _work(job):
    if job[0] == 'helpers':
        r = unit_helpers(job[1])
        r['job'] = job
        return r
    if job[0] == 'chunk':
        return ('chunk',) + chunk(job[1])
    if job[0] == 'shapes':
        r = unit_norm_shapes(job[1])
        r['job'] = job[0]
        return r
    if job[0] == 'matcher':
        from props import codeshapes as CS
        return ('matcher',) + CS.selfcheck_matcher(job[1])
    return ('refusal',) + refusal(job[1], job[2])


def replay(rep):
    inp = rep['input']
    if inp[0] == 'helper':
        r, bad = conc_helper(dict(ctx=dict(helper=inp[1], classes=list(inp[2])), model={}))
        print('replay %s: %s -> %r' % (rep['obligation'], r['call'], r['observed']))
    else:
        s = inp[1]
        if codes().PAT_EVENT_CODE.match(s.strip()):
            w = check_code(s, random.Random(0))
        else:
            try:
                utils().normalize_event_code(s)
                w = 'a string that is not an event code was normalised'
            except ValueError:
                w = None
            except Exception as e:
                w = 'raises %s' % type(e).__name__
        bad = bool(w)
        print('replay %s: %r -> %r' % (rep['obligation'], s, w))
    print('VIOLATION reproduced' if bad else 'not reproduced on this tree')
    return 1 if bad else 0


def main(tier, seed):
    run = report.Run(PROP, tier, seed)
    run.expected_min_obligations = 300
    run.level_claim = 'other'
    run.explanation = __doc__
    run.assume('pyvc proxies/rewrites (shape-typed strings)', 'z3 soundness', 'digit contents ASCII in the symbolic part',
               'helper shapes: 1-3 integer digits, 0-3 decimals, 0-1 whitespace characters (any of the whitespace set) at each admitted place',
               'bounded part: language enumerated from the syntax tree (repeats <= min+1, every class member once, both cases) and its variants')
    u = utils()
    c = codes()
    # ground: the group map refers to named groups of the general pattern
    for k in u._gnorms:
        ok = k in c.PAT_EVENT_CODE.groupindex
        run.record('_gnorms/%s-is-a-named-group-of-the-general-pattern' % k, 'ground', 'proved' if ok else 'refuted', 'ground-evaluation', 0.0, 'gnorms')
        if not ok:
            run.violation('_gnorms/%s' % k, dict(call='PAT_EVENT_CODE.groupindex', observed='no group %r' % k, input=['code', 'DT1.5K']), True)
    run.add_function(instrument(u.normalize_event_code))
    run.add_function(instrument(u.check_event_code))
    from pyvc.frames import frame_obligations
    frame_obligations(run, [u.normalize_event_code, u.check_event_code, u._norm_tzeroes, u._norm_cm, u._norm_m, u._norm_kg, u._norm_g])
    nshapes = len(helper_shapes())
    step = max(1, nshapes // 32)
    J = [('helpers', (i, min(i + step, nshapes))) for i in range(0, nshapes, step)]
    lang = G.strings(c.PAT_EVENT_CODE, 1)
    cs = 4000
    J += [('chunk', (lang[i:i + cs], seed)) for i in range(0, len(lang), cs)] + [('refusal', seed, lang)]
    # symbolic: normalize_event_code on every shape of the language (+ one arbitrary character per shape: the refusal clause)
    from props import codeshapes as CS
    shp = CS.shape_sets(tier, spec_every=(2, 200))
    njobs = max(1, min(96, len(shp) // 12))
    J += [('shapes', (shp[i::njobs], 'all' if tier == 'thorough' else 'one')) for i in range(njobs)]
    rnd = random.Random(seed)
    probe = [rnd.choice(lang) for _ in range(400)]
    probe += [''.join(rnd.choice('xQ!_-0Z# \n9.') if rnd.random() < 0.15 else ch for ch in s) for s in probe[:200]] + ['100\n', '', '\n', ' 100', '4x100\n\n']
    J += [('matcher', probe[i::4]) for i in range(4)]
    results = report.pool_map(_work, J)
    n = 0
    allbad = []
    nshape = 0
    for res in results:
        if isinstance(res, dict) and '_crash' in res:
            U.absorb(run, res)
            continue
        if isinstance(res, dict) and res.get('job') == 'shapes':
            nshape += res.get('nshapes', 0)

            def on_refuted_shape(r, _res):
                rep, bad = conc_norm_shape(r)
                rep = dict(rep, model=r.get('model'), unit=_res['unit'], solver='z3 sat', meta=r.get('meta'),
                           shape=CS.show([c if isinstance(c, str) else S.CC(c) for c in r['ctx']['shape']]))
                if bad:
                    e = run.match_known(r['name'], dict(what=rep['observed'], code=rep['input'][1], codes=[rep['input'][1]]))
                    if e:
                        run.known_finding(e)
                    elif sum(1 for v in run.violations if v['obligation'] == r['name']) < 6:
                        run.violation(r['name'], rep, True)
                else:
                    run.spurious_model(r['name'], rep)
            U.absorb(run, res, on_refuted_shape)
            continue
        if isinstance(res, tuple) and res[0] == 'matcher':
            ok = not res[2]
            run.record('symbolic-matcher-agrees-with-re/%d-comparisons' % res[1], 'ground', 'proved' if ok else 'unknown', 'ground-evaluation', 0.0, 'matcher',
                       None if ok else 'the symbolic matcher disagrees with re: %r' % (res[2][:2],))
            if not ok:
                run.checker_error('symbolic regex matcher disagrees with re: %r' % (res[2][:3],))
            continue
        if isinstance(res, tuple):
            n += res[1]
            if res[0] == 'chunk':
                allbad += res[2]
            else:
                run.record('refusal/not-an-event-code-is-refused-with-ValueError', 'ground', 'refuted' if res[2] else 'proved', 'ground-evaluation', 0.0, 'refusal')
                for s, w in res[2][:2]:
                    run.violation('refusal/not-an-event-code-is-refused-with-ValueError', dict(call='normalize_event_code(%r)' % s, observed=w, input=['code', s]), True)
            continue
        for d in res['fns']:
            run.add_function(d)

        def on_refuted(r, _res):
            rep, bad = conc_helper(r)
            rep = dict(rep, model=r.get('model'), unit=_res['unit'], solver='z3 sat')
            if bad:
                run.violation(r['name'], rep, True)
            else:
                run.spurious_model(r['name'], rep)
        U.absorb(run, res, on_refuted)
    classes = {}
    for s, w in allbad:
        classes.setdefault(re.sub(r"(normal form|variant) '[^']*'", r'\1 <>', w), []).append((s, w))
    run.record('normal-form-valid-stable-same-families-variants-agree/on-the-enumerated-language', 'ground', 'refuted' if allbad else 'proved',
               'ground-evaluation', 0.0, 'language')
    for k, v in sorted(classes.items(), key=lambda kv: -len(kv[1]))[:8]:
        e = run.match_known('normal-form-valid-stable-same-families-variants-agree/on-the-enumerated-language', dict(what=v[0][1], code=v[0][0], codes=[x[0] for x in v]))
        if e:
            run.known_finding(e, len(v))
            continue
        run.violation('normal-form-valid-stable-same-families-variants-agree/on-the-enumerated-language',
                      dict(call='normalize_event_code(%r) (and %d more codes)' % (v[0][0], len(v) - 1), observed=v[0][1], more=[x[0] for x in v[:10]],
                           input=['code', v[0][0]]), True)
    if not any(v['obligation'].startswith(('refusal/', 'normal-form-valid')) for v in run.violations):
        # a function that has left the modelled subset on this tree (in-subset undecided) falls back on the run-time contract
        # over the enumerated language and the near-miss strings, which held: bounded, level other
        run.standin_covers('normalize?*in-subset')
        run.standin_covers('near-miss?*in-subset')
    run.extra['shapes_explored'] = nshape
    for d in _ns()[0].describe():
        run.add_function(d)
    run.bounded.append(dict(what='normalisation contract on the enumerated language of PAT_EVENT_CODE and its case/space/suffix/trailing-zero variants; '
                                 'near-miss strings', bound='%d codes + variants, seed %d' % (len(lang), seed), evaluations=n, distinct_nontrivial=len(lang),
                            decides='the validity / stability / family / variant / refusal clauses (bounded)'))
    return run.finish()
