"""C07 - event-code normalisation yields one canonical, valid, stable spelling.

Under contract: utils._norm_tzeroes, _norm_cm, _norm_m, _norm_kg, _norm_g (symbolic: shape-typed strings from the
language of "their" pattern group, every digit content, every whitespace character), normalize_event_code,
check_event_code; the _gnorms map (ground: every key is a named group of the general pattern).

Symbolic, per helper and shape: the numeric value is preserved, the result is in the canonical sub-language (no
whitespace; after a point no trailing zero and no bare point; unit K / cm / m / none), the helper is idempotent.
Bounded (labelled so): on the language of the general pattern enumerated from its syntax tree (as C10) and, for each
code, its case / space / unit-suffix / trailing-zero variants: the normal form is accepted, free of whitespace,
unchanged by normalising again, in the same families, and equal across the variants; near-miss strings are refused
with ValueError."""
import random
import re

import z3

from pyvc import report, unit as U, langgen as G
from pyvc.core import ctx
from pyvc.values import zbool, And
from pyvc.builtins_sym import sym_eq
from pyvc.instrument import instrument
from pyvc import sstr as S
from pyvc.util import real_module
from specs import decimal_text as DT

PROP = 'C07'
FAMS = ['PAT_THROWS', 'PAT_JUMPS', 'PAT_TRACK', 'PAT_HURDLES', 'PAT_ROAD', 'PAT_RELAYS', 'PAT_MULTI', 'PAT_RACES_FOR_DISTANCE',
        'PAT_HIGHSCORING_EVENT', 'PAT_LOWSCORING_EVENT']


def utils():
    return real_module('athlib.utils')


def codes():
    return real_module('athlib.codes')


# ---------------------------------------------------------------------------- symbolic: the helper normalisers
def helper_shapes():
    """(helper, list of cell classes, unit suffix of the canonical result)"""
    W, D = S.WSCC, S.DIGITS
    out = []
    num_shapes = []
    for nint in (1, 2, 3):
        for frac in (None, 0, 1, 2, 3):
            num_shapes.append([D] * nint + ([] if frac is None else ['.'] + [D] * frac))
    for num in num_shapes:
        for lead in ([], [W]):
            for mid in ([], [W]):
                if len([x for x in num if x is D or x == '.']) and num[0] is D and (len(num) == 1 or True):
                    for k in ('K', 'k'):
                        for g in ([], ['G'], ['g']):
                            if len([x for x in num if x is D]) - (0) >= 1:
                                out.append(('_norm_kg', lead + num + mid + [k] + g, 'K'))
        out.append(('_norm_cm', num + ['c', 'm'], 'cm'))
        out.append(('_norm_m', num + ['m'], 'm'))
        for mid in ([], [W]):
            for g in ([], ['g']):
                out.append(('_norm_g', num + mid + g, ''))
        out.append(('_norm_tzeroes', num, ''))
        out.append(('_norm_tzeroes', [W] + num + [W], ''))
    return out


def dec_value_cells(cells):
    """(numerator z3 Int, number of decimals) of the digits[.digits] prefix of a cell list"""
    ip, fp, dot = [], [], False
    for c in cells:
        if isinstance(c, str) and c == '.':
            dot = True
            continue
        if (isinstance(c, str) and c in '0123456789') or (isinstance(c, S.Var) and c.cc.subset(S.DIGITS)):
            (fp if dot else ip).append(c)
        else:
            break
    return DT.digits_value(ip) * 10 ** len(fp) + DT.digits_value(fp), len(fp), len(ip), dot


def unit_helpers(args):
    lo, hi = args
    u = utils()
    shapes = helper_shapes()[lo:hi]
    fns = {}
    res_all = None
    for hname, classes, unit in shapes:
        if hname not in fns:
            sh = {}
            if hname != '_norm_tzeroes':
                sh['_norm_tzeroes'] = fns.get('_norm_tzeroes', instrument(u._norm_tzeroes)).fn
            fns[hname] = instrument(getattr(u, hname), shadows=sh)
            if '_norm_tzeroes' not in fns:
                fns['_norm_tzeroes'] = instrument(u._norm_tzeroes)
        f = fns[hname]

        def run():
            s = S.SStr.fresh('s', classes)
            ctx().extra = s
            r = f(s)
            r2 = f(r)
            return r, r2

        def post(p, c):
            s = c.extra
            if p.outcome == 'exc':
                c.oblige('%s/no-exception' % hname, False, 'raises', meta=dict(exc=type(p.value).__name__))
                return
            r, r2 = p.value
            rc = list(S.cells_of(r))
            # canonical language: digits[.digits] + unit, no whitespace, no trailing zero / bare point after a point
            body = rc[:len(rc) - len(unit)] if unit else rc
            tail = ''.join(x for x in rc[len(rc) - len(unit):] if isinstance(x, str)) if unit else ''
            shape_ok = tail == unit and len(body) >= 1
            for x in body:
                if isinstance(x, str):
                    shape_ok = shape_ok and (x in '0123456789.')
                else:
                    shape_ok = shape_ok and x.cc.subset(S.DIGITS)
            dots = [i for i, x in enumerate(body) if isinstance(x, str) and x == '.']
            shape_ok = shape_ok and len(dots) <= 1 and (not dots or 0 < dots[0] < len(body) - 1)
            c.oblige('%s/result-in-the-canonical-language' % hname, bool(shape_ok), 'post', meta=dict(result=repr(r)))
            if shape_ok and dots:
                last = body[-1]
                c.oblige('%s/no-trailing-zero-after-the-point' % hname, zbool(sym_eq(S.mk((last,)), '0')) == False if not isinstance(last, str)
                         else last != '0', 'post')
            # value preserved
            src = [x for x in S.cells_of(s) if not (isinstance(x, S.Var) and x.cc.subset(S.WSCC))]
            n0, k0, _, _ = dec_value_cells(src)
            n1, k1, _, _ = dec_value_cells(body)
            m = max(k0, k1)
            c.oblige('%s/numeric-value-preserved' % hname, n0 * 10 ** (m - k0) == n1 * 10 ** (m - k1), 'post')
            c.oblige('%s/idempotent' % hname, zbool(sym_eq(r, r2)), 'post')

        r = U.verify('%s[%s]' % (hname, ''.join(x if isinstance(x, str) else ('d' if x is S.DIGITS else '_') for x in classes)), run, post,
                     want_sample=(hname == '_norm_kg' and len(classes) == 5))
        for x in r['results']:
            x['ctx'] = dict(helper=hname, classes=[x_ if isinstance(x_, str) else ('d' if x_ is S.DIGITS else 'w') for x_ in classes])
        if res_all is None:
            res_all = r
        else:
            res_all['results'] += r['results']
            res_all['paths'] += r['paths']
            res_all['wall'] += r['wall']
            res_all['sample'] = res_all['sample'] or r['sample']
    res_all['unit'] = 'helpers[%d:%d]' % (lo, hi)
    res_all['fns'] = [x.describe() for x in fns.values()]
    return res_all


def conc_helper(r):
    cx = r['ctx']
    m = r.get('model') or {}
    s = ''.join(c if c not in ('d', 'w') else chr(int(m.get('s_%d' % i, 48 if c == 'd' else 32))) for i, c in enumerate(cx['classes']))
    f = getattr(utils(), cx['helper'])
    try:
        got = f(s)
        again = f(got)
    except Exception as e:
        return dict(call='%s(%r)' % (cx['helper'], s), observed='raises %s' % type(e).__name__, input=['helper', cx['helper'], s]), True
    num = re.match(r'^\s*(\d+\.?\d*)', s)
    want = float(num.group(1)) if num else None
    got_num = re.match(r'^(\d+\.?\d*)', got)
    bad = (got_num is None or float(got_num.group(1)) != want or re.search(r'\s', got) is not None or again != got
           or re.search(r'\.\d*0(?=\D|$)', got) is not None or re.search(r'\.(?=\D|$)', got) is not None)
    return dict(call='%s(%r)' % (cx['helper'], s), observed=got, input=['helper', cx['helper'], s]), bad


# ---------------------------------------------------------------------------- bounded: the enumerated language and its variants
def families(s):
    c = codes()
    return tuple(n for n in FAMS if getattr(c, n).match(s))


def variants(s, rnd):
    """spellings of the same code: letter case, spaces at the places the pattern admits them, k/kg, g, trailing zeros"""
    out = {s.upper(), s.lower(), s.swapcase()}
    out.add(re.sub(r'\s+', '', s))
    c = codes()
    if not (c.PAT_THROWS.match(s) or 'cm' in s.lower()):
        return [v for v in out if v != s]     # unit suffixes and trailing zeros: implement weights and hurdle specifications only
    out.add(re.sub(r'(?i)(\d)\s*kg?$', r'\1 kg', s))
    out.add(re.sub(r'(?i)(\d)\s*kg?$', r'\1k', s))
    out.add(re.sub(r'(?i)(\d)\s*kg?$', r'\1K', s))
    out.add(re.sub(r'(?i)(\d)\s*kg$', r'\1kG', s))
    out.add(re.sub(r'(\d)(\s*)g$', r'\1', s))
    out.add(re.sub(r'(\d)$', r'\1g', s) if re.match(r'(?i)^s?jt[45678]00$|^ot\d+$', s) else s)
    # trailing zeros / bare point on numbers that already carry a point, or before a unit
    out.add(re.sub(r'(\d\.\d*?)0+(?=\s*(?:cm|m|k|K|$))', r'\1', s))
    out.add(re.sub(r'(\d\.\d+)(?=\s*(?:cm|m\b|[kK]))', r'\g<1>0', s))
    out.add(re.sub(r'(?<![\d.])(\d+)(?=cm)', r'\1.0', s, count=1) if 'cm' in s else s)
    out.add(re.sub(r'(?<![\d.])(\d)(?=\s*[kK][gG]?$)', r'\1.0', s))
    out.add(re.sub(r'(?<![\d.])(\d)(?=\s*[kK][gG]?$)', r'\1.', s))
    return [v for v in out if v != s]


def check_code(s, rnd):
    u = utils()
    c = codes()
    try:
        n = u.normalize_event_code(s)
    except Exception as e:
        return 'normalize_event_code raises %s on an accepted code' % type(e).__name__
    if not isinstance(n, str) or not u.check_event_code(n):
        return 'normal form %r is not accepted' % (n,)
    if re.search(r'\s', n):
        return 'normal form %r contains whitespace' % (n,)
    try:
        if u.normalize_event_code(n) != n:
            return 'normal form %r changes when normalised again (%r)' % (n, u.normalize_event_code(n))
    except Exception as e:
        return 'normalising the normal form %r raises %s' % (n, type(e).__name__)
    if families(n) != families(s):
        return 'normal form %r is in families %r, the code in %r' % (n, families(n), families(s))
    for v in variants(s, rnd):
        if not c.PAT_EVENT_CODE.match(v) or families(v) != families(s):
            continue
        try:
            nv = u.normalize_event_code(v)
        except Exception as e:
            return 'variant %r: raises %s' % (v, type(e).__name__)
        if nv != n:
            return 'variant %r normalises to %r, the code to %r' % (v, nv, n)
    return None


def chunk(args):
    strs, seed = args
    rnd = random.Random(seed)
    bad = []
    for s in strs:
        w = check_code(s, rnd)
        if w:
            bad.append((s, w))
            if len(bad) > 200:
                break
    return len(strs), bad


def refusal(seed, lang):
    """near-miss strings are refused with ValueError and nothing else"""
    rnd = random.Random(seed)
    u = utils()
    c = codes()
    n = 0
    bad = []
    junk = ['', ' ', 'x', '1O0', 'HJJ', 'sst', 'SST', '100 X', '4x', 'x100', '110H1', 'DT1.5kgg', 'JT900', 'T', '123HR', 'H0', 'L10', '٣', '100\x00', 'DT--', '5Kk']
    # history: a near-miss that differs from an accepted spelling only in letter case must still be refused after the accepted
    # spelling was normalised (the answer may not depend on what was asked before)
    for s in [rnd.choice(lang) for _ in range(3000)] + ['SPB', '110H 91.4cm', '4x100M', 'JT800g', 'MILE', '2MT']:
        try:
            u.normalize_event_code(s)
        except Exception:
            continue
        for v in (s.upper(), s.lower(), s.swapcase()):
            if v == s or c.PAT_EVENT_CODE.match(v.strip()):
                continue
            n += 1
            try:
                u.normalize_event_code(v)
                bad.append((v, 'a string that is not an event code was normalised after %r had been' % s))
            except ValueError:
                pass
            except Exception as e:
                bad.append((v, 'raises %s instead of ValueError' % type(e).__name__))
    for s in junk + [rnd.choice(lang) for _ in range(4000)]:
        t = list(s)
        if s not in junk and t:
            i = rnd.randrange(len(t))
            t[i] = rnd.choice('xQ!_-0Z#')
            if rnd.random() < 0.3:
                t.insert(rnd.randrange(len(t) + 1), rnd.choice('xQ!_-'))
        cand = ''.join(t)
        n += 1
        ok = bool(c.PAT_EVENT_CODE.match(cand.strip()))
        try:
            u.normalize_event_code(cand)
            if not ok:
                bad.append((cand, 'a string that is not an event code was normalised'))
        except ValueError:
            if ok:
                bad.append((cand, 'an accepted code was refused'))
        except Exception as e:
            bad.append((cand, 'raises %s instead of ValueError' % type(e).__name__))
    return n, bad[:5]


def _work(job):
    if job[0] == 'helpers':
        r = unit_helpers(job[1])
        r['job'] = job
        return r
    if job[0] == 'chunk':
        return ('chunk',) + chunk(job[1])
    return ('refusal',) + refusal(job[1], job[2])


def replay(rep):
    inp = rep['input']
    if inp[0] == 'helper':
        r, bad = conc_helper(dict(ctx=dict(helper=inp[1], classes=list(inp[2])), model={}))
        print('replay %s: %s -> %r' % (rep['obligation'], r['call'], r['observed']))
    else:
        s = inp[1]
        if codes().PAT_EVENT_CODE.match(s.strip()):
            w = check_code(s, random.Random(0))
        else:
            try:
                utils().normalize_event_code(s)
                w = 'a string that is not an event code was normalised'
            except ValueError:
                w = None
            except Exception as e:
                w = 'raises %s' % type(e).__name__
        bad = bool(w)
        print('replay %s: %r -> %r' % (rep['obligation'], s, w))
    print('VIOLATION reproduced' if bad else 'not reproduced on this tree')
    return 1 if bad else 0


def main(tier, seed):
    run = report.Run(PROP, tier, seed)
    run.expected_min_obligations = 300
    run.level_claim = 'other'
    run.explanation = __doc__
    run.assume('pyvc proxies/rewrites (shape-typed strings)', 'z3 soundness', 'digit contents ASCII in the symbolic part',
               'helper shapes: 1-3 integer digits, 0-3 decimals, 0-1 whitespace characters (any of the whitespace set) at each admitted place',
               'bounded part: language enumerated from the syntax tree (repeats <= min+1, every class member once, both cases) and its variants')
    u = utils()
    c = codes()
    # ground: the group map refers to named groups of the general pattern
    for k in u._gnorms:
        ok = k in c.PAT_EVENT_CODE.groupindex
        run.record('_gnorms/%s-is-a-named-group-of-the-general-pattern' % k, 'ground', 'proved' if ok else 'refuted', 'ground-evaluation', 0.0, 'gnorms')
        if not ok:
            run.violation('_gnorms/%s' % k, dict(call='PAT_EVENT_CODE.groupindex', observed='no group %r' % k, input=['code', 'DT1.5K']), True)
    run.add_function(instrument(u.normalize_event_code))
    run.add_function(instrument(u.check_event_code))
    from pyvc.frames import frame_obligations
    frame_obligations(run, [u.normalize_event_code, u.check_event_code, u._norm_tzeroes, u._norm_cm, u._norm_m, u._norm_kg, u._norm_g])
    nshapes = len(helper_shapes())
    step = max(1, nshapes // 32)
    J = [('helpers', (i, min(i + step, nshapes))) for i in range(0, nshapes, step)]
    lang = G.strings(c.PAT_EVENT_CODE, 1)
    cs = 4000
    J += [('chunk', (lang[i:i + cs], seed)) for i in range(0, len(lang), cs)] + [('refusal', seed, lang)]
    results = report.pool_map(_work, J)
    n = 0
    allbad = []
    for res in results:
        if isinstance(res, dict) and '_crash' in res:
            U.absorb(run, res)
            continue
        if isinstance(res, tuple):
            n += res[1]
            if res[0] == 'chunk':
                allbad += res[2]
            else:
                run.record('refusal/not-an-event-code-is-refused-with-ValueError', 'ground', 'refuted' if res[2] else 'proved', 'ground-evaluation', 0.0, 'refusal')
                for s, w in res[2][:2]:
                    run.violation('refusal/not-an-event-code-is-refused-with-ValueError', dict(call='normalize_event_code(%r)' % s, observed=w, input=['code', s]), True)
            continue
        for d in res['fns']:
            run.add_function(d)

        def on_refuted(r, _res):
            rep, bad = conc_helper(r)
            rep = dict(rep, model=r.get('model'), unit=_res['unit'], solver='z3 sat')
            if bad:
                run.violation(r['name'], rep, True)
            else:
                run.spurious_model(r['name'], rep)
        U.absorb(run, res, on_refuted)
    classes = {}
    for s, w in allbad:
        classes.setdefault(re.sub(r"(normal form|variant) '[^']*'", r'\1 <>', w), []).append((s, w))
    run.record('normal-form-valid-stable-same-families-variants-agree/on-the-enumerated-language', 'ground', 'refuted' if allbad else 'proved',
               'ground-evaluation', 0.0, 'language')
    for k, v in sorted(classes.items(), key=lambda kv: -len(kv[1]))[:8]:
        e = run.match_known('normal-form-valid-stable-same-families-variants-agree/on-the-enumerated-language', dict(what=v[0][1], code=v[0][0], codes=[x[0] for x in v]))
        if e:
            run.known_finding(e, len(v))
            continue
        run.violation('normal-form-valid-stable-same-families-variants-agree/on-the-enumerated-language',
                      dict(call='normalize_event_code(%r) (and %d more codes)' % (v[0][0], len(v) - 1), observed=v[0][1], more=[x[0] for x in v[:10]],
                           input=['code', v[0][0]]), True)
    run.bounded.append(dict(what='normalisation contract on the enumerated language of PAT_EVENT_CODE and its case/space/suffix/trailing-zero variants; '
                                 'near-miss strings', bound='%d codes + variants, seed %d' % (len(lang), seed), evaluations=n, distinct_nontrivial=len(lang),
                            decides='the validity / stability / family / variant / refusal clauses (bounded)'))
    return run.finish()
