"""C19 - schema validation answers do not depend on what was validated before.

Under contract: athlib.utils._add_to_cache, schema_valid, valid_against_schema.
The uncached answer is an uninterpreted deterministic value V(t) (one symbolic Boolean per call: "the document is
valid"); the cache is *any* dict satisfying the ghost invariant  forall t in cache: cache[t] = V(t)  and  len <= 20.
Per call, for any such cache: outcome = Spec(V(t), expect_failure), the invariant is preserved, nothing else is
modified.  By induction every history gives the fresh-process answer - no sequence is enumerated.
Ground part: each bundled sample/schema evaluated through the real functions in a fresh interpreter."""
import json
import os
import subprocess
import sys

import z3

from pyvc import report, unit as U
from pyvc.core import ctx, OutOfSubset
from pyvc.values import Sym, SBool, SInt, mkbool, mkint, zbool, zint, And, Or, Not, Implies
from pyvc.instrument import instrument
from pyvc.util import real_module

PROP = 'C19'
TREE = os.environ.get('ATHLIB_TREE', '/repo')


def _utils():
    return real_module('athlib.utils')


# ---------------------------------------------------------------------------- symbolic dict (for _add_to_cache)
class SymDict(Sym):
    """dict with a symbolic content: present/value arrays over key ids, a ghost length kept by the operations,
    insertion order abstracted (reversed() yields *some* present key)."""
    _pytype = dict

    def __init__(self, name):
        c = ctx()
        self.present = z3.Array(name + '_present', z3.IntSort(), z3.BoolSort())
        self.val = z3.Array(name + '_val', z3.IntSort(), z3.BoolSort())
        self.length = z3.Int(name + '_len')
        c.declare_input(name + '_len', self.length)
        c.assume(self.length >= 0)
        self.version = 0
        self.p0, self.v0, self.l0 = self.present, self.val, self.length

    def _sym_len(self):
        return mkint(self.length)

    def __reversed__(self):
        return _RevIter(self)

    def pop(self, k):
        c = ctx()
        if not c.decide(z3.Select(self.present, zint(k))):
            raise KeyError(k)
        v = z3.Select(self.val, zint(k))
        self.present = z3.Store(self.present, zint(k), False)
        self.length = self.length - 1
        self.version += 1
        return SBool(v)

    def __setitem__(self, k, v):
        c = ctx()
        was = z3.Select(self.present, zint(k))
        self.length = z3.If(was, self.length, self.length + 1)
        self.present = z3.Store(self.present, zint(k), True)
        self.val = z3.Store(self.val, zint(k), zbool(v))

    def __getitem__(self, k):
        c = ctx()
        if not c.decide(z3.Select(self.present, zint(k))):
            raise KeyError(k)
        return SBool(z3.Select(self.val, zint(k)))

    def _sym_contains(self, k):
        return mkbool(z3.Select(self.present, zint(k)))


class _RevIter(object):
    def __init__(self, d):
        self.d, self.version = d, d.version

    def __iter__(self):
        return self

    def __next__(self):
        c = ctx()
        c.assumptions.add('reversed(dict)/next/pop built-in contracts: next() yields a present key, StopIteration when empty, '
                          'RuntimeError if the dict changed size since the iterator was created')
        if self.version != self.d.version:
            raise RuntimeError('dictionary changed size during iteration')
        if c.decide(self.d.length <= 0):
            raise StopIteration
        k = c.fresh('lastkey')
        c.assume(z3.Select(self.d.present, k))
        return SInt(k)


def s_next(it, *a):
    return it.__next__()


def s_reversed(x):
    return x.__reversed__() if isinstance(x, SymDict) else reversed(x)


def unit_add_to_cache(args):
    u = _utils()
    f = instrument(u._add_to_cache, shadows={'next': s_next, 'reversed': s_reversed})

    def run():
        c = ctx()
        d = SymDict('cache')
        c.assume(d.length <= 20)                      # invariant of both module-level caches
        # ghost link: an empty dict has no present key (needed for pop/next consistency)
        t = z3.Int('t')
        c.declare_input('t', t)
        v = z3.Bool('v')
        c.declare_input('v', v)
        c.extra = (d, t, v)
        return f(d, SInt(t), SBool(v))

    def post(p, c):
        d, t, v = c.extra
        if p.outcome == 'exc':
            c.oblige('_add_to_cache/no-exception', False, 'raises', meta=dict(exc=type(p.value).__name__))
            return
        c.oblige('_add_to_cache/returns-v', zbool(p.value) == v, 'post')
        c.oblige('_add_to_cache/entry-stored', z3.And(z3.Select(d.present, t), z3.Select(d.val, t) == v), 'post')
        k = z3.Int('k_any')
        c.oblige('_add_to_cache/frame-other-entries-only-removed',
                 z3.ForAll([k], z3.Implies(z3.And(k != t, z3.Select(d.present, k)),
                                           z3.And(z3.Select(d.p0, k), z3.Select(d.val, k) == z3.Select(d.v0, k)))), 'frame')
        c.oblige('_add_to_cache/size-bound', d.length <= 20, 'invariant')

    res = U.verify('_add_to_cache', run, post)
    res['fn'] = f.describe()
    return res


# ---------------------------------------------------------------------------- the two memoised functions
class CacheView(Sym):
    """any cache satisfying the ghost invariant: hit is arbitrary, a hit returns V(t)"""
    def __init__(self, V, name, determinants=()):
        self.V = V
        self.determinants = determinants
        self.hit = ctx().declare_input(name + '_hit', z3.Bool(name + '_hit'))
        self.reads = 0

    def key_ok(self, k):
        # the ghost invariant cache[t] = V(t) needs V to be a function of the key: the key must carry every
        # argument the uncached answer depends on
        ok = isinstance(k, tuple) and all(any(d is e for e in k) for d in self.determinants)
        ctx().oblige('cache-key-determines-the-uncached-answer', ok, 'invariant')

    def _sym_contains(self, k):
        self.key_ok(k)
        return SBool(self.hit)

    def __getitem__(self, k):
        self.key_ok(k)
        if not ctx().decide(self.hit):
            raise KeyError(k)
        return SBool(self.V)            # invariant: cache[t] = V(t)

    def __setitem__(self, k, v):
        raise OutOfSubset('direct cache store (expected through _add_to_cache)')

    def __getattr__(self, name):
        if name.startswith('_'):
            raise AttributeError(name)
        # items() / values() / keys() / get / iteration: the function looks at entries OTHER than the one of its own key - the
        # per-key ghost invariant says nothing about what it may conclude from them
        ctx().oblige('cache-is-consulted-for-the-call-s-own-key-only', False, 'invariant', meta=dict(attribute=name))
        raise OutOfSubset('cache.%s: the cache is consulted other than by the key of the call' % name)


class AnyName(Sym):
    """an ARBITRARY file name: whatever the code asks about it (equality with a literal, a prefix/suffix test, membership, its
    base name) is answered both ways - every branch the code may take on the name is explored; the same question gets the
    same answer on a path"""
    _pytype = str

    def __init__(self, label):
        self.label = label
        self._memo = {}

    def _ask(self, what):
        if what not in self._memo:
            self._memo[what] = ctx().fresh('name_' + self.label, 'bool')
        return SBool(self._memo[what])

    def __eq__(self, o):
        if o is self:
            return True
        return self._ask(('eq', repr(o)))

    def __ne__(self, o):
        return Not(self.__eq__(o))

    def startswith(self, p, *a): return self._ask(('startswith', repr(p)))
    def endswith(self, p, *a): return self._ask(('endswith', repr(p)))
    def _sym_in(self, container): return self._ask(('in', repr(container)[:80]))
    def _sym_contains(self, sub): return self._ask(('contains', repr(sub)))
    def _sym_str(self): return self
    def _sym_len(self): return mkint(ctx().fresh('namelen'))

    def derived(self, how):
        k = ('derived', how)
        if k not in self._memo:
            self._memo[k] = AnyName(self.label + '.' + how)
        return self._memo[k]

    def __getattr__(self, name):
        if name.startswith('_'):
            raise AttributeError(name)
        if name in ('lower', 'upper', 'strip', 'casefold'):
            return lambda *a: self.derived(name)
        raise OutOfSubset('str.%s on an arbitrary file name' % name)

    def __repr__(self):
        return 'AnyName(%s)' % self.label


class _OsPath(object):
    @staticmethod
    def basename(p):
        return p.derived('basename') if isinstance(p, AnyName) else os.path.basename(p)

    @staticmethod
    def dirname(p):
        return p.derived('dirname') if isinstance(p, AnyName) else os.path.dirname(p)

    @staticmethod
    def splitext(p):
        return (p.derived('root'), p.derived('ext')) if isinstance(p, AnyName) else os.path.splitext(p)

    def __getattr__(self, n):
        f = getattr(os.path, n)

        def g(*a, **k):
            if any(isinstance(x, AnyName) for x in a):
                raise OutOfSubset('os.path.%s of an arbitrary file name' % n)
            return f(*a, **k)
        return g


class _Os(object):
    path = _OsPath()

    def __getattr__(self, n):
        return getattr(os, n)


class _CM(object):
    def __init__(self, what):
        self.what = what

    def __enter__(self):
        return self

    def __exit__(self, *a):
        return False


def _mk_env(V, cache_name, expect_err):
    """stubs for the file system and jsonschema: deterministic, V decides validity"""
    c = ctx()
    c.assumptions.add('jsonschema / json.load / file contents are deterministic functions of (file name, validator class); '
                      'files do not change during a run')
    added = []

    def add_to_cache(cache, t, v, maxlen=20):
        # contract of _add_to_cache (proved by unit_add_to_cache): stores t->v, returns v; requires the invariant value
        c.oblige('%s/cache-invariant-preserved(stored value = uncached answer)' % cache_name, zbool(v) == V, 'invariant')
        added.append((t, v))
        return v

    class JS(object):
        Draft3Validator = Draft4Validator = None

        @staticmethod
        def validate(data, schema):
            if not c.decide(V):
                raise expect_err('not valid')

    class Validator(object):
        @staticmethod
        def check_schema(schema):
            if not c.decide(V):
                raise expect_err('bad schema')

    class J(object):
        @staticmethod
        def load(f):
            return ('json-of', f.what)

    env = {'_add_to_cache': add_to_cache, 'jsonschema': JS, 'json': J, 'open': lambda p, *a: _CM(p), 'localpath': lambda p, *a: p, 'os': _Os()}
    return env, Validator, added


def unit_memo(args):
    fname, = args
    u = _utils()
    from jsonschema.exceptions import SchemaError, ValidationError
    err = SchemaError if fname == 'schema_valid' else ValidationError
    cache_name = '_schema_valid_cache' if fname == 'schema_valid' else '_valid_against_schema_cache'
    holder = {}

    def run():
        c = ctx()
        V = c.declare_input('uncached_answer_valid', z3.Bool('uncached_answer_valid'))
        ef = c.declare_input('expect_failure', z3.Bool('expect_failure'))
        env, Validator, added = _mk_env(V, cache_name, err)
        Sn, Dn = AnyName('S'), AnyName('D')          # the file names are arbitrary: every branch the code takes on them is explored
        det = (Sn, Validator) if fname == 'schema_valid' else (Dn, Sn)
        cache = CacheView(V, 'cache', det)
        env[cache_name] = cache
        env['_add_to_cache'] = (lambda orig: (lambda ch, t, v, maxlen=20: (cache.key_ok(t), orig(ch, t, v, maxlen))[1]))(env['_add_to_cache'])
        f = instrument(getattr(u, fname), shadows=env)
        holder['f'] = f
        c.extra = (V, ef, added)
        if fname == 'schema_valid':
            return f(Sn, validator=Validator, expect_failure=SBool(ef))
        return f(Dn, Sn, expect_failure=SBool(ef))

    def post(p, c):
        V, ef, added = c.extra
        # Spec(V, expect_failure): valid -> True ; invalid & not expect_failure -> False ; invalid & expect_failure -> raises
        if p.outcome == 'ret':
            r = p.value
            c.oblige('%s/returned-value-is-fresh-process-answer' % fname, zbool(r) == V, 'post')
            c.oblige('%s/failure-expected-must-raise' % fname, z3.Not(z3.And(z3.Not(V), ef)), 'post')
        elif p.outcome == 'exc':
            ok = isinstance(p.value, err)
            c.oblige('%s/raises-only-the-validation-error-when-failure-expected' % fname,
                     z3.And(z3.Not(V), ef) if ok else z3.BoolVal(False), 'raises', meta=dict(exc=type(p.value).__name__))

    res = U.verify(fname, run, post)
    res['fn'] = holder['f'].describe()
    return res


UNITS = {'add': unit_add_to_cache, 'memo': unit_memo}


def _work(job):
    r = UNITS[job[0]](job[1])
    r['job'] = job
    return r


# ---------------------------------------------------------------------------- replay (history on the real code, fresh interpreter)
HIST = r'''
import sys, json, os
sys.path.insert(0, os.environ.get('ATHLIB_TREE', '/repo'))
import jsonschema
from jsonschema.exceptions import SchemaError, ValidationError
from athlib.utils import schema_valid, valid_against_schema
def call(c):
    try:
        if c[0] == 'schema_valid':
            return ['ret', schema_valid(c[1], validator=getattr(jsonschema, c[2]), expect_failure=c[3])]
        return ['ret', valid_against_schema(c[1], c[2], expect_failure=c[3])]
    except (SchemaError, ValidationError) as e:
        return ['exc', type(e).__name__]
    except Exception as e:
        return ['exc', 'OTHER:' + type(e).__name__]
import io, contextlib
hist = json.loads(sys.argv[1])
out = []
with contextlib.redirect_stdout(io.StringIO()):
    for c in hist:
        out.append(call(c))
print(json.dumps(out, default=lambda o: 'OBJECT:' + type(o).__name__))      # an answer that is not True/False is reported as such
'''


FORK_SERVER = r'''
import sys, json, os
sys.path.insert(0, os.environ.get('ATHLIB_TREE', '/repo'))
import jsonschema
from jsonschema.exceptions import SchemaError, ValidationError
from athlib.utils import schema_valid, valid_against_schema
import io, contextlib
def call(c):
    try:
        if c[0] == 'schema_valid':
            return ['ret', schema_valid(c[1], validator=getattr(jsonschema, c[2]), expect_failure=c[3])]
        return ['ret', valid_against_schema(c[1], c[2], expect_failure=c[3])]
    except (SchemaError, ValidationError) as e:
        return ['exc', type(e).__name__]
    except Exception as e:
        return ['exc', 'OTHER:' + type(e).__name__]
hists = json.loads(sys.stdin.read())
for h in hists:
    r, w = os.pipe()
    pid = os.fork()
    if pid == 0:
        os.close(r)
        out = []
        with contextlib.redirect_stdout(io.StringIO()):
            for c in h:
                out.append(call(c))
        os.write(w, json.dumps(out, default=lambda o: 'OBJECT:' + type(o).__name__).encode())
        os._exit(0)
    os.close(w)
    data = b''
    while True:
        b = os.read(r, 65536)
        if not b:
            break
        data += b
    os.close(r)
    os.waitpid(pid, 0)
    print(data.decode() or 'null')
'''


def run_histories_forked(hists):
    """each history in its own child forked from one interpreter that has only IMPORTED the library (module state as at
    import: both caches empty) - the fresh-process semantics at a few milliseconds per history"""
    r = subprocess.run([sys.executable, '-c', FORK_SERVER], input=json.dumps(hists), capture_output=True, text=True, cwd=TREE, timeout=1200)
    if r.returncode != 0:
        raise RuntimeError(r.stderr[-2000:])
    out = [json.loads(l) for l in r.stdout.strip().splitlines()]
    if len(out) != len(hists):
        raise RuntimeError('fork server answered %d of %d histories' % (len(out), len(hists)))
    return out


def _forked_chunk(hs):
    return run_histories_forked(hs)


def run_history(hist):
    r = subprocess.run([sys.executable, '-c', HIST, json.dumps(hist)], capture_output=True, text=True, cwd=TREE, timeout=300)
    if r.returncode != 0:
        raise RuntimeError(r.stderr[-2000:])
    return json.loads(r.stdout.strip().splitlines()[-1])


def fresh_answer(call):
    return run_history([call])[0]


def concretise(fname, model):
    """model: hit / uncached validity / expect_failure -> a two-call history on bundled files"""
    valid = bool(model.get('uncached_answer_valid'))
    ef = bool(model.get('expect_failure'))
    hit = bool(model.get('cache_hit'))
    if fname == 'schema_valid':
        target = ['schema_valid', 'json/performance.json' if valid else 'json/athlete.json', 'Draft3Validator', ef]
    else:
        target = ['valid_against_schema', 'sample-jsons/athlete.json' if valid else 'sample-jsons/athlete_invalid.json', 'json/athlete.json', ef]
    hist = []
    if hit:
        warm = list(target)
        warm[-1] = False          # a first call that can only populate the cache
        hist.append(warm)
    hist.append(target)
    got = run_history(hist)[-1]
    want = fresh_answer(target)
    return dict(call='history %r' % (hist,), history=hist, observed=got, required=want, model=model, fname=fname), got != want


def replay(rep):
    if rep.get('history') and not rep.get('model'):
        h = rep['history']
        got = run_history(h)
        bad = False
        for c_, r in zip(h, got):
            want = fresh_answer(c_)
            if r != want:
                print('replay %s: history %r\n call %r observed=%r required(fresh process)=%r' % (rep['obligation'], h, c_, r, want))
                bad = True
                break
        print('VIOLATION reproduced' if bad else 'not reproduced on this tree')
        return 1 if bad else 0
    r, bad = concretise(rep['fname'], rep['model'])
    print('replay %s: %s\n observed=%r required(fresh process)=%r' % (rep['obligation'], r['call'], r['observed'], r['required']))
    print('VIOLATION reproduced' if bad else 'not reproduced on this tree')
    return 1 if bad else 0


# ---------------------------------------------------------------------------- ground: bundled files, histories
def read_frame(run):
    """the per-call contract lets each helper depend on its arguments, the files, and ITS OWN cache (ghost invariant: an entry
    is the uncached answer); reading any other module-level container that calls modify would make the answer depend on the
    history in a way the contract does not cover"""
    import ast, inspect, textwrap
    from collections import OrderedDict
    u = real_module('athlib.utils')
    own = {'schema_valid': {'_schema_valid_cache'}, 'valid_against_schema': {'_valid_against_schema_cache'}}
    for fn, allowed in own.items():
        f = getattr(u, fn)
        tree = ast.parse(textwrap.dedent(inspect.getsource(f)))
        localnames = {n.id for n in ast.walk(tree) if isinstance(n, ast.Name) and isinstance(n.ctx, ast.Store)} | {a.arg for a in tree.body[0].args.args}
        others = sorted({n.id for n in ast.walk(tree) if isinstance(n, ast.Name) and isinstance(n.ctx, ast.Load) and n.id not in localnames
                         and isinstance(f.__globals__.get(n.id), (dict, list, set, OrderedDict)) and n.id not in allowed})
        name = 'frame/%s-reads-no-shared-container-but-its-own-cache' % fn
        run.record(name, 'frame', 'refuted' if others else 'proved', 'frame-analysis', 0.0, 'frames')
        if others:
            run.violation(name, dict(call='%s reads %s' % (fn, ', '.join(others)), observed='reads module-level container(s) %s' % others,
                                     required='its own cache only', fname=fn, model={}, history=[], solver='frame analysis'), False)


def bundled():
    sj = sorted(os.listdir(TREE + '/sample-jsons'))
    schemas = sorted(f for f in os.listdir(TREE + '/json') if f.endswith('.json'))
    if os.path.isdir(TREE + '/json/definitions'):
        schemas += sorted('definitions/' + f for f in os.listdir(TREE + '/json/definitions') if f.endswith('.json'))
    pairs = []
    for s in sj:
        if not s.endswith('.json'):
            continue
        base = s.split('_')[0].replace('.json', '')
        if base == 'combined':
            base = 'combined_performance'
        sch = 'json/%s.json' % base
        if os.path.exists(TREE + '/' + sch):
            pairs.append(('sample-jsons/' + s, sch, 'invalid' not in s))
    return schemas, pairs


def ground(run, tier, seed):
    import random
    schemas, pairs = bundled()
    n = 0
    # each bundled sample, evaluated through the real function in a fresh interpreter, offline
    calls = [['valid_against_schema', d, s, False] for d, s, _ in pairs]
    res = run_history(calls)      # one process; cache keys are all distinct so every call is uncached
    for (d, s, ok), r in zip(pairs, res):
        n += 1
        good = r == ['ret', ok]
        run.record('bundled/%s-%s' % (d, 'validates' if ok else 'is-rejected'), 'ground', 'proved' if good else 'refuted', 'ground-evaluation', 0.0, 'bundled')
        if not good:
            run.violation('bundled/%s' % d, dict(call='valid_against_schema(%r,%r)' % (d, s), observed=r, required=['ret', ok], history=[calls[n - 1]], fname='valid_against_schema', model={}), True)
    # (the property does not say that every file under json/definitions/ is a valid schema by itself: top level only)
    sc = [['schema_valid', 'json/' + s, 'Draft4Validator', False] for s in schemas if '/' not in s]
    res = run_history(sc)
    for c_, r in zip(sc, res):
        good = r == ['ret', True]
        run.record('bundled/%s-is-a-valid-draft4-schema' % c_[1], 'ground', 'proved' if good else 'refuted', 'ground-evaluation', 0.0, 'bundled')
        if not good:
            run.violation('bundled/%s' % c_[1], dict(call=repr(c_), observed=r, required=['ret', True], history=[c_], fname='schema_valid', model={}), True)
    # bounded stand-in: random histories (incl. cache overflow) against fresh-process answers
    rnd = random.Random(seed)
    universe = []
    for d, s, ok in pairs:
        for ef in (False, True):
            universe.append(['valid_against_schema', d, s, ef])
    for s in schemas:
        for v in ('Draft3Validator', 'Draft4Validator'):
            for ef in (False, True):
                universe.append(['schema_valid', 'json/' + s, v, ef])
    fresh = {}
    fr = [run_history([c])[0] for c in universe] if tier == 'thorough' else None
    # fresh answers: one process per call is slow; a call's fresh answer only depends on (file, schema/validator, ef):
    # compute them with one process per *distinct call* in the thorough tier, and per distinct call used in quick
    nh = 40 if tier == 'quick' else 400
    hists = []
    for i in range(nh):
        ln = rnd.choice([2, 3, 3, 30]) if i % 10 else 60
        hists.append([rnd.choice(universe) for _ in range(ln)])
    # all ordered pairs (a, b) over calls sharing a cache key, length-2 histories - this is where the defect class lives
    for c_ in universe:
        twin = list(c_)
        twin[-1] = not c_[-1]
        hists.append([twin, c_])
    # cross-function pairs: a schema check followed by (and following) a validation against the same schema, incl. the
    # definitions/ schemas (one of which is not a valid schema of its own draft)
    docs_of = {}
    for d, s, ok in pairs:
        docs_of.setdefault(s, d)
    some_doc = pairs[0][0]
    for sname in schemas:
        sfile = 'json/' + sname
        d = docs_of.get(sfile, some_doc)
        for v in ('Draft3Validator', 'Draft4Validator'):
            a, b = ['schema_valid', sfile, v, False], ['valid_against_schema', d, sfile, False]
            hists.append([a, b])
            hists.append([b, a])
            if v == 'Draft4Validator':
                hists.append([a, ['valid_against_schema', d, sfile, True]])
    used = {}
    for h in hists:
        for c_ in h:
            used[json.dumps(c_)] = c_
    keys = sorted(used)
    if fr is None:
        fr = report.pool_map(_fresh_one, [used[k] for k in keys])
        fresh = dict(zip(keys, fr))
    else:
        fresh = {json.dumps(c_): r for c_, r in zip(universe, fr)}
    outs = report.pool_map(_hist_one, hists)
    ev = 0
    bad = 0
    for h, o in zip(hists, outs):
        if isinstance(o, dict):
            run.checker_error(o['_crash'])
            continue
        for c_, r in zip(h, o):
            ev += 1
            if r != fresh[json.dumps(c_)]:
                bad += 1
                if bad <= 3:
                    e = run.match_known('history/answer-equals-fresh-process', dict(call=c_, history=h))
                    if e:
                        run.known_finding(e)
                    else:
                        run.violation('history/answer-equals-fresh-process', dict(call='history %r' % (h,), history=h, observed=r,
                                      required=fresh[json.dumps(c_)], fname=c_[0], model={}), True)
                break
    # cross-schema pairs: one document against two different schemas, in this order (an answer may not be inferred from the
    # answer for another schema); every bundled document x every ordered pair of bundled schemas, forked children
    docs = sorted({d for d, _, _ in pairs})
    sfiles = ['json/' + x for x in schemas]
    singles = [[['valid_against_schema', d, sf, ef]] for d in docs for sf in sfiles for ef in (False, True)]
    fr1 = {}
    chunks = [singles[i::16] for i in range(16)]
    for ch, outs1 in zip(chunks, report.pool_map(_forked_chunk, chunks)):
        if isinstance(outs1, dict):
            run.checker_error(outs1['_crash'])
            continue
        for h, o in zip(ch, outs1):
            fr1[json.dumps(h[0])] = o[0] if o else None
    cross = []
    for d in docs:
        for s1 in sfiles:
            for s2 in sfiles:
                if s1 != s2:
                    cross.append([['valid_against_schema', d, s1, False], ['valid_against_schema', d, s2, False]])
                    if tier == 'thorough' or (len(cross) % 3 == 0):
                        cross.append([['valid_against_schema', d, s1, False], ['valid_against_schema', d, s2, True]])
    chunks = [cross[i::16] for i in range(16)]
    nbad = 0
    for ch, outs2 in zip(chunks, report.pool_map(_forked_chunk, chunks)):
        if isinstance(outs2, dict):
            run.checker_error(outs2['_crash'])
            continue
        for h, o in zip(ch, outs2):
            ev += 1
            for c_, r in zip(h, o or []):
                want = fr1.get(json.dumps(c_))
                if want is not None and r != want:
                    nbad += 1
                    if nbad <= 3:
                        run.violation('history/answer-equals-fresh-process', dict(call='history %r' % (h,), history=h, observed=r, required=want,
                                                                                   fname=c_[0], model={}), True)
                    break
    run.record('history/one-document-against-two-schemas/%d-pairs' % len(cross), 'ground', 'refuted' if nbad else 'proved', 'ground-evaluation', 0.0, 'histories')
    hists = hists + cross
    run.bounded.append(dict(what='histories on the real functions vs fresh-process answers (random incl. cache overflow; every '
                                 '(expect_failure twin, call) pair)', bound='%d histories, lengths 2..60' % len(hists), evaluations=ev,
                            distinct_nontrivial=len(hists), decides='replay/second line only; the per-call obligations decide'))


def _fresh_one(c_):
    return run_history([c_])[0]


def _hist_one(h):
    return run_history(h)


# ---------------------------------------------------------------------------- main
def main(tier, seed):
    run = report.Run(PROP, tier, seed)
    run.expected_min_obligations = 20
    run.explanation = ('per-call obligations over an arbitrary cache satisfying the ghost invariant (uncached answer = one symbolic Boolean), '
                       'generated from the real schema_valid / valid_against_schema / _add_to_cache; induction over the history is the meta-argument')
    run.assume('pyvc proxies/rewrites model Python semantics (differentially tested)', 'z3 soundness',
               'induction over call histories: per-call postcondition + preserved cache invariant => every history (meta-argument, not mechanised)',
               'with-statement on a file object neither raises nor alters values')
    results = report.pool_map(_work, [('add', ()), ('memo', ('schema_valid',)), ('memo', ('valid_against_schema',))])

    def on_refuted(res):
        def h(r, _):
            if res['job'][0] == 'memo':
                rep, bad = concretise(res['job'][1][0], r.get('model') or {})
                rep['solver'] = 'z3 sat'
                rep['unit'] = res['unit']
                if bad:
                    run.violation(r['name'], rep, True)
                else:
                    run.spurious_model(r['name'], rep)
            else:
                run.violation(r['name'], dict(model=r.get('model'), fname='_add_to_cache', unit=res['unit'], solver='z3 sat'), False)
        return h
    for res in results:
        if '_crash' in res:
            U.absorb(run, res)
            continue
        run.add_function(res['fn'])
        U.absorb(run, res, on_refuted(res))
    read_frame(run)
    ground(run, tier, seed)
    return run.finish()
