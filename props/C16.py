"""C16 - concurrent calls give the same answers as single-threaded ones.

Per-call contracts say nothing about interleavings; what this family can express is a SUFFICIENT frame/ownership
condition, checked here for every function reachable from the entry points that use shared module state
(athlon score / performance, Hungarian score, Sportshall score, the wma_* wrappers over the shared grader objects,
schema_valid, valid_against_schema):

    every write to a location other threads can reach is (a) absent, (b) a single publish of an object completely
    built in the same call, or (c) inside a `with <module-level lock>` region (lexically or in every caller chain),
    and a container written under a lock is also read under it.

If the condition holds, a thread reads either "absent" (and builds its own equal copy), a complete immutable table, or
state it holds the lock for, so each call returns its sequential answer under any interleaving (GIL: a single
reference store is atomic).  The condition can only OVER-report; level `other`, never reported as a proof of the
property as stated.  A rejected write site is replayed with a forced pre-emption (two threads, the first paused right
after the write by sys.settrace, line granularity) to exhibit a wrong answer on the real code."""
import json
import os
import subprocess
import sys

from pyvc import report
from pyvc.frames import Analyzer, verdicts
from pyvc.util import real_module

PROP = 'C16'

# sample calls per entry point (used by the forced-schedule replay); all through the public athlib namespace
CALLS = {
    'athlib.athlon_score.score': [("athlon_score", ["M", "100", 10.5]), ("athlon_score", ["F", "HJ", 1.8])],
    'athlib.athlon_score.performance': [("athlon_performance_needed", ["M", "100", 900]), ("athlon_performance_needed", ["F", "LJ", 800])],
    'athlib.hungarian_score.score': [("hungarian_score", ["M", "OUT", "100", 10.5]), ("hungarian_score", ["F", "OUT", "HJ", 1.8])],
    'athlib.sportshall_score.sportshall_score': [("sportshall_score", ["SLJ", "2.10"]), ("sportshall_score", ["800", "160"])],
    'athlib.wma_age_factor': [("wma_age_factor", ["m", 50, "100"]), ("wma_age_factor", ["f", 72, "MAR"]), ("wma_age_factor", ["m", 40, "2400"])],
    'athlib.wma_age_grade': [("wma_age_grade", ["m", 50, "5K", "16:23"]), ("wma_age_grade", ["f", 61, "HJ", 1.3])],
    'athlib.wma_world_best': [("wma_world_best", ["m", "100"]), ("wma_world_best", ["f", "2400"])],
    'athlib.wma_athlon_age_factor': [("wma_athlon_age_factor", ["M", 66, "60H"]), ("wma_athlon_age_factor", ["f", 45, "LJ"])],
    'athlib.wma_athlon_age_grade': [],
    'athlib.utils.schema_valid': [("utils.schema_valid", ["json/performance.json"]), ("utils.schema_valid", ["json/race.json"])],
    'athlib.utils.valid_against_schema': [("utils.valid_against_schema", ["sample-jsons/athlete.json", "json/athlete.json"]),
                                          ("utils.valid_against_schema", ["sample-jsons/event.json", "json/event.json"])],
}


def entries():
    import athlib
    a = real_module('athlib.athlon_score')
    h = real_module('athlib.hungarian_score')
    sh = real_module('athlib.sportshall_score')
    u = real_module('athlib.utils')
    return [a.score, a.performance, h.score, sh.sportshall_score, athlib.wma_age_factor, athlib.wma_age_grade, athlib.wma_world_best,
            athlib.wma_athlon_age_factor, athlib.wma_athlon_age_grade, u.schema_valid, u.valid_against_schema]


SCHED = r'''
import sys, json, threading, io, contextlib, os
sys.path.insert(0, os.environ.get('ATHLIB_TREE', '/repo'))
spec = json.loads(sys.argv[1])
FILE, LINE, A, B = spec['file'], spec['line'], spec['a'], spec['b']
import athlib
def resolve(path):
    o = athlib
    for p in path.split('.'):
        o = getattr(o, p)
    return o
def call(c):
    try:
        with contextlib.redirect_stdout(io.StringIO()):
            return ['ret', repr(resolve(c[0])(*c[1]))]
    except Exception as e:
        return ['exc', type(e).__name__]
reached = threading.Event(); resume = threading.Event()
state = {'hit': False}
def tracer(frame, event, arg):
    if frame.f_code.co_filename != FILE:
        return tracer if event == 'call' and FILE.split('/')[-2] in frame.f_code.co_filename else None
    if event == 'line' and not state['hit'] and frame.f_lineno > LINE and state.get('seen_site'):
        state['hit'] = True
        reached.set()
        resume.wait(20)
    if event == 'line' and frame.f_lineno == LINE:
        state['seen_site'] = True
    return tracer
out = {}
def thread_a():
    sys.settrace(tracer)
    try:
        out['a'] = call(A)
    finally:
        sys.settrace(None)
        reached.set()
ta = threading.Thread(target=thread_a)
ta.start()
reached.wait(20)
out['paused'] = state['hit']
out['b'] = call(B)
resume.set()
ta.join(30)
print(json.dumps(out))
'''

SEQ = r'''
import sys, json, io, contextlib, os
sys.path.insert(0, os.environ.get('ATHLIB_TREE', '/repo'))
import athlib
c = json.loads(sys.argv[1])
o = athlib
for p in c[0].split('.'):
    o = getattr(o, p)
try:
    with contextlib.redirect_stdout(io.StringIO()):
        r = ['ret', repr(o(*c[1]))]
except Exception as e:
    r = ['exc', type(e).__name__]
print(json.dumps(r))
'''


def _py(script, arg):
    r = subprocess.run([sys.executable, '-c', script, json.dumps(arg)], capture_output=True, text=True, cwd=os.environ.get('ATHLIB_TREE', '/repo'), timeout=120)
    if r.returncode != 0 or not r.stdout.strip():
        return None
    return json.loads(r.stdout.strip().splitlines()[-1])


def forced_schedule(site):
    """pause a first thread right after the rejected write, run a second call, compare both with their sequential answers"""
    chain = site.get('chain') or []
    entry = chain[0] if chain else None
    cands = CALLS.get(entry) or []
    # calls that touch the same location: those of the same entry, then of every entry
    others = [c for k, v in CALLS.items() for c in v]
    tried = 0
    for a in cands[:2]:
        for b in (cands + others)[:8]:
            if a == b and len(cands) > 1:
                continue
            tried += 1
            got = _py(SCHED, dict(file=site['file'], line=site['line'], a=a, b=b))
            if not got or not got.get('paused'):
                continue
            want_a, want_b = _py(SEQ, a), _py(SEQ, b)
            if got.get('a') != want_a or got.get('b') != want_b:
                return dict(thread_a=a, thread_b=b, paused_after='%s:%d' % (site['file'], site['line']), observed=dict(a=got.get('a'), b=got.get('b')),
                            sequential=dict(a=want_a, b=want_b)), True
    return dict(tried=tried), False


def replay(rep):
    site = rep.get('site')
    if not site:
        print('no site in the replay file')
        return 1
    w, bad = forced_schedule(site)
    print('replay %s: forced pre-emption after %s:%s -> %r' % (rep['obligation'], site['file'], site['line'], w))
    print('VIOLATION reproduced' if bad else 'not reproduced on this tree')
    return 1 if bad else 0


def main(tier, seed):
    run = report.Run(PROP, tier, seed)
    run.expected_min_obligations = 8
    run.level_claim = 'other'
    run.explanation = __doc__
    run.assume('CPython GIL: a single STORE_GLOBAL / STORE_ATTR of an object reference is atomic and makes a fully built object visible',
               'the call graph is resolved through the real modules\' globals; method calls by name over the classes of the package (over-approximate)',
               'sufficient condition only: code made thread-safe by another mechanism would be rejected (over-reporting), level other',
               'locks are module-level threading.Lock/RLock objects used with `with`')
    an = Analyzer('athlib')
    for e in entries():
        an.analyze(e)
    sites = verdicts(an)
    for fi in sorted(set(i.qual for i in an.infos.values())):
        run.add_function(dict(function=fi, note='write-frame inferred from the AST of the real function'))
    n_ok = 0
    for s in sorted(sites, key=lambda s: (s['file'], s['line'], s['location'])):
        name = 'frame/%s:%d/%s' % (s['function'], s['line'], s['location'])
        if s['ok']:
            n_ok += 1
            run.record(name, 'frame', 'proved', 'frame-analysis', 0.0, 'frames')
            continue
        run.record(name, 'frame', 'refuted', 'frame-analysis', 0.0, 'frames')
        e = run.match_known(name, dict(s))
        if e:
            run.known_finding(e)
            continue
        w, bad = forced_schedule(s) if s.get('kind') != 'unprotected read' else ({}, False)
        run.violation(name, dict(call='write site %s:%d in %s (%s)' % (s['file'], s['line'], s['function'], s['location']), observed=w, reason=s['why'],
                                 site=dict(file=s['file'], line=s['line'], chain=s.get('chain'), function=s['function'], location=s['location'], kind=s.get('kind')),
                                 solver='frame analysis: %s' % s['why']), bad)
    run.sample(dict(sites=[dict(function=s['function'], line=s['line'], location=s['location'], verdict='accepted: ' + s['why'] if s['ok'] else 'REJECTED: ' + s['why'])
                           for s in sites][:12]))
    run.extra['functions_in_the_call_graph'] = len(an.infos)
    run.extra['write_sites'] = len(sites)
    # bounded smoke: hammer the entry points from threads (never decides; catches crashes of the harness assumptions)
    run.bounded.append(dict(what='forced pre-emption replay (two threads, first paused after the write, line granularity) for rejected sites only',
                            bound='<= 16 call pairs per site', evaluations=0, distinct_nontrivial=0, decides='replay only'))
    return run.finish()
