"""C16 - concurrent calls give the same answers as single-threaded ones.

Per-call contracts say nothing about interleavings; what this family can express is a SUFFICIENT frame/ownership
condition, checked here for every function reachable from the entry points that use shared module state
(athlon score / performance, Hungarian score, Sportshall score, the wma_* wrappers over the shared grader objects,
schema_valid, valid_against_schema):

    every write to a location other threads can reach is (a) absent, (b) a single publish of an object completely
    built in the same call, or (c) inside a `with <module-level lock>` region (lexically or in every caller chain),
    and a container written under a lock is also read under it.

If the condition holds, a thread reads either "absent" (and builds its own equal copy), a complete immutable table, or
state it holds the lock for, so each call returns its sequential answer under any interleaving (GIL: a single
reference store is atomic).  The condition can only OVER-report; level `other`, never reported as a proof of the
property as stated.  A rejected write site is replayed with a forced pre-emption (two threads, the first paused right
after the write by sys.settrace, line granularity) to exhibit a wrong answer on the real code."""
import json
import os
import subprocess
import sys

from pyvc import report
from pyvc.frames import Analyzer, verdicts
from pyvc.util import real_module

PROP = 'C16'

# sample calls per entry point (used by the forced-schedule replay); all through the public athlib namespace
CALLS = {
    'athlib.athlon_score.score': [("athlon_score", ["M", "100", 10.5]), ("athlon_score", ["F", "HJ", 1.8])],
    'athlib.athlon_score.performance': [("athlon_performance_needed", ["M", "100", 900]), ("athlon_performance_needed", ["F", "LJ", 800])],
    'athlib.hungarian_score.score': [("hungarian_score", ["M", "OUT", "100", 10.5]), ("hungarian_score", ["F", "OUT", "HJ", 1.8])],
    'athlib.sportshall_score.sportshall_score': [("sportshall_score", ["SLJ", "2.10"]), ("sportshall_score", ["800", "160"])],
    'athlib.wma_age_factor': [("wma_age_factor", ["m", 50, "100"]), ("wma_age_factor", ["f", 72, "MAR"]), ("wma_age_factor", ["m", 40, "2400"])],
    'athlib.wma_age_grade': [("wma_age_grade", ["m", 50, "5K", "16:23"]), ("wma_age_grade", ["f", 61, "HJ", 1.3])],
    'athlib.wma_world_best': [("wma_world_best", ["m", "100"]), ("wma_world_best", ["f", "2400"])],
    'athlib.wma_athlon_age_factor': [("wma_athlon_age_factor", ["M", 66, "60H"]), ("wma_athlon_age_factor", ["f", 45, "LJ"])],
    'athlib.wma_athlon_age_grade': [],
    'athlib.utils.schema_valid': [("utils.schema_valid", ["json/performance.json"]), ("utils.schema_valid", ["json/race.json"])],
    'athlib.utils.valid_against_schema': [("utils.valid_against_schema", ["sample-jsons/athlete.json", "json/athlete.json"]),
                                          ("utils.valid_against_schema", ["sample-jsons/performance_minimal.json", "json/performance.json"]),
                                          ("utils.valid_against_schema", ["sample-jsons/event.json", "json/event.json"]),
                                          ("utils.valid_against_schema", ["sample-jsons/athlete_invalid.json", "json/athlete.json", True]),
                                          ("utils.valid_against_schema", ["sample-jsons/athlete_invalid.json", "json/athlete.json", False])],
}


def entries():
    import athlib
    a = real_module('athlib.athlon_score')
    h = real_module('athlib.hungarian_score')
    sh = real_module('athlib.sportshall_score')
    u = real_module('athlib.utils')
    return [a.score, a.performance, h.score, sh.sportshall_score, athlib.wma_age_factor, athlib.wma_age_grade, athlib.wma_world_best,
            athlib.wma_athlon_age_factor, athlib.wma_athlon_age_grade, u.schema_valid, u.valid_against_schema]


SCHED = r'''
import sys, json, threading, io, contextlib, os
sys.path.insert(0, os.environ.get('ATHLIB_TREE', '/repo'))
spec = json.loads(sys.argv[1])
FILE, LINE, A, B = spec['file'], spec['line'], spec['a'], spec['b']
import athlib
def resolve(path):
    o = athlib
    for p in path.split('.'):
        o = getattr(o, p)
    return o
def call(c):
    try:
        with contextlib.redirect_stdout(io.StringIO()):
            return ['ret', repr(resolve(c[0])(*c[1]))]
    except Exception as e:
        return ['exc', type(e).__name__]
reached = threading.Event(); resume = threading.Event()
state = {'hit': False}
def tracer(frame, event, arg):
    if frame.f_code.co_filename != FILE:
        return tracer if event == 'call' and FILE.split('/')[-2] in frame.f_code.co_filename else None
    if event == 'line' and not state['hit'] and frame.f_lineno > LINE and state.get('seen_site'):
        state['hit'] = True
        reached.set()
        resume.wait(8)
    if event == 'line' and frame.f_lineno == LINE:
        state['seen_site'] = True
    return tracer
out = {}
def thread_a():
    sys.settrace(tracer)
    try:
        out['a'] = call(A)
    finally:
        sys.settrace(None)
        reached.set()
ta = threading.Thread(target=thread_a)
ta.start()
reached.wait(6)
out['paused'] = state['hit']
out['b'] = call(B)
resume.set()
ta.join(30)
print(json.dumps(out))
'''

SCHED2 = r'''
import sys, json, threading, io, contextlib, os
sys.path.insert(0, os.environ.get('ATHLIB_TREE', '/repo'))
spec = json.loads(sys.argv[1])
FILE, LINE, A, B = spec['file'], spec['line'], spec['a'], spec['b']
import athlib
def resolve(path):
    o = athlib
    for p in path.split('.'):
        o = getattr(o, p)
    return o
def call(c):
    try:
        with contextlib.redirect_stdout(io.StringIO()):
            return ['ret', repr(resolve(c[0])(*c[1]))]
    except Exception as e:
        return ['exc', type(e).__name__]
class Ctl(object):
    def __init__(self):
        self.reached = threading.Event(); self.resume = threading.Event(); self.hit = False; self.seen = False
def mk_tracer(ctl):
    def tracer(frame, event, arg):
        if frame.f_code.co_filename != FILE:
            return tracer if event == 'call' and FILE.split('/')[-2] in frame.f_code.co_filename else None
        if event == 'line' and not ctl.hit and ctl.seen and frame.f_lineno != LINE:
            ctl.hit = True
            ctl.reached.set()
            ctl.resume.wait(8)
        if event == 'line' and frame.f_lineno == LINE:
            ctl.seen = True
        return tracer
    return tracer
out = {}
def runner(name, c, ctl):
    sys.settrace(mk_tracer(ctl))
    try:
        out[name] = call(c)
    finally:
        sys.settrace(None)
        ctl.reached.set()
ca, cb = Ctl(), Ctl()
ta = threading.Thread(target=runner, args=('a', A, ca)); tb = threading.Thread(target=runner, args=('b', B, cb))
ta.start(); ca.reached.wait(6)            # A has passed the write site and is paused
tb.start(); cb.reached.wait(6)            # B has passed it too (or finished)
out['paused'] = [ca.hit, cb.hit]
ca.resume.set(); ta.join(30)               # A runs to its end first
cb.resume.set(); tb.join(30)               # then B continues
print(json.dumps(out))
'''

LOCKLEAK = r'''
import sys, json, threading, io, contextlib, os
sys.path.insert(0, os.environ.get('ATHLIB_TREE', '/repo'))
spec = json.loads(sys.argv[1])
import athlib
def resolve(path):
    o = athlib
    for p in path.split('.'):
        o = getattr(o, p)
    return o
def call(c):
    try:
        with contextlib.redirect_stdout(io.StringIO()):
            return ['ret', repr(resolve(c[0])(*c[1]))]
    except Exception as e:
        return ['exc', type(e).__name__]
out = {}
def ta():
    out['a'] = call(spec['a'])
def tb():
    out['b'] = call(spec['b'])
t1 = threading.Thread(target=ta); t1.start(); t1.join(20)
t2 = threading.Thread(target=tb, daemon=True); t2.start(); t2.join(5)
out['b_blocked'] = t2.is_alive()
sys.__stdout__.write(json.dumps(out) + '\n'); sys.__stdout__.flush()     # (thread B may still hold the stdout redirection)
os._exit(0)
'''

THREADDIFF = r'''
import sys, json, threading, io, contextlib, os
sys.path.insert(0, os.environ.get('ATHLIB_TREE', '/repo'))
calls = json.loads(sys.stdin.read())
import athlib
def resolve(path):
    o = athlib
    for p in path.split('.'):
        o = getattr(o, p)
    return o
def call(c):
    try:
        with contextlib.redirect_stdout(io.StringIO()):
            return ['ret', repr(resolve(c[0])(*c[1]))]
    except Exception as e:
        return ['exc', type(e).__name__]
main = [call(c) for c in calls]
other = []
def run():
    for c in calls:
        other.append(call(c))
t = threading.Thread(target=run); t.start(); t.join(600)
print(json.dumps([main, other]))
'''

SEQ = r'''
import sys, json, io, contextlib, os
sys.path.insert(0, os.environ.get('ATHLIB_TREE', '/repo'))
import athlib
c = json.loads(sys.argv[1])
o = athlib
for p in c[0].split('.'):
    o = getattr(o, p)
try:
    with contextlib.redirect_stdout(io.StringIO()):
        r = ['ret', repr(o(*c[1]))]
except Exception as e:
    r = ['exc', type(e).__name__]
print(json.dumps(r))
'''


def _py(script, arg):
    r = subprocess.run([sys.executable, '-c', script, json.dumps(arg)], capture_output=True, text=True, cwd=os.environ.get('ATHLIB_TREE', '/repo'), timeout=120)
    if r.returncode != 0 or not r.stdout.strip():
        return None
    return json.loads(r.stdout.strip().splitlines()[-1])


def forced_schedule(site):
    """pause a first thread right after the rejected write, run a second call, compare both with their sequential answers"""
    chain = site.get('chain') or []
    entry = chain[0] if chain else None
    cands = CALLS.get(entry) or []
    # calls that touch the same location: those of the same entry, then of every entry
    others = [c for k, v in CALLS.items() for c in v]
    tried = 0
    for a in cands[:2]:
        for b in (cands + others)[:8]:
            if a == b and len(cands) > 1:
                continue
            tried += 1
            got = _py(SCHED, dict(file=site['file'], line=site['line'], a=a, b=b))
            if not got or not got.get('paused'):
                continue
            want_a, want_b = _py(SEQ, a), _py(SEQ, b)
            if got.get('a') != want_a or got.get('b') != want_b:
                return dict(thread_a=a, thread_b=b, paused_after='%s:%d' % (site['file'], site['line']), observed=dict(a=got.get('a'), b=got.get('b')),
                            sequential=dict(a=want_a, b=want_b)), True
    return dict(tried=tried), False


def forced_schedule2(site):
    """two pre-emptions: A and B are both paused right after the write site, A then runs to its end, then B continues"""
    chain = site.get('chain') or []
    cands = list(CALLS.get(chain[0] if chain else None) or [])
    tried = 0
    for a in cands[:3]:
        for b in cands[:3]:
            tried += 1
            got = _py(SCHED2, dict(file=site['file'], line=site['line'], a=a, b=b))
            if not got or not all(got.get('paused') or [False]):
                continue
            want_a, want_b = _py(SEQ, a), _py(SEQ, b)
            if got.get('a') != want_a or got.get('b') != want_b:
                return dict(thread_a=a, thread_b=b, schedule='A and B both paused after %s:%d, A finishes, then B continues' % (site['file'], site['line']),
                            observed=dict(a=got.get('a'), b=got.get('b')), sequential=dict(a=want_a, b=want_b)), True
    return dict(tried=tried), False


def lock_leak(site):
    """a call that raises while the lock is held, then a valid call from another thread: does it ever return?"""
    chain = site.get('chain') or []
    cands = list(CALLS.get(chain[0] if chain else None) or []) or [c for v in CALLS.values() for c in v if c[0].startswith('wma')]
    for good in cands[:2]:
        for pos in range(len(good[1])):
            if not isinstance(good[1][pos], str):
                continue
            bad_args = list(good[1])
            bad_args[pos] = '?!no-such-value'
            a = [good[0], bad_args]
            if (_py(SEQ, a) or ['ret'])[0] != 'exc':
                continue
            got = _py(LOCKLEAK, dict(a=a, b=good))
            if got and got.get('b_blocked'):
                return dict(thread_a=a, thread_b=good, observed='thread A raised %r; thread B, started afterwards, did not return within 5 s' % (got.get('a'),),
                            sequential=dict(b=_py(SEQ, good))), True
    return dict(tried='lock leak'), False


def thread_calls():
    """sample calls for the main-thread / other-thread differential: the CALLS table plus number marks on the Sportshall grid"""
    out = [list(c) for v in CALLS.values() for c in v]
    sh = real_module('athlib.sportshall_score')
    try:
        evs = list(sh.RAWDATA[0][1:])
    except Exception:
        evs = []
    for ev in evs:
        for k in range(0, 1300, 7):
            out.append(['sportshall_score', [ev, k / 100]])
            out.append(['sportshall_score', [ev, k / 10]])
    for k in range(900, 1500, 3):
        out.append(['athlon_score', ['M', '100', k / 100]])
        out.append(['hungarian_score', ['M', 'OUT', '100', k / 100]])
        out.append(['tyrving_score', ['M', 15, '100', k / 100]])
        out.append(['qkids_score', ['QKSEC', '100', k / 100]]) if hasattr(__import__('athlib'), 'qkids_score') else None
    return out


def thread_differential(run):
    """every sample call gives, in a thread other than the one that imported the library, the answer it gives in the importing
    thread (state that is per thread - the decimal context, threading.local - must not carry configuration)"""
    calls = thread_calls()
    r = subprocess.run([sys.executable, '-c', THREADDIFF], input=json.dumps(calls), capture_output=True, text=True,
                       cwd=os.environ.get('ATHLIB_TREE', '/repo'), timeout=900)
    name = 'threads/answer-in-another-thread-equals-answer-in-the-importing-thread'
    if r.returncode != 0 or not r.stdout.strip():
        run.record(name, 'ground', 'unknown', 'ground-evaluation', 0.0, 'threads', 'harness failed: %s' % r.stderr[-300:])
        return 0
    main, other = json.loads(r.stdout.strip().splitlines()[-1])
    bad = [(c, m, o) for c, m, o in zip(calls, main, other) if m != o]
    run.record(name, 'ground', 'refuted' if bad else 'proved', 'ground-evaluation', 0.0, 'threads')
    if bad:
        c, m, o = bad[0]
        run.violation(name, dict(call='athlib.%s(*%r)' % (c[0], c[1]), observed=dict(importing_thread=m, other_thread=o), count=len(bad),
                                 threadcall=c, solver='ground evaluation'), True)
    return len(calls)


def ambient_state(run):
    """the package does not configure per-thread ambient state (decimal context, threading.local attributes) anywhere - module
    level included: such a setting exists only in the thread that made it"""
    import ast, inspect, sys as _sys
    found = []
    for mn, mod in sorted(_sys.modules.items()):
        if not (mn == 'athlib' or mn.startswith('athlib.')) or mod is None or not getattr(mod, '__file__', None) or not mod.__file__.endswith('.py'):
            continue
        try:
            tree = ast.parse(open(mod.__file__).read())
        except Exception:
            continue
        for n in ast.walk(tree):
            tgt = None
            if isinstance(n, (ast.Assign, ast.AugAssign)):
                for t in (n.targets if isinstance(n, ast.Assign) else [n.target]):
                    if isinstance(t, ast.Attribute) and isinstance(t.value, ast.Call):
                        f = t.value.func
                        nm = f.id if isinstance(f, ast.Name) else f.attr if isinstance(f, ast.Attribute) else ''
                        if nm in ('getcontext', 'localcontext'):
                            tgt = 'decimal context .%s' % t.attr
                    if isinstance(t, ast.Attribute) and isinstance(t.value, ast.Name) and isinstance(getattr(mod, t.value.id, None), __import__('threading').local):
                        tgt = 'threading.local attribute %s.%s' % (t.value.id, t.attr)
            elif isinstance(n, ast.Call):
                f = n.func
                nm = f.id if isinstance(f, ast.Name) else f.attr if isinstance(f, ast.Attribute) else ''
                if nm in ('setcontext', 'setlocale'):
                    tgt = '%s()' % nm
            if tgt:
                found.append((mod.__file__, n.lineno, tgt))
    name = 'frame/no-per-thread-ambient-state-is-configured'
    run.record(name, 'frame', 'refuted' if found else 'proved', 'frame-analysis', 0.0, 'frames')
    return found


def replay(rep):
    if rep.get('threadcall'):
        c = rep['threadcall']
        r = subprocess.run([sys.executable, '-c', THREADDIFF], input=json.dumps([c]), capture_output=True, text=True,
                           cwd=os.environ.get('ATHLIB_TREE', '/repo'), timeout=300)
        main, other = json.loads(r.stdout.strip().splitlines()[-1])
        print('replay %s: %r importing thread -> %r, other thread -> %r' % (rep['obligation'], c, main[0], other[0]))
        print('VIOLATION reproduced' if main != other else 'not reproduced on this tree')
        return 1 if main != other else 0
    site = rep.get('site')
    if not site:
        print('no site in the replay file')
        return 1
    w, bad = schedule_for(site)
    print('replay %s: forced pre-emption after %s:%s -> %r' % (rep['obligation'], site['file'], site['line'], w))
    print('VIOLATION reproduced' if bad else 'not reproduced on this tree')
    return 1 if bad else 0


def schedule_for(site):
    if site.get('kind') == 'lock acquire':
        return lock_leak(site)
    w, bad = forced_schedule(site)
    if not bad:
        w2, bad = forced_schedule2(site)
        if bad:
            w = w2
    return w, bad


def main(tier, seed):
    run = report.Run(PROP, tier, seed)
    run.expected_min_obligations = 8
    run.level_claim = 'other'
    run.explanation = __doc__
    run.assume('CPython GIL: a single STORE_GLOBAL / STORE_ATTR of an object reference is atomic and makes a fully built object visible',
               'the call graph is resolved through the real modules\' globals; method calls by name over the classes of the package (over-approximate)',
               'sufficient condition only: code made thread-safe by another mechanism would be rejected (over-reporting), level other',
               'locks are module-level threading.Lock/RLock objects used with `with`')
    an = Analyzer('athlib')
    for e in entries():
        an.analyze(e)
    sites = verdicts(an)
    for fi in sorted(set(i.qual for i in an.infos.values())):
        run.add_function(dict(function=fi, note='write-frame inferred from the AST of the real function'))
    n_ok = 0
    for s in sorted(sites, key=lambda s: (s['file'], s['line'], s['location'])):
        name = 'frame/%s:%d/%s' % (s['function'], s['line'], s['location'])
        if s['ok']:
            n_ok += 1
            run.record(name, 'frame', 'proved', 'frame-analysis', 0.0, 'frames')
            continue
        run.record(name, 'frame', 'refuted', 'frame-analysis', 0.0, 'frames')
        e = run.match_known(name, dict(s))
        if e:
            run.known_finding(e)
            continue
        import time as _t
        t_rep = _t.time()
        if run.extra.get('replay_seconds', 0) < (120 if tier == 'quick' else 1200) and s.get('kind') != 'unprotected read':
            w, bad = schedule_for(s)
        else:
            w, bad = dict(skipped='replay budget of this run used up'), False
        run.extra['replay_seconds'] = run.extra.get('replay_seconds', 0) + _t.time() - t_rep
        run.violation(name, dict(call='write site %s:%d in %s (%s)' % (s['file'], s['line'], s['function'], s['location']), observed=w, reason=s['why'],
                                 site=dict(file=s['file'], line=s['line'], chain=s.get('chain'), function=s['function'], location=s['location'], kind=s.get('kind')),
                                 solver='frame analysis: %s' % s['why']), bad)
    run.sample(dict(sites=[dict(function=s['function'], line=s['line'], location=s['location'], verdict='accepted: ' + s['why'] if s['ok'] else 'REJECTED: ' + s['why'])
                           for s in sites][:12]))
    amb = ambient_state(run)
    ncalls = thread_differential(run)
    if amb and not any(v['obligation'].startswith('threads/') for v in run.violations):
        f, ln, what = amb[0]
        run.violation('frame/no-per-thread-ambient-state-is-configured', dict(call='%s:%d sets %s' % (f, ln, what), observed='per-thread state configured by the package',
                                                                               site=None, solver='frame analysis'), False)
    run.bounded.append(dict(what='main-thread / other-thread differential of the sample calls (incl. number marks on the Sportshall grid)', bound='%d calls' % ncalls,
                            evaluations=ncalls, distinct_nontrivial=ncalls, decides='per-thread ambient state (bounded)'))
    run.extra['functions_in_the_call_graph'] = len(an.infos)
    run.extra['write_sites'] = len(sites)
    # bounded smoke: hammer the entry points from threads (never decides; catches crashes of the harness assumptions)
    run.bounded.append(dict(what='forced pre-emption replay (two threads, first paused after the write, line granularity) for rejected sites only',
                            bound='<= 16 call pairs per site', evaluations=0, distinct_nontrivial=0, decides='replay only'))
    return run.finish()
