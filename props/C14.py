"""C14 - WMA age grading is defined, consistent and spelling-independent on its domain.

Under contract: AgeGrader.find_age, find_row_by_event, normalize_gender, event_code_to_kind, calculate_factor,
world_best, calculate_age_grade; AthlonsAgeGrader.calculate_factor (get_data external: the JSON the module loads).

symbolic (all real ages, not only half-integers): for every table row, calculate_factor on a symbolic age
   (exact rational h/2, h integer, from the row's first non-null column to 20 years past the last) never raises and
   returns the interpolation spec - a convex combination of two adjacent non-null entries (z3 equality of the exact
   values + certified float error), hence finite and > 0;
ground (the property's finite domain, complete): gender spellings x both letter cases of every event x half-integer
   ages x marks around the open best: factor/best/grade identical across spellings, grade = (best/factor)/time or
   mark/(best/factor) up to 4 ulp, exactly 1.0 at (factor 1.0, mark = best), strictly monotone in the mark."""
import math
from fractions import Fraction

import z3

from pyvc import report, unit as U
from pyvc.core import ctx, explore
from pyvc.values import SInt, zbool, sym_int
from pyvc.instrument import instrument
from pyvc import floats as F
from pyvc.util import real_module

PROP = 'C14'
AG_NAMES = ['calculate_factor', 'find_row_by_event', 'find_row_by_distance', 'find_age', 'normalize_gender', 'event_code_to_kind',
            'world_best', 'calculate_age_grade']
GENDERS = {'m': ['m', 'M', 'male', 'Male', 'MALE', 'men'], 'f': ['f', 'F', 'female', 'Female', 'FEMALE', 'fem']}
PAST = 20


def _ag():
    return real_module('athlib.wma.agegrader')


def ag_sub():
    ag = _ag()
    d, recs = {}, []
    for n in AG_NAMES:
        raw = ag.AgeGrader.__dict__[n]
        inst = instrument(raw)
        recs.append(inst)
        d[n] = staticmethod(inst.fn) if isinstance(raw, staticmethod) else inst.fn
    return type('AgeGrader', (ag.AgeGrader,), d), recs


def first_col(row):
    return [i for i, v in enumerate(row[3:]) if v is not None][0]


def spec_factor_term(row, ages, age_t):
    """interpolation spec as a z3 real term of the age: piecewise linear through the non-null entries, last column beyond"""
    fx = row[3:]
    j0 = first_col(row)
    last = len(ages) - 1
    t = z3.RealVal(repr(fx[last]))
    for i in range(last, j0, -1):
        a0, a1 = ages[i - 1], ages[i]
        f0, f1 = Fraction(repr(fx[i - 1])), Fraction(repr(fx[i]))
        seg = z3.RealVal(str(f0)) + (age_t - a0) * z3.RealVal(str((f1 - f0) / (a1 - a0)))
        t = z3.If(age_t <= a1, seg, t)
    return t


def unit_factor(args):
    year, g, ri = args
    ag = _ag()
    Sub, recs = ag_sub()
    obj = Sub(year)
    data = obj.get_data()
    row = data[g][ri]
    ages = data['ages']
    j0 = first_col(row)
    ev = row[0]
    fx = row[3:]
    # the age axis is split at the tabulated ages: one exploration per bracket (a0, a1], plus the first column itself and
    # the open range past the last column; within a bracket every table comparison is decided statically
    pieces = [(2 * ages[j0], 2 * ages[j0], ('col', j0))]
    for i in range(j0 + 1, len(ages)):
        if fx[i - 1] is not None and fx[i] is not None:      # a null inside a row (2015 women's PV) is outside the covered ages
            pieces.append((2 * ages[i - 1] + 1, 2 * ages[i], ('seg', i)))
        elif fx[i] is not None:
            pieces.append((2 * ages[i], 2 * ages[i], ('col', i)))
    if fx[-1] is not None:
        pieces.append((2 * ages[-1] + 1, 2 * (ages[-1] + PAST), ('col', len(ages) - 1)))
    res = None
    for hmin, hmax, what in pieces:
        def run():
            h = F.sym_int_var('h', hmin, hmax)
            age = F.SFloat(F.Aff(0, {'h': Fraction(1, 2)}), None, 0)
            ctx().extra = h
            ctx().called = True
            return obj.calculate_factor(g, age, ev)

        def post(p, c):
            h = c.extra
            if p.outcome == 'exc':
                c.oblige('calculate_factor/defined-on-the-domain', False, 'raises', meta=dict(exc=type(p.value).__name__, msg=str(p.value)[:60]))
                return
            r = p.value
            if isinstance(r, (int, float)) and not isinstance(r, bool):
                r = F.SFloat.const(r)
            ok = isinstance(r, F.SFloat)
            c.oblige('calculate_factor/returns-a-float', ok, 'post', meta=dict(result=repr(p.value)[:60]))
            if not ok:
                return
            age_t = z3.ToReal(h) / 2
            if what[0] == 'col':
                spec = z3.RealVal(repr(fx[what[1]]))
            else:
                i = what[1]
                a0, a1 = ages[i - 1], ages[i]
                f0, f1 = Fraction(repr(fx[i - 1])), Fraction(repr(fx[i]))
                spec = z3.RealVal(str(f0)) + (age_t - a0) * z3.RealVal(str((f1 - f0) / (a1 - a0)))
            c.oblige('calculate_factor/equals-interpolation-of-adjacent-table-entries', r.t == spec, 'post')
            c.oblige('calculate_factor/float-error-within-1e-12', bool(r.err <= Fraction(1, 10 ** 12)), 'post', meta=dict(err='%.2e' % float(r.err)))
            lo = min(v for v in fx if v is not None)
            c.oblige('calculate_factor/finite-and-positive', r.t >= z3.RealVal(repr(lo)), 'post')

        r1 = U.verify('calculate_factor[%s,%s,%s]' % (year, g, ev), run, post,
                      want_sample=(year == '2023' and g == 'm' and ev == '100' and what == ('seg', j0 + 3)))
        if res is None:
            res = r1
        else:
            res['results'] += r1['results']
            res['paths'] += r1['paths']
            res['wall'] += r1['wall']
            res['sample'] = res['sample'] or r1['sample']
            res['assumptions'] = sorted(set(res['assumptions']) | set(r1['assumptions']))
            for k, v in r1['outcomes'].items():
                res['outcomes'][k] = res['outcomes'].get(k, 0) + v
    for x in res['results']:
        x['ctx'] = dict(year=year, g=g, ev=ev)
    res['fns'] = [x.describe() for x in recs]
    return res


def conc_factor(r):
    cx = r['ctx']
    m = r.get('model') or {}
    age = int(m.get('h', 0)) / 2
    ag = _ag().AgeGrader(cx['year'])
    want = spec_factor(ag, cx['g'], cx['ev'], age)
    # a whole age may arrive as an int or as a float: both forms are the age of the model
    for a_arg in ([int(age), float(age)] if age == int(age) else [age]):
        try:
            got = ag.calculate_factor(cx['g'], a_arg, cx['ev'])
        except Exception as e:
            got = 'raises %s' % type(e).__name__
        bad = not (isinstance(got, (int, float)) and want is not None and abs(got - want) <= 1e-12)
        if bad:
            age = a_arg
            break
    return dict(call='AgeGrader(%r).calculate_factor(%r,%r,%r)' % (cx['year'], cx['g'], age, cx['ev']), observed=got, required=want,
                input=['factor', cx['year'], cx['g'], age, cx['ev']]), bad


def spec_factor(ag, g, ev, age):
    """exact interpolation on concrete values (Fractions)"""
    d = ag.get_data()
    ages = d['ages']
    row = [r for r in d[g] if r[0] == ev.upper()]
    if not row:
        return None
    row = row[0]
    fx = row[3:]
    j0 = first_col(row)
    if age < ages[j0]:
        return None
    if age >= ages[-1]:
        return float(Fraction(repr(fx[-1])))
    for i in range(j0 + 1, len(ages)):
        if age <= ages[i]:
            a0, a1 = ages[i - 1], ages[i]
            if age == a1 and fx[i] is not None:
                return float(Fraction(repr(fx[i])))
            if fx[i - 1] is None or fx[i] is None:
                return None
            f0, f1 = Fraction(repr(fx[i - 1])), Fraction(repr(fx[i]))
            return float(f0 + (Fraction(age) - a0) * (f1 - f0) / (a1 - a0))
    return None


# ---------------------------------------------------------------------------- ground: spellings, best, grade
def ulp_close(a, b, n=4):
    if a == b:
        return True
    return abs(a - b) <= n * math.ulp(max(abs(a), abs(b)))


def ground_chunk(args):
    year, g, ri = args
    ag = _ag()
    obj = ag.AgeGrader(year)
    d = obj.get_data()
    row = d[g][ri]
    ages = d['ages']
    ev = row[0]
    j0 = first_col(row)
    # timed or measured: from the event-code families themselves (field = jumps and throws, C04), not from the
    # classifier of the code under contract
    from pyvc.util import real_module as _rm
    timed = not _rm('athlib.codes').PAT_FIELD.match(ev)
    best = row[2]
    bad = []
    n = 0
    from athlib import check_event_code

    def call(f, *a):
        try:
            return ('ret', f(*a))
        except Exception as e:
            return ('exc', type(e).__name__)
    age_list = [ages[j0] + k / 2 for k in range(0, 2 * (ages[-1] + PAST - ages[j0]) + 1)]
    for ai, age in enumerate(age_list):
        a_arg = int(age) if age == int(age) else age
        ref = call(obj.calculate_factor, g, a_arg, ev)
        n += 1
        want = spec_factor(obj, g, ev, age)
        if want is None:
            continue
        if age == int(age):
            # a whole age may arrive as an int or as a float (14 and 14.0 are the same age)
            ref_f = call(obj.calculate_factor, g, float(age), ev)
            n += 1
            if ref_f != ref:
                bad.append(('factor', g, float(age), ev, ref_f, want))
                continue
        if ref[0] != 'ret' or isinstance(ref[1], bool) or not isinstance(ref[1], (int, float)) or not math.isfinite(ref[1]) or abs(ref[1] - want) > 1e-12:
            bad.append(('factor', g, a_arg, ev, ref, want))
            continue
        if ai % 5 and age not in (ages[j0], ages[-1], ages[-1] + PAST):
            continue
        for gs in GENDERS[g]:
            for e2 in (ev, ev.lower(), ev.capitalize()):
                if not check_event_code(e2):
                    continue      # a re-spelling that is not an event code ('5m' for 5 miles) may be refused
                n += 1
                r2 = call(obj.calculate_factor, gs, a_arg, e2)
                if r2 != ref:
                    bad.append(('factor-spelling', gs, a_arg, e2, r2, ref))
                b2 = call(obj.world_best, gs, e2)
                if b2 != ('ret', best):
                    bad.append(('best-spelling', gs, None, e2, b2, best))
                # grade on marks around the open best
                prev = None
                for mult in (0.5, 0.9, 1.0, 1.0 + 1e-9, 1.1, 2.0):
                    mark = best * mult
                    gr = call(obj.calculate_age_grade, gs, a_arg, e2, mark)
                    n += 1
                    if ref[1] == 0:
                        break          # zero table entry: reported by table-entries-positive
                    std = best * 1.0 / ref[1]
                    want_g = (std / mark) if timed else (mark / std)
                    if gr[0] != 'ret' or not ulp_close(gr[1], want_g):
                        bad.append(('grade', gs, a_arg, e2, mark, gr, want_g))
                        break
                    if mult == 1.0 and ref[1] == 1.0 and gr[1] != 1.0:
                        bad.append(('grade-exactly-1', gs, a_arg, e2, mark, gr, 1.0))
                    if prev is not None and not ((gr[1] < prev) if timed else (gr[1] > prev)):
                        bad.append(('grade-monotone', gs, a_arg, e2, mark, gr, prev))
                    prev = gr[1]
        if len(bad) > 6:
            break
    return (year, g, ev), n, bad[:6]


def athlon_chunk(args):
    g, = args
    ag = _ag()
    obj = ag.AthlonsAgeGrader()
    d = obj.get_data()
    ages = d['ages']
    bad = []
    n = 0
    from pyvc.util import real_module as _rm
    for row in d[g]:
        ev = row[0]
        timed = not _rm('athlib.codes').PAT_FIELD.match(ev)
        for age2 in range(2, 2 * 135 + 1):
            age = age2 / 2
            a_arg = int(age) if age == int(age) else age
            band = 5 * int(age // 5)
            want = 1.0 if band < 35 else row[min(ages.index(band) if band in ages else len(row) - 1, len(row) - 1)]
            for gs in GENDERS[g][:3]:
                for e2 in (ev, ev.lower()):
                    n += 1
                    try:
                        got = obj.calculate_factor(gs, a_arg, e2)
                    except Exception as e:
                        got = 'raises %s' % type(e).__name__
                    if got != want:
                        bad.append(('athlon-factor', gs, a_arg, e2, got, want))
                    elif age2 % 7 == 0 and isinstance(got, (int, float)) and got:
                        # grade identities relative to the grader's own open best (standard / time, or mark / standard)
                        try:
                            best = obj.world_best(gs, e2)
                            prev = None
                            for mult in (0.5, 1.0, 1.1, 2.0):
                                mark = best * mult
                                n += 1
                                gr = obj.calculate_age_grade(gs, a_arg, e2, mark)
                                std = best * 1.0 / got
                                want_g = (std / mark) if timed else (mark / std)
                                if not ulp_close(gr, want_g):
                                    bad.append(('athlon-grade', gs, a_arg, e2, mark, gr, want_g))
                                    break
                                if prev is not None and not ((gr < prev) if timed else (gr > prev)):
                                    bad.append(('athlon-grade-monotone', gs, a_arg, e2, mark, gr, prev))
                                prev = gr
                        except Exception as e:
                            bad.append(('athlon-grade', gs, a_arg, e2, None, 'raises %s' % type(e).__name__, None))
            if len(bad) > 6:
                return ('athlons', g), n, bad[:6]
    return ('athlons', g), n, bad[:6]


YEAR_SPELLINGS = [2015, '2015', 2023, '2023', None]          # None: each wrapper's own default


def wrappers_chunk(args):
    """the package-level functions wma_age_factor / wma_world_best / wma_age_grade name the table by a `year` argument: for every
    spelling of it the three must speak about the SAME table - the grade they report is (best / factor) / time (time events) or
    mark / (best / factor) (field events) of the best and the factor they report"""
    g, = args
    import athlib
    ag = _ag()
    bad = []
    n = 0
    d = ag.AgeGrader('2023').get_data()
    ages = d['ages']
    for row in d[g]:
        ev = row[0]
        j0 = first_col(row)
        if j0 is None:
            continue
        timed = not real_module('athlib.codes').PAT_FIELD.match(ev)
        for yr in YEAR_SPELLINGS:
            kw = {} if yr is None else {'year': yr}
            for age in (ages[j0], 30 if ages[j0] <= 30 else ages[j0] + 1, 47.5, 62):
                if age < ages[j0]:
                    continue
                n += 1
                try:
                    f = athlib.wma_age_factor(g, age, ev, **kw) if yr is not None else None
                    b = athlib.wma_world_best(g, ev, **kw) if yr is not None else None
                    if yr is None:
                        continue          # the defaults of the three wrappers differ by design ('2015' vs '2023'): nothing to compare
                    if not f or not b:
                        continue
                    mark = b * 1.07
                    gr = athlib.wma_age_grade(g, age, ev, mark, **kw)
                    std = b / f
                    want = (std / mark) if timed else (mark / std)
                    if not ulp_close(gr, want):
                        bad.append(('wrappers-grade', g, age, ev, repr(yr), gr, want))
                except Exception as e:
                    bad.append(('wrappers-grade', g, age, ev, repr(yr), 'raises %s' % type(e).__name__, None))
                if len(bad) > 4:
                    return ('wrappers', g, 'all'), n, bad
    return ('wrappers', g, 'all'), n, bad


WRAPFIRST = r'''
import sys, json, os
sys.path.insert(0, os.environ.get('ATHLIB_TREE', '/repo'))
import athlib
from athlib.wma.agegrader import AgeGrader
out = []
for yr, table in ((2015, '2015'), (2023, '2023')):
    # the wrappers FIRST (nothing has used the package-level graders yet), then own grader objects for the same table
    w = [athlib.wma_age_factor('m', 50, '100', year=yr), athlib.wma_world_best('m', '100', year=yr), athlib.wma_age_grade('m', 50, '100', 12.0, year=yr),
         athlib.wma_age_factor('f', 62, 'HJ', year=yr), athlib.wma_world_best('f', 'MAR', year=yr)]
    g = AgeGrader(table)
    o = [g.calculate_factor('m', 50, '100'), g.world_best('m', '100'), g.calculate_age_grade('m', 50, '100', 12.0),
         g.calculate_factor('f', 62, 'HJ'), g.world_best('f', 'MAR')]
    out.append([yr, w, o])
print(json.dumps(out))
'''


def wrappers_first_use(run):
    """in a fresh interpreter, the package-level functions asked with year=2015 / 2023 BEFORE anything else has touched the graders
    answer from that year's table (the same numbers as an AgeGrader built for it)"""
    import subprocess, sys, json, os
    name = 'package-level-wrappers-answer-from-the-table-of-the-year-on-first-use'
    r = subprocess.run([sys.executable, '-c', WRAPFIRST], capture_output=True, text=True, cwd=os.environ.get('ATHLIB_TREE', '/repo'), timeout=120)
    if r.returncode != 0 or not r.stdout.strip():
        run.record(name, 'ground', 'refuted', 'ground-evaluation', 0.0, 'wrappers')
        run.violation(name, dict(call='wma_age_factor / wma_world_best / wma_age_grade with year=2015, 2023 first thing in a fresh interpreter',
                                 observed='raises: %s' % r.stderr.strip().splitlines()[-1:] , input=['wrapfirst']), True)
        return
    res = json.loads(r.stdout.strip().splitlines()[-1])
    bad = [(yr, w, o) for yr, w, o in res if w != o]
    run.record(name, 'ground', 'refuted' if bad else 'proved', 'ground-evaluation', 0.0, 'wrappers')
    if bad:
        yr, w, o = bad[0]
        run.violation(name, dict(call='the package-level functions with year=%r, first thing in a fresh interpreter' % yr, observed=w, required=o, input=['wrapfirst']), True)


def datafile_obligations(run, labels=('2015', '2023', 'athlons')):
    ag = _ag()
    # the table a grader works from IS its data file (every spec below reads the rows through get_data(): that link is an obligation)
    import json as _json, os as _os
    for label, obj in [(l, ag.AthlonsAgeGrader() if l == 'athlons' else ag.AgeGrader(l)) for l in labels]:
        name = 'get_data/%s-table-in-use-is-the-data-file' % label
        try:
            fn = _os.path.join(_os.path.dirname(ag.__file__), obj.data_file_name)
            with open(fn) as f_:
                want = _json.load(f_)
            ok = obj.get_data() == want and obj.get_data() == type(obj)(*(() if label == 'athlons' else (label,))).get_data()
        except Exception as e:
            ok, want = False, repr(e)
        run.record(name, 'ground', 'proved' if ok else 'refuted', 'ground-evaluation', 0.0, 'tables')
        if not ok:
            run.violation(name, dict(call='%s.get_data()' % type(obj).__name__, observed='differs from %s' % getattr(obj, 'data_file_name', '?'), input=['datafile', label]), False)


def _work(job):
    if job[0] == 'wrap':
        return ('ground',) + wrappers_chunk(job[1])
    if job[0] == 'sym':
        r = unit_factor(job[1])
        r['job'] = job
        return r
    if job[0] == 'ath':
        return ('ground',) + athlon_chunk(job[1])
    return ('ground',) + ground_chunk(job[1])


def replay(rep):
    inp = rep['input']
    if inp and inp[0] == 'datafile':
        import json as _json, os as _os
        ag_ = _ag()
        obj = ag_.AthlonsAgeGrader() if inp[1] == 'athlons' else ag_.AgeGrader(inp[1])
        with open(_os.path.join(_os.path.dirname(ag_.__file__), obj.data_file_name)) as f_:
            bad = obj.get_data() != _json.load(f_)
        print('replay %s: get_data() %s the data file' % (rep['obligation'], 'differs from' if bad else 'equals'))
        print('VIOLATION reproduced' if bad else 'not reproduced on this tree')
        return 1 if bad else 0
    if inp and inp[0] == 'wrapfirst':
        class _R(object):
            violations = []
            def record(self, *a, **k): pass
            def violation(self, name, d, bad): self.violations.append(d)
        r_ = _R()
        wrappers_first_use(r_)
        print('replay %s: %r' % (rep['obligation'], r_.violations[:1]))
        print('VIOLATION reproduced' if r_.violations else 'not reproduced on this tree')
        return 1 if r_.violations else 0
    ag = _ag()
    if inp[0] == 'shape':
        _, year, g, age, ev = inp
        try:
            got = ag.AgeGrader(year).calculate_factor(g, age, ev)
        except Exception as e:
            got = 'raises %s' % type(e).__name__
        bad = not (isinstance(got, (int, float)) and got > 0)
        print('replay: calculate_factor(%r, %r, %r) -> %r' % (g, age, ev, got))
    elif inp[0] == 'factor':
        _, year, g, age, ev = inp
        obj = ag.AgeGrader(year)
        try:
            got = obj.calculate_factor(g, age, ev)          # the age in the form recorded (json keeps 14 and 14.0 apart)
        except Exception as e:
            got = 'raises %s' % type(e).__name__
        want = spec_factor(obj, g.lower()[0], ev, age)
        bad = not (isinstance(got, (int, float)) and want is not None and abs(got - want) <= 1e-12)
        print('replay: calculate_factor -> %r (required %r)' % (got, want))
    else:
        key, item = inp[1], inp[2]
        if key[0] == 'athlons':
            _, _, bad_ = athlon_chunk((key[1],))
        elif key[0] == 'wrappers':
            _, _, bad_ = wrappers_chunk((key[1],))
        else:
            d = ag.AgeGrader(key[0]).get_data()
            ri = [i for i, r in enumerate(d[key[1]]) if r[0] == key[2]][0]
            _, _, bad_ = ground_chunk((key[0], key[1], ri))
        bad = bool(bad_)
        print('replay ground %r -> %r' % (key, bad_[:2]))
    print('VIOLATION reproduced' if bad else 'not reproduced on this tree')
    return 1 if bad else 0


def main(tier, seed):
    run = report.Run(PROP, tier, seed)
    run.expected_min_obligations = 1000
    run.level_claim = 'other'      # one known finding (zero entries of the 2015 women's PV row)
    run.explanation = __doc__
    run.assume('pyvc proxies/rewrites; float proxy (IEEE-754 binary64): exact value + certified error', 'z3 soundness',
               'ages are exact binary values (ints or halves); "equals" for floats means same exact value and error <= 1e-12 (factor) / 4 ulp (grade)',
               'domain per row: from its first non-null age column to 20 years past the last column')
    ag = _ag()
    J = []
    for year in ('2015', '2023'):
        d = ag.AgeGrader(year).get_data()
        for g in 'mf':
            for ri in range(len(d[g])):
                row = d[g][ri]
                # table shape: a row has one entry (a number or null) per age column; a shorter row leaves ages the table
                # claims to cover without a factor
                name = 'table/%s-%s-%s/row-has-an-entry-per-age-column' % (year, g, row[0])
                if len(row) - 3 != len(d['ages']):
                    run.record(name, 'ground', 'refuted', 'ground-evaluation', 0.0, 'tables')
                    age = d['ages'][-1]
                    try:
                        got = ag.AgeGrader(year).calculate_factor(g, age, row[0])
                    except Exception as e:
                        got = 'raises %s' % type(e).__name__
                    run.violation(name, dict(call='AgeGrader(%r).calculate_factor(%r, %r, %r)' % (year, g, age, row[0]), observed=got,
                                             required='a finite positive factor (the row has %d entries for %d age columns)' % (len(row) - 3, len(d['ages'])),
                                             input=['shape', year, g, age, row[0]]), not (isinstance(got, (int, float)) and got > 0))
                    continue
                J.append(('sym', (year, g, ri)))
                J.append(('gr', (year, g, ri)))
    wrappers_first_use(run)
    datafile_obligations(run)
    J += [('ath', ('m',)), ('ath', ('f',)), ('wrap', ('m',)), ('wrap', ('f',))]
    results = report.pool_map(_work, J)
    gn = 0
    for res in results:
        if isinstance(res, dict) and '_crash' in res:
            U.absorb(run, res)
            continue
        if isinstance(res, tuple):
            _, key, n, bad = res
            gn += n
            name = ('spelling-independence,best,grade-identities/%s-%s-%s' % key if key[0] not in ('athlons', 'wrappers') else
                    'athlon-factor=band-entry(1.0 below 35)/%s' % key[1] if key[0] == 'athlons' else
                    'package-level-wrappers-speak-about-one-table-for-every-spelling-of-the-year/%s' % key[1])
            run.record(name, 'ground', 'refuted' if bad else 'proved', 'ground-evaluation', 0.0, 'ground')
            if bad:
                e = run.match_known(name, dict(kind=bad[0][0], gender=bad[0][1], age=bad[0][2], event=bad[0][3]))
                if e:
                    run.known_finding(e)
                else:
                    run.violation(name, dict(call='%s: %r' % (bad[0][0], bad[0][1:4]), observed=repr(bad[0][4:]), more=[repr(b) for b in bad[:4]],
                                             input=['ground', list(key), list(bad[0][:4])]), True)
            continue
        for d_ in res['fns']:
            run.add_function(d_)

        def on_refuted(r, _res):
            rep, bad = conc_factor(r)
            rep['model'] = r.get('model')
            rep['unit'] = _res['unit']
            rep['solver'] = 'z3 sat'
            if bad:
                run.violation(r['name'], rep, True)
            else:
                run.spurious_model(r['name'], rep)
        U.absorb(run, res, on_refuted)
    for year in ('2015', '2023'):
        d = ag.AgeGrader(year).get_data()
        for g in 'mf':
            for row in d[g]:
                zeros = [d['ages'][i] for i, v in enumerate(row[3:]) if v is not None and not (v > 0)]
                name = 'table-entries-positive/%s-%s-%s' % (year, g, row[0])
                run.record(name, 'ground', 'refuted' if zeros else 'proved', 'ground-evaluation', 0.0, 'tables')
                if zeros:
                    e = run.match_known(name, dict(year=year, gender=g, event=row[0], ages=zeros))
                    if e:
                        run.known_finding(e)
                    else:
                        run.violation(name, dict(call='AgeGrader(%r).calculate_factor(%r,%r,%r)' % (year, g, zeros[0], row[0]), observed=0,
                                                 required='> 0', input=['factor', year, g, zeros[0], row[0]]), True)
    run.extra['ground_evaluations'] = gn
    run.bounded.append(dict(what='real calculate_factor / world_best / calculate_age_grade on the property\'s finite domain (spellings x cases x '
                                 'half-integer ages x marks around the best)', bound='complete for the stated domain (grade on every 2.5 years)',
                            evaluations=gn, distinct_nontrivial=gn, decides='the ground obligations'))
    return run.finish()
