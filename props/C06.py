"""C06 - times are never rounded down: decimal rounding, formatting and parsing agree.

Under contract: athlib.utils.round_up_str_num, format_seconds_as_time, str2num, parse_hms."""
import itertools
import math
import random
from fractions import Fraction

import z3

from pyvc import report, unit as U
from pyvc.core import ctx, concrete_ctx, PathEnd, OutOfSubset
from pyvc.values import SInt, SBool, mkbool, zbool, sym_int, And, Or, Not
from pyvc.builtins_sym import sym_eq, SFmt, SHADOWS
from pyvc.instrument import instrument
from pyvc import sstr as S
from pyvc import floats as F
from pyvc.util import real_module
from specs import decimal_text as DT

PROP = 'C06'
MAXSEC = 360000          # 100 h


def _u():
    return real_module('athlib.utils')


# ============================================================================ A. round_up_str_num
def shapes_A(tier):
    amax, bmax = (6, 9)
    out = []
    for a in range(0, amax + 1):
        for b in [None] + list(range(0, bmax + 1)):
            if a == 0 and b in (None, 0):
                continue          # '' and '.' are not decimal numerals
            out.append((a, b))
    return out


def unit_A(args):
    a, b = args
    f = instrument(_u().round_up_str_num)
    res_all = None
    for prec in range(0, 6):
        def run():
            classes = [S.DIGITS] * a + ([] if b is None else ['.'] + [S.DIGITS] * b)
            s = S.SStr.fresh('s', classes)
            ctx().extra = s
            return f(s, prec)

        def post(p, c):
            s = c.extra
            if p.outcome == 'exc':
                c.oblige('round_up_str_num/no-exception', False, 'raises', meta=dict(exc=type(p.value).__name__))
                return
            DT.round_up_contract_check(c, 'round_up_str_num', s, prec, p.value)

        r = U.verify('round_up_str_num[int=%d,frac=%s,prec=%d]' % (a, b, prec), run, post, want_sample=(a == 2 and b == 4 and prec == 2))
        for x in r['results']:
            x['prec'] = prec
        if res_all is None:
            res_all = r
        else:
            res_all['results'] += r['results']
            res_all['paths'] += r['paths']
            res_all['wall'] += r['wall']
            res_all['sample'] = res_all['sample'] or r['sample']
            for k, v in r['outcomes'].items():
                res_all['outcomes'][k] = res_all['outcomes'].get(k, 0) + v
    res_all['unit'] = 'round_up_str_num[int=%d,frac=%s]' % (a, b)
    res_all['fn'] = f.describe()
    return res_all


def conc_A(args, r):
    a, b = args
    m = r.get('model') or {}
    cells = []
    n = a + (0 if b is None else 1 + b)
    for i in range(n):
        if b is not None and i == a:
            cells.append('.')
        else:
            cells.append(chr(int(m.get('s_%d' % i, 48))))
    s = ''.join(cells)
    prec = r.get('prec', 0)
    got = _u().round_up_str_num(s, prec)
    want = spec_round_up_text(s, prec)
    return dict(call='round_up_str_num(%r, %d)' % (s, prec), observed=got, required=want, input=[s, prec], kind='A'), not roundup_ok(s, prec, got)


def spec_round_up_text(s, prec, maxDP=5):
    """canonical contract-conforming answer on concrete text (exact integer arithmetic)"""
    ip, _, fp = s.partition('.')
    f5 = fp[:maxDP]
    N = int((ip or '0') + f5) if (ip or f5) else 0
    b = len(f5)
    if b <= prec:
        R = N * 10 ** (prec - b)
    else:
        R = -((-N) // 10 ** (b - prec))
    t = '%0*d' % (prec + 1, R)
    return (t[:-prec] + '.' + t[-prec:]) if prec else t


def roundup_ok(s, prec, got, maxDP=5):
    """does `got` satisfy the contract for input (s, prec)?  (value, decimals, numeral)"""
    import re
    if not isinstance(got, str) or not re.match(r'^[0-9]+(\.[0-9]+)?$', got):
        return False
    gi, _, gf = got.partition('.')
    if len(gf) != prec or (('.' in got) != (prec > 0)):
        return False
    want = spec_round_up_text(s, prec, maxDP)
    return Fraction(got) == Fraction(want)


# ============================================================================ B. format_seconds_as_time
def unit_B(args):
    prec, kind = args
    f = instrument(_u().format_seconds_as_time, shadows={'round_up_str_num': DT.round_up_stub})

    def run():
        c = ctx()
        if kind == 'float':
            x = z3.Real('x')
            c.declare_input('x', x)
            c.assume(z3.And(x >= 0, x <= MAXSEC))
            F.declare_var('x', x, 0, MAXSEC)
            arg = F.SFloat(F.Aff(0, {'x': Fraction(1)}), x, 0, MAXSEC)
            c.extra = x
        else:
            n = sym_int('x', 0, MAXSEC)
            F.declare_var('x', n.t, 0, MAXSEC)
            arg = n
            c.extra = z3.ToReal(n.t)
        return f(arg, prec)

    def post(p, c):
        x = c.extra
        if p.outcome == 'cut':
            return
        if p.outcome == 'exc':
            c.oblige('format_seconds_as_time/no-exception', False, 'raises', meta=dict(exc=type(p.value).__name__))
            return
        r = p.value
        if isinstance(r, SFmt):
            r = r.force()
        shape_ok, v = hms_value(r, prec)
        c.oblige('format_seconds_as_time/shape-h:mm:ss-with-prec-decimals', shape_ok, 'post', meta=dict(result=repr(r)))
        if shape_ok is not False:
            noise = z3.RealVal('1/100000') + z3.RealVal(str(F.U))     # digits beyond the 5th decimal + text conversion error
            c.oblige('format_seconds_as_time/not-below-the-duration', v >= x - noise, 'post')
            c.oblige('format_seconds_as_time/less-than-one-unit-above', v < x + z3.RealVal(str(Fraction(1, 10 ** prec))), 'post')

    res = U.verify('format_seconds_as_time[prec=%d,%s]' % (prec, kind), run, post, timeout_ms=20000)
    res['fn'] = f.describe()
    return res


def hms_value(r, prec):
    """(shape condition as z3 Bool / bool, exact value as z3 Real) of a shape-typed h:mm:ss[.ddd] text"""
    cells = list(S.cells_of(r))
    fields, cur = [], []
    for cl in cells:
        if isinstance(cl, str) and cl == ':':
            fields.append(cur)
            cur = []
        else:
            if isinstance(cl, S.Var) and cl.cc.has(ord(':')):
                return False, None
            cur.append(cl)
    fields.append(cur)
    if not (1 <= len(fields) <= 3):
        return False, None
    conds = []
    last = fields[-1]
    if '.' in [x for x in last if isinstance(x, str)]:
        i = [k for k, x in enumerate(last) if isinstance(x, str) and x == '.'][0]
        ip, fp = last[:i], last[i + 1:]
    else:
        ip, fp = last, []
    if len(fp) != prec or (prec == 0 and len(ip) != len(last)):
        return False, None
    parts = fields[:-1] + [ip]
    for k, fld in enumerate(parts + [fp]):
        for cl in fld:
            if isinstance(cl, str):
                if cl not in '0123456789':
                    return False, None
            elif not cl.cc.subset(S.DIGITS):
                return False, None
    for k, fld in enumerate(parts):
        if not fld:
            return False, None
        if k > 0:
            if len(fld) != 2:
                return False, None
        if k >= len(parts) - 2:
            # minutes and seconds are below 60 - also when they lead the text ('60' or '75:30' is not a formatted time)
            conds.append(DT.digits_value(fld) < 60)
    val = z3.IntVal(0)
    for fld in parts:
        val = val * 60 + DT.digits_value(fld)
    v = z3.ToReal(val)
    if fp:
        v = v + z3.ToReal(DT.digits_value(fp)) / z3.RealVal(10 ** len(fp))
    return (z3.And(*conds) if conds else True), v


def fmt_ok(x, prec, got):
    """concrete checker of the formatting clause (exact rational arithmetic on the float's exact value)"""
    import re
    if not isinstance(got, str):
        return False
    m = re.match(r'^(?:(\d+):)?(?:(\d+):)?(\d+)(?:\.(\d+))?$', got)
    if not m:
        return False
    h, mi, s, fr = m.groups()
    if h is not None and mi is None:
        h, mi = None, h
    if len(fr or '') != prec:
        return False
    if (mi is not None and len(s) != 2) or int(s) >= 60:
        return False
    if (h is not None and len(mi) != 2) or (mi is not None and int(mi) >= 60):
        return False
    v = Fraction(int(h or 0) * 3600 + int(mi or 0) * 60 + int(s)) + (Fraction(int(fr), 10 ** len(fr)) if fr else 0)
    X = Fraction(x)
    return v >= X - Fraction(1, 10 ** 5) - F.U and v < X + Fraction(1, 10 ** prec)


def conc_B(args, r):
    prec, kind = args
    m = r.get('model') or {}
    xv = m.get('x', 0)
    X = Fraction(xv) if not isinstance(xv, str) else Fraction(xv)
    cands = []
    if kind == 'float':
        f0 = float(X)
        cands = [f0, math.nextafter(f0, math.inf), math.nextafter(f0, 0.0)]
    else:
        cands = [int(X)]
    fn = _u().format_seconds_as_time
    for x in cands:
        if x < 0:
            continue
        try:
            got = fn(x, prec)
        except Exception as e:
            got = 'raises %s' % type(e).__name__
        if not fmt_ok(x, prec, got):
            return dict(call='format_seconds_as_time(%r, %d)' % (x, prec), observed=got, input=[x, prec], kind='B',
                        required='h:mm:ss text, value in [x - 1e-5, x + 10^-prec)'), True
    return dict(call='format_seconds_as_time(%r, %d)' % (cands[0], prec), observed=fn(cands[0], prec), input=[cands[0], prec], kind='B'), False


# ============================================================================ C. parse_hms on field shapes
def shapes_C(tier):
    out = []
    lens = [1, 2, 4] if tier == 'quick' else [1, 2, 3, 4, 6]
    decs = [None, 0, 1, 3]
    for nf in (1, 2, 3):
        for sep in (':', ';'):
            if nf == 1 and sep == ';':
                continue
            for fl in itertools.product(lens, repeat=nf):
                if tier == 'quick' and nf == 3 and len(set(fl)) > 2:
                    continue
                for d in decs:
                    out.append((nf, sep, fl, d))
    return out


def unit_C(args):
    nf, sep, fl, d = args
    u = _u()
    s2n = instrument(u.str2num)
    f = instrument(u.parse_hms, shadows={'str2num': s2n.fn})

    def run():
        classes = []
        for i, L in enumerate(fl):
            if i:
                classes.append(sep)
            classes += [S.DIGITS] * L
        if d is not None:
            classes += ['.'] + [S.DIGITS] * d
        t = S.SStr.fresh('t', classes)
        ctx().extra = t
        return f(t)

    def post(p, c):
        t = c.extra
        if p.outcome == 'exc':
            c.oblige('parse_hms/well-formed-text-is-accepted', False, 'raises', meta=dict(exc=type(p.value).__name__))
            return
        cells = list(S.cells_of(t))
        fields, cur = [], []
        for cl in cells:
            if isinstance(cl, str) and cl == sep:
                fields.append(cur)
                cur = []
            else:
                cur.append(cl)
        fields.append(cur)
        last = fields[-1]
        if d is not None:
            i = [k for k, x in enumerate(last) if isinstance(x, str) and x == '.'][0]
            ip, fp = last[:i], last[i + 1:]
        else:
            ip, fp = last, []
        val = z3.IntVal(0)
        for fld in fields[:-1] + [ip]:
            val = val * 60 + DT.digits_value(fld)
        r = p.value
        if d is None:
            c.oblige('parse_hms/integer-fields-give-an-int', isinstance(r, (int, SInt)) and not isinstance(r, bool), 'post')
            if isinstance(r, (int, SInt)):
                c.oblige('parse_hms/exact-sexagesimal-value', (r.t if isinstance(r, SInt) else z3.IntVal(r)) == val, 'post')
        else:
            ok = isinstance(r, F.SFloat)
            c.oblige('parse_hms/decimal-field-gives-a-float', ok, 'post')
            if ok:
                exact = z3.ToReal(val) + (z3.ToReal(DT.digits_value(fp)) / z3.RealVal(10 ** len(fp)) if fp else z3.RealVal(0))
                c.oblige('parse_hms/exact-sexagesimal-value', r.t == exact, 'post')
                c.oblige('parse_hms/float-error-within-4ulp', bool(r.err <= 4 * F.U * max(r.mag, 1)), 'post',
                         meta=dict(err='%.3e' % float(r.err)))

    res = U.verify('parse_hms[%d fields %r lens=%s dec=%s]' % (nf, sep, fl, d), run, post)
    res['fn'] = f.describe()
    res['fn2'] = s2n.describe()
    return res


def conc_C(args, r):
    nf, sep, fl, d = args
    m = r.get('model') or {}
    n = sum(fl) + (nf - 1) + (0 if d is None else 1 + d)
    # rebuild text
    classes = []
    for i, L in enumerate(fl):
        if i:
            classes.append(sep)
        classes += [None] * L
    if d is not None:
        classes += ['.'] + [None] * d
    t = ''.join(k if k is not None else chr(int(m.get('t_%d' % i, 48))) for i, k in enumerate(classes))
    return conc_parse(t)


def parse_spec(t):
    """exact value of a well-formed h:m:s text, or None"""
    import re
    for sep in ':;':
        if sep in t:
            parts = t.split(sep)
            break
    else:
        parts = [t]
    if not all(re.match(r'^[0-9]+$', x) for x in parts[:-1]) or not re.match(r'^[0-9]+(\.[0-9]*)?$', parts[-1]):
        return None
    v = Fraction(0)
    for x in parts[:-1]:
        v = v * 60 + int(x)
    return v * 60 + Fraction(parts[-1]) if len(parts) > 0 else None, ('.' in parts[-1])


def conc_parse(t):
    fn = _u().parse_hms
    try:
        got = fn(t)
        obs = repr(got)
    except ValueError:
        got, obs = None, 'raises ValueError'
    except Exception as e:
        return dict(call='parse_hms(%r)' % t, observed='raises %s' % type(e).__name__, input=[t], kind='C', required='a number or ValueError'), True
    sp = parse_spec(t)
    bad = False
    if sp is not None and sp[0] is not None:
        v, isf = sp
        if got is None:
            bad = True
        elif not isf:
            bad = not (isinstance(got, int) and got == v)
        else:
            bad = not (isinstance(got, float) and got == got and got not in (float('inf'), float('-inf')) and abs(Fraction(got) - v) <= 4 * F.U * max(v, 1))
    return dict(call='parse_hms(%r)' % t, observed=obs, input=[t], kind='C', required=str(sp)), bad


# ============================================================================ D. parse_hms totality on any text
class AbsNum(object):
    """abstract number: an int of any size or a float of any value (incl. inf/nan); arithmetic raises OverflowError
    on the fork where an int too large for a double meets a float"""
    def __init__(self, kind):
        self.kind = kind            # 'int' | 'float'

    def _mix(self, o):
        c = ctx()
        if isinstance(o, (int, float)) and not isinstance(o, bool):
            if isinstance(o, int) and abs(o) < 2 ** 1000:
                return AbsNum(self.kind)          # a small concrete int never overflows a conversion
            o = AbsNum('int' if isinstance(o, int) else 'float')
        if not isinstance(o, AbsNum):
            return NotImplemented
        if self.kind == 'int' and o.kind == 'int':
            return AbsNum('int')
        if self.kind == 'float' and o.kind == 'float':
            return AbsNum('float')
        # int meets float: the int is converted to a double
        if c.decide(c.fresh('int_exceeds_double_range', 'bool')):
            raise OverflowError('int too large to convert to float')
        return AbsNum('float')

    __add__ = __radd__ = __mul__ = __rmul__ = __sub__ = __rsub__ = _mix

    def __imul__(self, o):
        return self._mix(o)

    def __iadd__(self, o):
        return self._mix(o)


class AbsStr(object):
    """any text whatsoever, seen only through the operations parse_hms/str2num apply"""
    _pytype = str

    def __init__(self, name):
        self.name = name
        self.has = {}

    def _sym_contains(self, ch):
        c = ctx()
        if ch not in self.has:
            self.has[ch] = c.decide(c.fresh('%s_contains_%s' % (self.name, 'colon' if ch == ':' else 'semicolon'), 'bool'))
        return self.has[ch]

    def split(self, sep):
        return AbsFields(self)

    def _sym_int(self, *a):
        c = ctx()
        if c.decide(c.fresh('%s_is_int_text' % self.name, 'bool')):
            return AbsNum('int')
        raise ValueError('invalid literal for int()')

    def _sym_float(self):
        c = ctx()
        if c.decide(c.fresh('%s_is_float_text' % self.name, 'bool')):
            return AbsNum('float')
        raise ValueError('could not convert string to float')

    def _sym_repr(self):
        return '<text>'


class AbsFields(object):
    def __init__(self, src):
        self.src = src


def unit_D(args):
    u = _u()
    s2n = instrument(u.str2num)
    state = {}

    def loop_inv(n, when, loc):
        sec = loc.get('sec')
        ok = (isinstance(sec, AbsNum) or (isinstance(sec, int) and not isinstance(sec, bool)))
        ctx().oblige('parse_hms/loop-invariant(sec is an int or a float)/%s' % when, ok, 'invariant')

    def loop_havoc(n, loc):
        c = ctx()
        k = c.choose(2, 'sec_kind')
        return (AbsNum('int' if k == 0 else 'float'),)

    def loop_more(n):
        c = ctx()
        return c.decide(c.fresh('more_fields', 'bool'))

    def loop_item(n, it):
        return AbsStr('field')

    cuts = {2: dict(havoc=['sec'], kind='for')}
    f = instrument(u.parse_hms, shadows={'str2num': s2n.fn, '__loop_inv': loop_inv, '__loop_havoc': loop_havoc,
                                         '__loop_more': loop_more, '__loop_item': loop_item}, loop_cuts=cuts)

    def run():
        return f(AbsStr('t'))

    def post(p, c):
        if p.outcome == 'exc':
            ok = isinstance(p.value, ValueError)
            c.oblige('parse_hms/any-text:only-ValueError-escapes', ok, 'raises', meta=dict(exc=type(p.value).__name__))
        elif p.outcome == 'ret':
            r = p.value
            c.oblige('parse_hms/any-text:returns-a-number', isinstance(r, AbsNum) or isinstance(r, (int, float)), 'post')

    res = U.verify('parse_hms[any text, unbounded number of fields]', run, post)
    res['fn'] = f.describe()
    res['fn2'] = s2n.describe()
    return res


def conc_D(args, r):
    # witnesses of the abstract refutation: texts that make an int too large for a double meet a float
    for t in ('1' + '0' * 400 + ':1.5', '1.5:' + '1' + '0' * 400, '1' + '0' * 400 + ';1.5', '9' * 310 + ':0.0', '1e400:' + '9' * 400):
        rep, bad = conc_parse(t)
        if bad:
            return rep, True
    return dict(call='parse_hms(<directed overflow texts>)', observed='no failure', kind='D'), False


# ============================================================================ driver
UNITS = {'A': (unit_A, conc_A), 'B': (unit_B, conc_B), 'C': (unit_C, conc_C), 'D': (unit_D, conc_D)}


def _work(job):
    r = UNITS[job[0]][0](job[1])
    r['job'] = job
    return r


def replay(rep):
    k = rep.get('kind')
    inp = rep.get('input')
    if k == 'A':
        got = _u().round_up_str_num(inp[0], inp[1])
        bad = not roundup_ok(inp[0], inp[1], got)
    elif k == 'B':
        try:
            got = _u().format_seconds_as_time(inp[0], inp[1])
        except Exception as e:
            got = 'raises %s' % type(e).__name__
        bad = not fmt_ok(inp[0], inp[1], got)
    else:
        r, bad = conc_parse(inp[0])
        got = r['observed']
    print('replay %s: %s -> %r' % (rep['obligation'], rep.get('call'), got))
    print('VIOLATION reproduced' if bad else 'not reproduced on this tree')
    return 1 if bad else 0


def standin(run, tier, seed):
    """bounded second line + cross-check of the assumed conversions: the property's own grids on the real functions"""
    rnd = random.Random(seed)
    u = _u()
    n = bad = 0
    # durations: 0.001 grid samples, residues, near-integer values
    xs = [0, 0.0, 59.999, 59.9999, 3599.99, 3599.999, 3600, 65.00000000000001, 65.00005, 0.00005, 1e-9, 1e-16, 359999.9999]
    for _ in range(3000 if tier == 'quick' else 60000):
        k = rnd.randrange(0, MAXSEC * 1000)
        xs.append(k / 1000)
        if rnd.random() < 0.3:
            xs.append(k / 1000 + rnd.choice([1e-4, 1e-5, 3e-6, 1e-7, 1e-9, 1e-12, 1e-14]) * rnd.random())
        if rnd.random() < 0.2:
            xs.append(rnd.randrange(0, 4000) * 0.1 + rnd.randrange(0, 100) * 0.01)
        if rnd.random() < 0.1:
            xs.append(float(rnd.randrange(0, MAXSEC)) + 10.0 ** -rnd.randrange(4, 17))
    # products and sums of grid values: the ones that land a hair BELOW a whole second (4.35*100 = 434.99999999999994) as well as above
    for k in range(1, 6000, 1 if tier != 'quick' else 3):
        for x in (k / 100 * 100, k / 1000 * 1000, (k / 100) * 60, 0.1 * k, k * 0.01 + 0.7 + 0.1 - 0.8):
            if x >= 0 and x != int(x) and abs(x - round(x)) < 1e-6:
                xs.append(x)
    for x in xs:
        for prec in range(4):
            n += 1
            try:
                got = u.format_seconds_as_time(x, prec)
            except Exception as e:
                got = 'raises %s' % type(e).__name__
            if not fmt_ok(x, prec, got):
                bad += 1
                if bad <= 2:
                    run.violation('standin/format_seconds_as_time', dict(call='format_seconds_as_time(%r,%d)' % (x, prec), observed=got,
                                  input=[x, prec], kind='B'), True)
    # digit strings
    for _ in range(4000 if tier == 'quick' else 100000):
        a, b = rnd.randrange(0, 5), rnd.randrange(0, 8)
        s = ''.join(rnd.choice('0099123456789') for _ in range(a)) + '.' + ''.join(rnd.choice('00099123456789') for _ in range(b))
        if s == '.':
            continue
        for prec in range(6):
            n += 1
            got = u.round_up_str_num(s, prec)
            if not roundup_ok(s, prec, got):
                bad += 1
                if bad <= 4:
                    run.violation('standin/round_up_str_num', dict(call='round_up_str_num(%r,%d)' % (s, prec), observed=got, input=[s, prec], kind='A'), True)
    run.bounded.append(dict(what='real format_seconds_as_time / round_up_str_num on sampled grids of the property (0.001 grid to 100 h, residues '
                                 '1e-4..1e-16, products/sums; digit strings 0-4 . 0-7) against the exact-arithmetic contract checkers',
                            bound='%d calls, seed %d' % (n, seed), evaluations=n, distinct_nontrivial=n,
                            decides='second line; also cross-checks the assumed repr/%.17f/float(str) contracts'))


def crosscheck(run, seed):
    """instrumented vs real functions on concrete values"""
    rnd = random.Random(seed)
    u = _u()
    f = instrument(u.round_up_str_num)
    g = instrument(u.parse_hms, shadows={'str2num': instrument(u.str2num).fn})
    n = 0
    with concrete_ctx():
        for _ in range(1500):
            s = ''.join(rnd.choice('0123456789') for _ in range(rnd.randrange(0, 5))) + rnd.choice(['', '.']) + \
                ''.join(rnd.choice('0123456789') for _ in range(rnd.randrange(0, 8)))
            p = rnd.randrange(0, 6)
            n += 1
            try:
                a = f(s, p)
            except Exception as e:
                a = type(e).__name__
            try:
                b = u.round_up_str_num(s, p)
            except Exception as e:
                b = type(e).__name__
            if a != b:
                run.checker_error('instrumented round_up_str_num differs on %r,%d: %r vs %r' % (s, p, a, b))
                return
        for t in ['10', '1:10', '1:1:10', '1:1:10.1', '1;2', 'x', '', '1:x', '1.5', '::', '1:2:3:4', ' 12 ', '1_0', '+5', '-3:2', '1e3', 'inf', '٣', '1:٣']:
            n += 1
            try:
                a = g(t)
            except Exception as e:
                a = type(e).__name__
            try:
                b = u.parse_hms(t)
            except Exception as e:
                b = type(e).__name__
            if a != b and not (a == 'OutOfSubset'):
                run.checker_error('instrumented parse_hms differs on %r: %r vs %r' % (t, a, b))
                return
    run.bounded.append(dict(what='instrumented vs real functions on concrete inputs', bound='%d calls' % n, evaluations=n,
                            distinct_nontrivial=n, decides='nothing (validates the encoder)'))


def main(tier, seed):
    run = report.Run(PROP, tier, seed)
    run.expected_min_obligations = 2000
    run.explanation = ('round_up_str_num proved = exact decimal ceiling for every digit content of every shape (int part 0-6, fraction 0-9 digits, '
                       'prec 0-5); format_seconds_as_time proved from the callee contract for every double / int in [0,100h]; parse_hms exact on '
                       'digit-field shapes, and exception-total for any text with an unbounded number of fields (loop invariant, abstract values)')
    run.assume('pyvc proxies/rewrites (shape-typed strings, float proxy) - differentially tested against CPython', 'z3 soundness',
               'digit contents are ASCII digits (non-ASCII decimal digits are outside the encoding)',
               'IEEE-754 binary64; int(x) truncates exactly',
               'shapes bounded by length: int part <= 6, fraction <= 9 digits (property: 4/7); field lengths of parse_hms shapes listed per unit')
    J = [('A', s) for s in shapes_A(tier)] + [('B', (p, k)) for p in range(4) for k in ('float', 'int')] + \
        [('C', s) for s in shapes_C(tier)] + [('D', ())]
    from pyvc.frames import frame_obligations
    frame_obligations(run, [_u().round_up_str_num, _u().format_seconds_as_time, _u().parse_hms, _u().str2num])
    results = report.pool_map(_work, J)
    for res in results:
        if '_crash' in res:
            U.absorb(run, res)
            continue
        run.add_function(res['fn'])
        if res.get('fn2'):
            run.add_function(res['fn2'])
        job = res['job']

        def on_refuted(r, _res, job=job):
            rep, bad = UNITS[job[0]][1](job[1], r)
            rep['solver'] = 'z3 sat'
            rep['unit'] = _res['unit']
            rep['model'] = r.get('model')
            if bad:
                e = run.match_known(r['name'], dict(rep))
                if e:
                    run.known_finding(e)
                else:
                    run.violation(r['name'], rep, True)
            else:
                run.spurious_model(r['name'], rep)
        U.absorb(run, res, on_refuted)
    crosscheck(run, seed)
    standin(run, tier, seed)
    return run.finish()
