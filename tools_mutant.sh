#!/bin/bash
# usage: tools_mutant.sh <prop> <file> <python-replace-old> <python-replace-new>
# applies a textual mutation to /repo/<file>, runs the check, restores the file
set -u
PROP=$1; FILE=$2; OLD=$3; NEW=$4
cd /repo
python3 - "$FILE" "$OLD" "$NEW" <<'PY'
import sys
p,old,new=sys.argv[1:4]
s=open(p).read()
assert s.count(old)>=1,('pattern not found',old)
s=s.replace(old,new,1)
open(p,'w').write(s)
PY
[ $? -eq 0 ] || exit 9
git diff --stat | tail -1
T=$(/venv/bin/python -m pytest -q -p no:cacheprovider 2>&1 | tail -1)
echo "tests: $T"
cd /verif
./check $PROP --quick 2>&1 | grep -E "VIOLATION|UNDECIDED|CHECKER|quick:" | head -8
echo "exit=${PIPESTATUS[0]}"
git -C /repo checkout -- .
