import json,sys
pid=sys.argv[1]
for l in open('/verif/properties.jsonl'):
    p=json.loads(l)
    if p['id']==pid: break
wt='/tmp/wt2_%s'%pid
print(f"""You are helping to test a verification effort by writing a *seeded defect* for an open-source Python library (openath/athlib, a track-and-field utility library). You have your own scratch git worktree of the library at {wt} (a detached checkout). Work ONLY inside {wt}; do not touch /repo or /verif, and do not read anything under /verif.

The property that your change must break:

TITLE: {p['title']}
STATEMENT: {p['statement']}
QUANTIFIED OVER: {p['quantifier']['text']}
WHY THE EXISTING TESTS CANNOT SETTLE IT: {p['why_tests_cant']}
FILES INVOLVED: {', '.join(p['anchors']['files'])}

Your task: produce THREE different, independent small changes to the library source in {wt} (each one a separate patch against the unmodified worktree) such that each
 (a) breaks the property above on the current code, i.e. after the change there is some input / history for which the statement is false while it is true before the change;
 (b) still imports/compiles and still passes the existing test-suite: run it with
       cd {wt} && PYTHONPATH={wt} /venv/bin/python -m pytest -q -p no:cacheprovider 2>&1 | tail -5
     On the unmodified tree exactly 92 tests pass and 3 fail (tests/test_hungarian_score.py x2 and tests/test_import_at_top_level.py::ImportTest::test_fake_signatures fail already; that is expected). After your change the same 92 must still pass. (Check that `PYTHONPATH={wt} /venv/bin/python -c "import athlib;print(athlib.__file__)"` prints a path inside {wt}.)
 (c) is realistic - the kind of slip or well-meant refactoring a maintainer could make - and needs something specific to manifest: an unusual input, a boundary value, a particular multi-step sequence, or two cooperating sites that each look fine alone. NOT something ordinary use would expose at once, and not a change that removes the feature.
Make the three changes different in kind (different function / different clause of the property / different mechanism).

For each change k = 1,2,3 write into {wt}/seeded/k/ :
  - patch.diff : `git diff` of the change against the unmodified worktree (apply with `git apply`), touching only library source files (not tests);
  - demo.py    : a small standalone program (run as `PYTHONPATH=<tree> /venv/bin/python demo.py`) that exits 0 on the unmodified tree and exits 1 (printing what went wrong) with the change applied. It must test the property statement itself (not implementation details);
  - note.txt   : 3-6 lines: which clause of the property it breaks, what it needs in order to manifest, and the commands you ran with their observed results (tests passing with the change, demo failing with it and passing without it).
After producing each patch, restore the worktree (`git -C {wt} checkout -- .`) before starting the next, so that each patch is against the unmodified tree. Verify every claim by actually running it. Other agents may work in sibling worktrees of the same repository at the same time: do NOT use `git stash` (refs/stash is shared by all worktrees); use `git diff > file`, `git checkout -- .`, `git apply [-R] file` instead. At the end reply with a short summary listing the three changes.""")
